"""C14 — netlink/XFRM requests are byte-exact for the kernel ABI and say what was meant.

Proof: Props/C14.lean.  Correspondence: Impl.newSa / delSa / newPolicy / flush / parseEvent / replyOutcome and the Lean
ctypes-layout algorithm (driver) vs the real Xfrm.* with the netlink socket replaced by a recorder.  Oracle: requests
decoded with the kernel's own layouts (tools/uapi_dump.c compiled with gcc against <linux/xfrm.h> on every run; the
committed Spec/Uapi.lean is compared with it), events encoded with those layouts and parsed by the real code."""
import ctypes
import os
import socket
import struct
import subprocess
import sys
import tempfile
from ipaddress import ip_address, ip_network

import netlink as NL
import xfrm as X
from common import VERIF
from runner import Result

LEAN_FILES = ['PyIkev2/Model/Netlink.lean', 'PyIkev2/Spec/Uapi.lean', 'PyIkev2/Proofs/Netlink.lean']
ASSUMPTIONS = ['x86-64 little-endian host, natural alignment (the ctypes algorithm modelled in Impl.flattenStruct is compared '
               'with ctypes itself for every structure on every run)']
SEQ, PID = 1700000000, 4242


class FakeSock:
    sent = []
    replies = []

    def send(self, data):
        FakeSock.sent.append(bytes(data))

    def recv(self, n):
        if FakeSock.replies:
            return FakeSock.replies.pop(0)
        return ack(0)

    def close(self):
        pass

    def bind(self, a):
        pass


def ack(err, seq=SEQ):
    return struct.pack('<IHHIIi', 36, 2, 0, seq, PID, err) + struct.pack('<IHHII', 16, 0x10, 5, seq, PID)


def uapi_dump():
    d = tempfile.mkdtemp(prefix='c14uapi')
    exe = os.path.join(d, 'dump')
    try:
        p = subprocess.run(['gcc', '-o', exe, os.path.join(VERIF, 'tools', 'uapi_dump.c')], capture_output=True, text=True)
        if p.returncode != 0:
            return None
        out = subprocess.run([exe], capture_output=True, text=True).stdout
    except OSError:
        return None
    finally:
        try:
            os.remove(exe)
        except OSError:
            pass
        os.rmdir(d)
    structs, consts = {}, {}
    for line in out.strip().split('\n'):
        p = line.split()
        if p[0] == 'const':
            consts[p[1]] = int(p[2])
        else:
            structs.setdefault(p[0], []).append((p[1], int(p[2]), int(p[3]), int(p[4])))
    return structs, consts


def spec_file():
    """parse the committed lean/PyIkev2/Spec/Uapi.lean back (to compare with this machine's headers)"""
    import re
    text = open(os.path.join(VERIF, 'lean', 'PyIkev2', 'Spec', 'Uapi.lean')).read()
    structs = {}
    for m in re.finditer(r'def (\w+) : List \(String × Nat × Nat × Bool\) := \[(.*?)\]\ndef \w+_size : Nat := (\d+)', text, flags=re.S):
        fs = [(a, int(b), int(c), 1 if d == 'true' else 0) for a, b, c, d in
              re.findall(r'\("([^"]+)", (\d+), (\d+), (true|false)\)', m.group(2))]
        structs[m.group(1)] = fs + [('#size', int(m.group(3)), 0, 0)]
    return structs


def ctypes_layout(cls, pre=''):
    out = []
    for name, typ in cls._fields_:
        f = getattr(cls, name)
        if hasattr(typ, '_fields_'):
            for p, o, s, be in ctypes_layout(typ, pre + name + '.'):
                out.append((p, f.offset + o, s, be))
        else:
            be = 1 if (issubclass(typ, ctypes.Array) or 'be' in typ.__name__.lower() or issubclass(cls, ctypes.BigEndianStructure)) else 0
            out.append((pre + name, f.offset, f.size, be))
    return out


STRUCTS = {'NetlinkHeader': (NL.NetlinkHeader, 'nlmsghdr'), 'NetlinkErrorMsg': (NL.NetlinkErrorMsg, 'nlmsgerr'),
           'XfrmSelector': (X.XfrmSelector, 'wrap_sel'), 'XfrmId': (X.XfrmId, 'wrap_id'),
           'XfrmUserSaInfo': (X.XfrmUserSaInfo, 'wrap_sa'), 'XfrmUserPolicyInfo': (X.XfrmUserPolicyInfo, 'wrap_pol'),
           'XfrmUserTmpl': (X.XfrmUserTmpl, 'xfrm_user_tmpl'), 'XfrmUserSaId': (X.XfrmUserSaId, 'xfrm_usersa_id'),
           'XfrmUserSaFlush': (X.XfrmUserSaFlush, 'xfrm_usersa_flush'), 'XfrmUserAcquire': (X.XfrmUserAcquire, 'xfrm_user_acquire'),
           'XfrmUserExpire': (X.XfrmUserExpire, 'xfrm_user_expire'), 'XfrmUserPolicyId': (X.XfrmUserPolicyId, 'xfrm_userpolicy_id')}


def rd(data, layout, path, kernel_name=None):
    for p, o, s, be in layout:
        if p == path:
            raw = data[o:o + s]
            return raw if (be and s in (4, 16, 64)) else int.from_bytes(raw, 'big' if be else 'little')
    raise KeyError(path)


def net_tok(n):
    return '%d:%s:%d' % (n.version, n[0].packed.hex(), n.prefixlen)


def addr_tok(a):
    return '%d:%s' % (a.version, a.packed.hex())


def rand_net(rng, v):
    w = 32 if v == 4 else 128
    plen = rng.choice([0, 8, 24, w, rng.randrange(0, w + 1)])
    base = (rng.getrandbits(w) >> (w - plen) << (w - plen)) if plen else 0
    return ip_network((base.to_bytes(w // 8, 'big'), plen))


def run(ctx):
    res = Result()
    rng = ctx.rng
    res.rule = ('random IPv4/IPv6 networks (all prefix lengths), ports incl. 0 and 65535, IP protocols, ESP/AH, both modes, every '
                'algorithm/key-size pair, lifetimes -1 and positive, SPIs, policy indices; ACQUIRE/EXPIRE events with random field '
                'values; ack / error / done replies; distinct = distinct request or event byte string')
    ops, expect = [], []
    dump = uapi_dump()
    res.extra['gcc_uapi_crosscheck'] = dump is not None
    spec = spec_file()
    if dump is not None:
        ustructs, uconsts = dump
        for name, fs in ustructs.items():
            if spec.get(name) != fs:
                res.fail('spec-differs-from-header:' + name, 'committed Spec/Uapi.lean differs from <linux/xfrm.h> on this machine',
                         {'struct': name})
    else:
        ustructs = spec
    # 1. layouts: Lean algorithm == ctypes == kernel
    for name, (cls, kname) in STRUCTS.items():
        ct = ctypes_layout(cls)
        res.evaluations += 1
        ops.append('layout ' + name)
        expect.append(' '.join('%s:%d:%d:%d' % (p if not p.endswith('.addr') or True else p, o, s, be) for p, o, s, be in ct)
                      + ' size=%d' % ctypes.sizeof(cls))
        kern = [(o, s, be) for _, o, s, be in ustructs[kname] if _ != '#size']
        mine = [(o, s, be) for _, o, s, be in ct]
        ksize = [o for n, o, s, be in ustructs[kname] if n == '#size'][0]
        if mine != kern or ctypes.sizeof(cls) != ksize:
            res.fail('layout:' + name, 'ctypes structure %s does not have the kernel layout of %s' % (name, kname), {'struct': name})
    sa_lay = ctypes_layout(X.XfrmUserSaInfo)
    pol_lay = ctypes_layout(X.XfrmUserPolicyInfo)
    tm_lay = ctypes_layout(X.XfrmUserTmpl)
    id_lay = ctypes_layout(X.XfrmUserSaId)
    # patch the socket, clock and pid
    old = (X.Xfrm._get_socket, NL.time.time, NL.os.getpid)
    X.Xfrm._get_socket = classmethod(lambda cls, groups: FakeSock())
    import types
    NL.time = types.SimpleNamespace(time=lambda: SEQ + 0.5)
    NL.os = types.SimpleNamespace(getpid=lambda: PID, strerror=os.strerror)
    try:
        algs = [(b'cbc(aes)', 16), (b'cbc(aes)', 32)]
        auths = [(b'hmac(sha1)', 20), (b'hmac(sha256)', 32), (b'hmac(sha512)', 64), (b'hmac(md5)', 16)]
        for i in range(ctx.scale(600, 20000)):
            v = rng.choice([4, 6])
            ssel, dsel = rand_net(rng, v), rand_net(rng, v)
            tv = rng.choice([4, 6])
            src = ip_address(rng.rbytes(4 if tv == 4 else 16))
            dst = ip_address(rng.rbytes(4 if tv == 4 else 16))
            sp, dp = rng.choice([0, 0, 23, 65535, rng.randrange(65536)]), rng.choice([0, 500, 65535, rng.randrange(65536)])
            ipp = rng.choice([0, 6, 17, 1, 58, rng.randrange(256)])
            isp = rng.choice([socket.IPPROTO_ESP, socket.IPPROTO_AH])
            mode = rng.choice([X.Mode.TRANSPORT, X.Mode.TUNNEL])
            spi = rng.rbytes(4)
            enc, eklen = rng.choice(algs)
            auth, aklen = rng.choice(auths)
            ske, ska = rng.rbytes(eklen), rng.rbytes(aklen)
            lt = rng.choice([-1, -1, 1, 60, 300, rng.randrange(1, 2 ** 31)])
            FakeSock.sent.clear()
            X.Xfrm.create_sa(ssel, dsel, sp, dp, spi, ipp, isp, mode, src, dst, enc if isp == socket.IPPROTO_ESP else None,
                             ske, auth, ska, lt)
            data = FakeSock.sent[-1]
            res.evaluations += 1
            res.nontrivial.add(data)
            res.count('newsa:' + ('esp' if isp == socket.IPPROTO_ESP else 'ah') + ('/v%d' % v))
            ops.append('newsa %s %s %d %d %s %d %d %d %s %s %s %s %s %s %d %d %d' % (
                net_tok(ssel), net_tok(dsel), sp, dp, spi.hex(), ipp, isp, int(mode), addr_tok(src), addr_tok(dst),
                enc.hex() if isp == socket.IPPROTO_ESP else 'none', ske.hex(), auth.hex(), ska.hex(), lt, SEQ, PID))
            expect.append(data.hex())
            if i < 2:
                res.sample({'request': 'NEWSA', 'octets': len(data), 'hex': data.hex()[:160]})
            # oracle: decode with the kernel's layouts
            ln, ty, fl = struct.unpack_from('<IHH', data)
            body = data[16:]
            af = 2 if v == 4 else 10
            ok = (ln == len(data) and ty == 0x10 and fl == 5
                  and rd(body, sa_lay, 'sel.family') == af
                  and rd(body, sa_lay, 'sel.saddr.addr') == ssel[0].packed.ljust(16, b'\0')
                  and rd(body, sa_lay, 'sel.daddr.addr') == dsel[0].packed.ljust(16, b'\0')
                  and rd(body, sa_lay, 'sel.sport') == sp and rd(body, sa_lay, 'sel.dport') == dp
                  and rd(body, sa_lay, 'sel.sport_mask') == (0xFFFF if sp else 0)
                  and rd(body, sa_lay, 'sel.dport_mask') == (0xFFFF if dp else 0)
                  and rd(body, sa_lay, 'sel.prefixlen_s') == ssel.prefixlen and rd(body, sa_lay, 'sel.prefixlen_d') == dsel.prefixlen
                  and rd(body, sa_lay, 'sel.proto') == ipp
                  and rd(body, sa_lay, 'id.daddr.addr') == dst.packed.ljust(16, b'\0') and rd(body, sa_lay, 'id.spi') == spi
                  and rd(body, sa_lay, 'id.proto') == isp and rd(body, sa_lay, 'saddr.addr') == src.packed.ljust(16, b'\0')
                  and rd(body, sa_lay, 'family') == (2 if tv == 4 else 10) and rd(body, sa_lay, 'mode') == int(mode)
                  and rd(body, sa_lay, 'lft.soft_add_expires_seconds') == (0 if lt < 0 else lt)
                  and rd(body, sa_lay, 'lft.hard_add_expires_seconds') == (0 if lt < 0 else lt + 10)
                  and rd(body, sa_lay, 'lft.hard_byte_limit') == 2 ** 64 - 1)
            # attributes: NLA framing, 4-byte aligned, xfrm_algo
            off, attrs = 224, {}
            while off + 4 <= len(body):
                alen, atype = struct.unpack_from('<HH', body, off)
                if alen < 4 or alen % 4 or off + alen > len(body):
                    ok = False
                    break
                attrs[atype] = body[off + 4:off + alen]
                off += alen
            want_attrs = {1: (auth, ska)}
            if isp == socket.IPPROTO_ESP:
                want_attrs[2] = (enc, ske)
            if set(attrs) != set(want_attrs) or off != len(body):
                ok = False
            else:
                for t, (nm, key) in want_attrs.items():
                    a = attrs[t]
                    klen = struct.unpack_from('<I', a, 64)[0]
                    if a[:64] != nm.ljust(64, b'\0') or klen != len(key) * 8 or a[68:68 + len(key)] != key or len(a) < 68 + len(key):
                        ok = False
            if not ok:
                res.fail('newsa-not-what-was-meant', 'XFRM_MSG_NEWSA decoded with the kernel layout differs from the arguments',
                         {'hex': data.hex()})
            # DELSA
            FakeSock.sent.clear()
            X.Xfrm.delete_sa(dst, isp, spi)
            d2 = FakeSock.sent[-1]
            res.evaluations += 1
            res.count('delsa')
            ops.append('delsa %s %d %s %d %d' % (addr_tok(dst), isp, spi.hex(), SEQ, PID))
            expect.append(d2.hex())
            b2 = d2[16:]
            if not (struct.unpack_from('<IHH', d2) == (len(d2), 0x11, 5) and rd(b2, id_lay, 'daddr.addr') == dst.packed.ljust(16, b'\0')
                    and rd(b2, id_lay, 'spi') == spi and rd(b2, id_lay, 'family') == (2 if tv == 4 else 10)
                    and rd(b2, id_lay, 'proto') == isp and len(b2) == 24):
                res.fail('delsa-not-what-was-meant', 'XFRM_MSG_DELSA decoded with the kernel layout differs', {'hex': d2.hex()})
            # NEWPOLICY
            direction = rng.choice([0, 1, 2])
            index = rng.choice([0, 9, rng.randrange(2 ** 20) << 3 | 1, rng.randrange(2 ** 32)])
            FakeSock.sent.clear()
            X.Xfrm.create_policy(ssel, dsel, sp, dp, ipp, direction, isp, mode, src, dst, index=index)
            d3 = FakeSock.sent[-1]
            res.evaluations += 1
            res.nontrivial.add(d3)
            res.count('newpolicy:dir%d' % direction)
            ops.append('newpolicy %s %s %d %d %d %d %d %d %s %s %d %d %d' % (
                net_tok(ssel), net_tok(dsel), sp, dp, ipp, direction, isp, int(mode), addr_tok(src), addr_tok(dst), index, SEQ, PID))
            expect.append(d3.hex())
            b3 = d3[16:]
            tl, tt = struct.unpack_from('<HH', b3, 168)
            t3 = b3[172:]
            if not (struct.unpack_from('<IHH', d3) == (len(d3), 0x13, 5) and rd(b3, pol_lay, 'sel.family') == af
                    and rd(b3, pol_lay, 'sel.saddr.addr') == ssel[0].packed.ljust(16, b'\0')
                    and rd(b3, pol_lay, 'sel.daddr.addr') == dsel[0].packed.ljust(16, b'\0')
                    and rd(b3, pol_lay, 'sel.sport') == sp and rd(b3, pol_lay, 'sel.dport') == dp
                    and rd(b3, pol_lay, 'sel.prefixlen_s') == ssel.prefixlen and rd(b3, pol_lay, 'sel.prefixlen_d') == dsel.prefixlen
                    and rd(b3, pol_lay, 'sel.proto') == ipp and rd(b3, pol_lay, 'index') == index and rd(b3, pol_lay, 'dir') == direction
                    and rd(b3, pol_lay, 'action') == 0 and (tl, tt) == (68, 5) and len(t3) == 64
                    and rd(t3, tm_lay, 'id.daddr.addr') == dst.packed.ljust(16, b'\0') and rd(t3, tm_lay, 'id.proto') == isp
                    and rd(t3, tm_lay, 'family') == (2 if tv == 4 else 10) and rd(t3, tm_lay, 'saddr.addr') == src.packed.ljust(16, b'\0')
                    and rd(t3, tm_lay, 'mode') == int(mode) and rd(t3, tm_lay, 'aalgos') == 0xFFFFFFFF):
                res.fail('newpolicy-not-what-was-meant', 'XFRM_MSG_NEWPOLICY decoded with the kernel layout differs', {'hex': d3.hex()})
        for fn, ty in ((X.Xfrm.flush_policies, 0x1D), (X.Xfrm.flush_sas, 0x1C)):
            FakeSock.sent.clear()
            fn()
            d4 = FakeSock.sent[-1]
            res.evaluations += 1
            ops.append('flush %d %d %d' % (ty, SEQ, PID))
            expect.append(d4.hex())
            if struct.unpack_from('<IHH', d4) != (17, ty, 5) or d4[16:] != b'\0':
                res.fail('flush-not-what-was-meant', 'flush request malformed', {'hex': d4.hex()})
        # 2. replies: acks succeed, errors raise
        for code in (0, 0, -2, -17, -22, -3, 5):
            for shape in ('error-only', 'done-first', 'two-acks'):
                FakeSock.replies[:] = [{'error-only': ack(code), 'done-first': struct.pack('<IHHII', 16, 3, 0, SEQ, PID) + ack(code),
                                        'two-acks': ack(0) + ack(code)}[shape]]
                reply = FakeSock.replies[0]
                res.evaluations += 1
                try:
                    X.Xfrm.flush_sas()
                    got = 0
                except X.NetlinkError:
                    got = 1
                want = 0 if (code == 0 or shape == 'done-first') else 1
                res.count('reply:%s' % ('error' if got else 'ok'))
                if got != want:
                    res.fail('reply-handling', 'reply %s with code %d -> %s' % (shape, code, 'NetlinkError' if got else 'success'),
                             {'reply': reply.hex()})
                ops.append('reply ' + reply.hex())
                expect.append(str(got))
    finally:
        X.Xfrm._get_socket, _t, _g = old
        NL.time = __import__('time')
        NL.os = os
    # 3. events encoded with the kernel layouts, parsed by the real code
    acq = {n: (o, s, be) for n, o, s, be in ustructs['xfrm_user_acquire'] if n != '#size'}
    exp = {n: (o, s, be) for n, o, s, be in ustructs['xfrm_user_expire'] if n != '#size'}
    tm = {n: (o, s, be) for n, o, s, be in ustructs['xfrm_user_tmpl'] if n != '#size'}

    def put(buf, lay, name, val):
        o, s, be = lay[name]
        buf[o:o + s] = val if isinstance(val, bytes) else val.to_bytes(s, 'big' if be else 'little')

    for i in range(ctx.scale(300, 10000)):
        v = rng.choice([4, 6])
        fam = 2 if v == 4 else 10
        n = 4 if v == 4 else 16
        peer, me = rng.rbytes(n), rng.rbytes(n)
        ssel, dsel = rng.rbytes(n), rng.rbytes(n)
        sport, dport, proto = rng.randrange(65536), rng.randrange(65536), rng.choice([0, 6, 17])
        index = rng.randrange(2 ** 32)
        buf = bytearray(280)
        put(buf, acq, 'id.daddr', peer.ljust(16, b'\0')); put(buf, acq, 'saddr', me.ljust(16, b'\0'))
        put(buf, acq, 'sel.daddr', dsel.ljust(16, b'\0')); put(buf, acq, 'sel.saddr', ssel.ljust(16, b'\0'))
        put(buf, acq, 'sel.sport', sport); put(buf, acq, 'sel.dport', dport); put(buf, acq, 'sel.family', fam)
        put(buf, acq, 'sel.proto', proto); put(buf, acq, 'policy.index', index); put(buf, acq, 'policy.dir', 1)
        put(buf, acq, 'sel.prefixlen_s', n * 8); put(buf, acq, 'sel.prefixlen_d', n * 8)
        tb = bytearray(64)
        put(tb, tm, 'family', fam); put(tb, tm, 'id.daddr', peer.ljust(16, b'\0')); put(tb, tm, 'saddr', me.ljust(16, b'\0'))
        put(tb, tm, 'id.proto', 50); put(tb, tm, 'mode', rng.choice([0, 1])); put(tb, tm, 'reqid', rng.randrange(2 ** 32))
        # the attributes of a kernel event, each padded to 4 octets (NLA_ALIGN), in any order: the template among marks, interface
        # ids, policy types and security contexts of assorted lengths
        def nla(code, payload):
            raw = struct.pack('<HH', 4 + len(payload), code) + payload
            return raw + bytes(-len(raw) % 4)
        others = [nla(16, bytes(2)),                                            # XFRMA_POLICY_TYPE: length 6
                  nla(21, rng.rbytes(8)),                                       # XFRMA_MARK: length 12
                  nla(31, rng.rbytes(4)),                                       # XFRMA_IF_ID: length 8
                  nla(8, struct.pack('<HBBH', 8 + 5, 1, 1, 5) + rng.rbytes(5))]  # XFRMA_SEC_CTX with a 5-octet context: length 17
        chosen_attrs = rng.sample(others, rng.randrange(0, len(others) + 1))
        pos = rng.choice([0, 0, len(chosen_attrs), rng.randrange(0, len(chosen_attrs) + 1)])
        chosen_attrs.insert(pos, nla(5, bytes(tb)))
        res.count('event:acquire-attrs-before-tmpl:%d' % pos)
        attrs = b''.join(chosen_attrs)
        total = 16 + 280 + len(attrs)
        msg = struct.pack('<IHHII', total, 0x17, 0, 0, 0) + bytes(buf) + attrs
        hdr, payload, at = X.Xfrm.parse_message(msg)
        res.evaluations += 1
        res.nontrivial.add(msg)
        res.count('event:acquire/v%d' % v)
        try:
            ok = (hdr.type == 0x17 and at[5].family == fam and payload.id.daddr.to_ipaddr(fam) == ip_address(peer)
                  and payload.saddr.to_ipaddr(fam) == ip_address(me) and payload.sel.family == fam
                  and payload.sel.saddr.to_ipaddr(fam) == ip_address(ssel) and payload.sel.daddr.to_ipaddr(fam) == ip_address(dsel)
                  and payload.sel.sport == sport and payload.sel.dport == dport and payload.sel.proto == proto
                  and payload.policy.index == index)
        except Exception:
            ok = False
        if not ok:
            res.fail('acquire-decoded-wrong', 'XFRM_MSG_ACQUIRE encoded with the kernel layout is decoded to other values', {'hex': msg.hex()})
        ops.append('event ' + msg.hex())
        expect.append('23 id.daddr.addr=%s id.spi=00000000 id.proto=0 saddr.addr=%s sel.daddr.addr=%s sel.saddr.addr=%s sel.dport=%d '
                      'sel.sport=%d sel.family=%d sel.prefixlen_d=%d sel.prefixlen_s=%d sel.proto=%d policy.index=%d policy.dir=1 seq=0'
                      % (peer.ljust(16, b'\0').hex(), me.ljust(16, b'\0').hex(), dsel.ljust(16, b'\0').hex(), ssel.ljust(16, b'\0').hex(),
                         dport, sport, fam, n * 8, n * 8, proto, index)
                      + ' | id.daddr.addr=%s id.proto=50 family=%d saddr.addr=%s reqid=%d mode=%d'
                      % (peer.ljust(16, b'\0').hex(), fam, me.ljust(16, b'\0').hex(), int.from_bytes(tb[tm['reqid'][0]:tm['reqid'][0] + 4], 'little'),
                         tb[tm['mode'][0]]))
        # EXPIRE
        spi, hard = rng.rbytes(4), rng.choice([0, 1])
        eb = bytearray(232)
        put(eb, exp, 'state.id.spi', spi); put(eb, exp, 'state.id.daddr', peer.ljust(16, b'\0')); put(eb, exp, 'state.id.proto', 50)
        put(eb, exp, 'state.family', fam); put(eb, exp, 'hard', hard)
        emsg = struct.pack('<IHHII', 16 + 232, 0x18, 0, 0, 0) + bytes(eb)
        hdr, payload, at = X.Xfrm.parse_message(emsg)
        res.evaluations += 1
        res.count('event:expire')
        if not (hdr.type == 0x18 and bytes(payload.state.id.spi) == spi and payload.hard == hard):
            res.fail('expire-decoded-wrong', 'XFRM_MSG_EXPIRE encoded with the kernel layout is decoded to other values', {'hex': emsg.hex()})
        ops.append('event ' + emsg.hex())
        expect.append('24 state.id.daddr.addr=%s state.id.spi=%s state.id.proto=50 state.family=%d hard=%d | notmpl'
                      % (peer.ljust(16, b'\0').hex(), spi.hex(), fam, hard))
    if ctx.driver is not None:
        outs = ctx.driver.run(ops)
        for op, want, out in zip(ops, expect, outs):
            if out != want:
                res.mismatch(op[:200], want[:400], out[:400])
        res.extra['model_evaluations'] = len(ops)
    return res


def replay(rep):
    return True, 'see replay file: hex of the netlink request / event'
