"""C10 — the kernel SAD always equals the CHILD_SAs the daemon tracks.

Proof: Props/C10.lean (shell model: removal of an IKE_SA emits DELSA for exactly its pairs; the table-level SAD invariant
for every history and every kernel refusal pattern, given the handler contract).  Oracle on the real code: after EVERY
processed event of every history, model-kernel SAD (NEWSA minus DELSA, keyed as the kernel keys them) == inbound and
outbound SAs of the CHILD_SAs of the IKE_SAs in the table; plus a kernel refusal injected at individual netlink requests."""
import campaign as CP
import stateful as S
from runner import Result

LEAN_FILES = S.LEAN_MACHINE
ASSUMPTIONS = ['locally drawn SPIs are fresh (no 2^-32 collisions)', 'model kernel: NEWSA of an existing (daddr, proto, SPI) and '
               'DELSA of an absent one are refused, as Linux does']
ORACLES = [CP.o_sad_equals_tracked, CP.o_no_escape]


def run(ctx):
    res = Result()
    res.rule = ('seeded histories of the two-endpoint world (acquire, soft/hard expire, ticks incl. DPD and lifetime expiry, '
                'deliver/duplicate/drop/reorder, lossless drain) over 4 configuration variants, every 3rd history with kernel '
                'refusals at two netlink requests; distinct = distinct schedule; the oracle runs after every operation')
    S.campaign(ctx, res, ORACLES, ctx.scale(120, 1500), ctx.scale(40, 80), fault_hist=3)
    # an authentic peer that says unusual things (error replies to an IKE_SA rekey, DELETE for foreign SPIs, ...)
    import rogue
    rogue.campaign(ctx, res, ctx.scale(12, 200), 50, oracles=ORACLES)
    return res


def replay(rep):
    return S.replay_generic(rep, ORACLES)
