"""C10 — the kernel SAD always equals the CHILD_SAs the daemon tracks.

Proof: Props/C10.lean (shell model: removal of an IKE_SA emits DELSA for exactly its pairs; the table-level SAD invariant
for every history and every kernel refusal pattern, given the handler contract).  Oracle on the real code: after EVERY
processed event of every history, model-kernel SAD (NEWSA minus DELSA, keyed as the kernel keys them) == inbound and
outbound SAs of the CHILD_SAs of the IKE_SAs in the table; plus a kernel refusal injected at individual netlink requests."""
import campaign as CP
import stateful as S
from runner import Result

LEAN_FILES = S.LEAN_MACHINE
ASSUMPTIONS = ['locally drawn SPIs are fresh (no 2^-32 collisions)', 'model kernel: NEWSA of an existing (daddr, proto, SPI) and '
               'DELSA of an absent one are refused, as Linux does']
ORACLES = [CP.o_sad_equals_tracked, CP.o_no_escape]


def during_ike_rekey(ctx, res):
    """what happens to CHILD_SAs while an IKE_SA rekey request is outstanding: the request is lost, the peer deletes (hard expiry) or
    rekeys (soft expiry) a CHILD_SA in the meantime, the retransmitted rekey request then succeeds — whatever was handed over must be
    what is in the kernel"""
    for rekeyer in 'AB':
        for peer_does in ('hard', 'soft', 'hard-both', 'nothing'):
            for n_kids in (1, 2):
                conf = {'dpd': 5000, 'ike_lifetime': 100 if rekeyer == 'A' else 5000, 'ike_lifetime_b': 100 if rekeyer == 'B' else 5000}
                seed = ctx.rng.randrange(1 << 30)
                with CP.History(seed, trace=ctx.driver is not None, deep=True, **conf) as h:
                    h.oracles = list(ORACLES)
                    w = h.w
                    if not h.establish('A'):
                        continue
                    for k in range(n_kids - 1):
                        h.op('acquire', 'A', 4100 + k)
                        h.settle()
                    h.op('tick', 106)                       # the lifetime of the rekeying end has elapsed: its request is in flight
                    for dg in list(w.net):
                        h.op('drop', dg.id)                 # ... and lost
                    other = w.B if rekeyer == 'A' else w.A
                    kids = [c for x in other.sas() for c in x.child_sas]
                    if peer_does != 'nothing' and kids:
                        h.op('expire', other.name, kids[0].inbound_spi, peer_does != 'soft')
                        if peer_does == 'hard-both' and len(kids) > 1:
                            pass
                        n = 0
                        while w.net and n < 12:             # the exchange about the CHILD_SA completes while the rekey request waits
                            h.op('deliver', w.net[0].id)
                            n += 1
                        if peer_does == 'hard-both' and len(kids) > 1:
                            h.op('expire', other.name, kids[1].inbound_spi, True)
                            n = 0
                            while w.net and n < 12:
                                h.op('deliver', w.net[0].id)
                                n += 1
                    h.op('tick', 3)                          # retransmission of the rekey request
                    h.settle()
                    res.evaluations += len(h.ops)
                    res.nontrivial.add(('during-ike-rekey', rekeyer, peer_does, n_kids))
                    res.count('directed:during-ike-rekey:%s' % peer_does)
                    for key, what, at in h.findings[:2]:
                        res.fail(key, what, {'seed': seed, 'conf': conf, 'faults': None, 'ops': S.ser_ops(h.ops[:at + 1]), 'oracle': key})
                    if h.tr is not None:
                        h.tr.close()
                        S.deep_check(ctx, res, h.tr, honest=True)


def run(ctx):
    res = Result()
    res.rule = ('seeded histories of the two-endpoint world (acquire, soft/hard expire, ticks incl. DPD and lifetime expiry, '
                'deliver/duplicate/drop/reorder, lossless drain) over 4 configuration variants, every 3rd history with kernel '
                'refusals at two netlink requests; distinct = distinct schedule; the oracle runs after every operation')
    S.campaign(ctx, res, ORACLES, ctx.scale(120, 1500), ctx.scale(40, 80), fault_hist=3)
    # an authentic peer that says unusual things (error replies to an IKE_SA rekey, DELETE for foreign SPIs, ...)
    import rogue
    rogue.campaign(ctx, res, ctx.scale(12, 200), 50, oracles=ORACLES)
    during_ike_rekey(ctx, res)
    # the two ends happen to choose the same 4-byte value for different CHILD_SAs, then delete / rekey either of them
    import c09
    c09.coincide_campaign(ctx, res, oracles=ORACLES, deep=True)
    return res


def replay(rep):
    return S.replay_generic(rep, ORACLES)
