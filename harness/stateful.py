"""Shared driver of the stateful checks: runs seeded histories of the two-endpoint world with a given set of oracles,
replays every loop iteration on the Lean shell model (correspondence), shrinks a failing schedule, fills the Result."""
import campaign as CP
import common
import machine as MC
from runner import Result

LEAN_MACHINE = ['PyIkev2/Model/Machine.lean', 'PyIkev2/Proofs/Machine.lean', 'PyIkev2/Model/MachineCmd.lean']

CONF_VARIANTS = [
    {},                                                         # ECP256 / AES256 / SHA256, ESP transport, TCP
    {'dh': ['19'], 'child_dh': ['19'], 'mode': 'tunnel', 'ip_proto': 'any'},
    {'ipsec_proto': 'ah', 'integ': ['sha512'], 'prf': ['sha512'], 'child_integ': ['sha1']},
    {'encr': ['aes128'], 'integ': ['sha1'], 'prf': ['sha1'], 'child_lifetime': 20, 'ike_lifetime': 120, 'dpd': 15},
    # mismatching preference orders: INVALID_KE_PAYLOAD retries on IKE_SA_INIT, CREATE_CHILD_SA and IKE_SA rekey
    {'dh': ['19', '20'], 'dh_b': ['20', '19'], 'child_dh': ['20', '19'], 'child_dh_b': ['19', '20'], 'ike_lifetime': 100},
    # one-sided IKE_SA rekey (no collision) with an INVALID_KE_PAYLOAD retry
    {'dh': ['19', '20'], 'dh_b': ['20', '19'], 'ike_lifetime': 100, 'ike_lifetime_b': 5000, 'dpd': 1000},
    # the largest keys the kernel structures take (64-octet integrity key), opposite CHILD_SA preference orders
    {'child_integ': ['sha512', 'sha256'], 'child_integ_b': ['sha256', 'sha512'], 'child_encr': ['aes128', 'aes256'], 'child_encr_b': ['aes256', 'aes128'],
     'integ': ['sha512'], 'prf': ['sha512']},
    {'child_integ': ['sha512'], 'mode': 'tunnel', 'ip_proto': 'any'},
]


def ser_ops(ops):
    return [[x if not isinstance(x, bytes) else x.hex() for x in op] for op in ops]


def run_schedule(seed, ops, oracles, conf, faults=None):
    """re-executes a recorded schedule (for shrinking and for --replay)"""
    with CP.History(seed, trace=False, **conf) as h:
        h.oracles = list(oracles)
        if faults:
            apply_faults(h, faults)
        for op in ops:
            try:
                h.op(op[0], *[conv(a) for a in op[1:]])
            except Exception:
                break
            if h.findings:
                break
        return list(h.findings)


def conv(a):
    if isinstance(a, (int, float, bytes)):
        return a
    s = str(a)
    if s in ('True', 'False'):
        return s == 'True'
    if s.startswith("b'") or s.startswith('b"'):
        import ast
        return ast.literal_eval(s)
    try:
        return int(s)
    except ValueError:
        try:
            return float(s)
        except ValueError:
            return s


def apply_faults(h, faults):
    for name, idxs in faults.get('nl', {}).items():
        (h.w.A if name == 'A' else h.w.B).kernel.fail_at |= set(idxs)
    for name, idxs in faults.get('newsa', {}).items():
        (h.w.A if name == 'A' else h.w.B).kernel.fail_newsa |= set(idxs)
    h.w.send_fail_at |= set(faults.get('send', []))


def shrink(seed, ops, oracles, conf, key, faults=None, budget=60):
    """greedy removal of operations while the same finding key is still produced"""
    ops = list(ops)
    tries = 0
    i = len(ops) - 1
    while i >= 0 and tries < budget:
        cand = ops[:i] + ops[i + 1:]
        tries += 1
        f = run_schedule(seed, cand, oracles, conf, faults)
        if any(k == key for k, _, _ in f):
            ops = cand
        i -= 1
    return ops


def campaign(ctx, res, oracles, n_hist, n_ops, variants=None, loss=0.1, dup=0.15, fault_hist=0, prepare=None,
             check_shell=True, per_history=None, deep=True):
    """runs histories; returns the list of History objects' summaries"""
    rng = ctx.rng
    variants = variants or CONF_VARIANTS
    lines_total = 0
    for k in range(n_hist):
        conf = variants[k % len(variants)]
        seed = rng.randrange(1 << 30)
        faults = None
        if fault_hist and k % fault_hist == fault_hist - 1:
            faults = {'newsa': {rng.choice('AB'): [rng.randrange(0, 12)]}}
        h = CP.History(seed, trace=check_shell and ctx.driver is not None, deep=deep, **conf)
        try:
            h.oracles = list(oracles)
            if faults:
                apply_faults(h, faults)
            if prepare:
                prepare(h)
            else:
                h.establish(rng.choice('AB'))
            for _ in range(n_ops):
                h.random_op(loss=loss, dup=dup)
            h.settle()
            if per_history:
                per_history(h)
            res.evaluations += len(h.ops)
            res.nontrivial.add(tuple(h.ops))
            for kind, n in h.kinds.items():
                res.count('op:' + kind, n)
            for v in h.visited:
                res.count('state:%s/%s/%s' % (v[0], CP.ST.get(v[1], v[1]), 'I' if v[2] else 'R'))
            if k < 2:
                res.sample({'seed': seed, 'conf': conf, 'ops': ser_ops(h.ops)[:25]})
            for key, what, at in h.findings[:3]:
                ops = h.ops[:at + 1]
                small = shrink(seed, ops, oracles, conf, key, faults) if len(res.failures) < 3 else ops
                if not any(k2 == key for k2, _, _ in run_schedule(seed, small, oracles, conf, faults)):
                    small = ops
                res.fail(key, what, {'seed': seed, 'conf': conf, 'faults': faults, 'ops': ser_ops(small), 'oracle': key})
            if h.tr is not None and not faults:
                h.tr.close()
                bad = h.tr.check(ctx.driver)
                lines_total += len(h.tr.lines)
                for line, want, out, c in bad[:3]:
                    res.mismatch('miter (%s %s)' % (c['ep'], c['event']), MC.first_diff(want, out)[:300], out[:120])
            if h.tr is not None and deep:
                # the concrete handler model, call by call, and the whole model (shell + handlers), iteration by iteration
                h.tr.close()
                deep_check(ctx, res, h.tr, honest=prepare is None)
        finally:
            h.close()
    res.extra['shell_iterations_replayed_on_model'] = res.extra.get('shell_iterations_replayed_on_model', 0) + lines_total
    return res


def deep_check(ctx, res, tr, honest=False):
    # the assumption under the two-end theorems (Proofs/TwoEnds.lean): the message one end's handler is given is the message the
    # other end's handler returned.  Counted everywhere; in histories where both ends are the implementation and nothing is
    # rewritten in flight (`honest`), a protected request that no handler of the other end returned is a disagreement.
    for k, v in tr.comp.items():
        key = ('two_end_honest_' if honest else 'two_end_with_crafted_peer_') + k
        res.extra[key] = res.extra.get(key, 0) + v
    if honest:
        for me, name, text in tr.comp_missing[:2]:
            res.mismatch('compose (%s %s)' % (me, name), 'request given to the handler was not returned by any handler of the other end', text[:200])
    hb = tr.check_handlers(ctx.driver)
    xb = tr.check_whole(ctx.driver)
    res.extra['handler_calls_replayed_on_model'] = res.extra.get('handler_calls_replayed_on_model', 0) + len(tr.hlines)
    res.extra['whole_model_iterations_replayed'] = res.extra.get('whole_model_iterations_replayed', 0) + len(tr.xlines)
    for line, _, c in tr.hlines:
        res.count('handler:%s%s' % (c['name'], ('!' + c['raised']) if c['raised'] else ''))
        if c.get('expected_state') is not None and c['raised'] is None and c['state_after'] != c['expected_state']:
            # a request generator must take the step of the state machine that belongs to the request it builds
            res.fail('generator-wrong-step:%s' % c['name'],
                     '%s took IKE_SA state %s to %s; the request it built belongs to state %s'
                     % (c['name'], CP.ST.get(c['state_before'], c['state_before']), CP.ST.get(c['state_after'], c['state_after']),
                        CP.ST.get(c['expected_state'], c['expected_state'])), {'hcall': line[:4000]})
    for line, want, out, c in hb[:3]:
        res.mismatch('hcall (%s %s%s)' % (c['ep'], c['name'], ('!' + c['raised']) if c['raised'] else ''), MC.first_diff(want, out)[:300], out[:120])
    for line, want, out, c in xb[:3]:
        res.mismatch('xiter (%s %s)' % (c['ep'], c['kind']), (MC.first_diff(want, out) if want != 'loop interrupted' else want)[:300], out[:120])
    rb, nseg, nrounds = tr.check_runs(ctx.driver)
    res.extra['whole_model_runs_replayed'] = res.extra.get('whole_model_runs_replayed', 0) + nseg
    res.extra['whole_model_rounds_in_runs'] = res.extra.get('whole_model_rounds_in_runs', 0) + nrounds
    for g, k, want, out in rb[:3]:
        res.mismatch('xrun (%s, round %d of %d)' % (g['ep'], k + 1, len(g['rounds'])), MC.first_diff(want, out)[:300], out[:120])


def replay_generic(rep, oracles):
    r = rep['replay']
    f = run_schedule(r['seed'], [tuple(op) for op in r['ops']], oracles, r.get('conf') or {}, r.get('faults'))
    if f:
        return False, 'reproduced: %s: %s' % (f[0][0], f[0][1])
    return True, 'schedule no longer produces a finding'
