"""C18 — under load, no responder state or DH work without a valid cookie.

Proof: Props/C18.lean (cookie decision as read from the code, injectivity of the cookie input, threshold rule and removal
of the refused IKE_SA in the controller model; the order "cookie check before any DH" is a fact extracted from the source).
Oracle on the real code: half-open counts around the threshold; absent / correct / corrupted / replayed (other SPI, nonce,
source address) / several cookies; the reply must be exactly one COOKIE notification, no DiffieHellman object may be
created, no IKE_SA may stay; the initiator repeats the identical request with the cookie first (also for a second,
different cookie) and then completes."""
import hashlib
import hmac

import campaign as CP
import crypto as C
import message as M
import stateful as S
import world as W
from ipaddress import ip_address
from runner import Result

LEAN_FILES = S.LEAN_MACHINE + ['PyIkev2/Model/Cookie.lean']
ASSUMPTIONS = ['HMAC-SHA256 separates distinct inputs (the binding theorem is about the HMAC input; collisions of the HMAC itself are outside)']
IP_C = ip_address('192.168.0.3')


def conf_pair():
    ca, cb = W.default_conf()
    # B also has a connection with a third address, so that a replay from there finds a configuration
    import copy
    other = copy.deepcopy(cb['bob'])
    other['peer_addr'] = str(IP_C)
    other['protect'][0]['index'] = 3
    cb['bob-c'] = other
    return ca, cb


class DhCounter:
    def __enter__(self):
        self.n = 0
        self.orig = C.DiffieHellman.from_group
        me = self

        def counted(group):
            me.n += 1
            return me.orig(group)
        C.DiffieHellman.from_group = staticmethod(counted)
        import ikesa
        self.orig_ref = ikesa.DiffieHellman
        return self

    def __exit__(self, *a):
        C.DiffieHellman.from_group = classmethod(lambda cls, group: None)
        # restore the original classmethod object
        C.DiffieHellman.from_group = self.orig_bound
        return False


def dh_calls(fn):
    """runs fn() counting DiffieHellman.from_group calls"""
    n = [0]
    orig = C.DiffieHellman.__dict__['from_group']

    def counted(cls, group):
        n[0] += 1
        return orig.__func__(cls, group)
    C.DiffieHellman.from_group = classmethod(counted)
    try:
        fn()
    finally:
        C.DiffieHellman.from_group = orig
    return n[0]


def notify_types(data):
    m = M.Message.parse(data)
    return [(int(p.type), int(getattr(p, 'notification_type', 0))) for p in m.payloads], m


def run(ctx):
    res = Result()
    rng = ctx.rng
    res.rule = ('half-open counts threshold-2..threshold+2 x cookie variants (absent, correct, corrupted, other SPI, other nonce, other '
                'source address, correct first of two, wrong first of two) on the responder; COOKIE / second COOKIE / COOKIE then '
                'INVALID_KE rounds on the initiator; distinct = distinct (count, variant)')
    COOKIE = int(M.PayloadNOTIFY.Type.COOKIE)
    DEEP = []          # histories whose handler calls and loop iterations are replayed on the Lean model at the end
    for threshold in (0, 2):
        for pre in range(max(0, threshold - 1), threshold + 3):
            seed = rng.randrange(1 << 30)
            ca, cb = conf_pair()
            with CP.History(seed, trace=ctx.driver is not None, deep=True, conf_a=ca, conf_b=cb) as h:
                DEEP.append(h)
                w = h.w
                w.B.controller.cookie_threshold = threshold
                # `pre` half-open responder IKE_SAs on B: genuine IKE_SA_INIT requests with fresh SPIs, never continued
                h.op('acquire', 'A', 8765)
                base = w.net[0]
                w.net.clear()
                for i in range(pre):
                    d = bytearray(base.data)
                    d[0:8] = rng.rbytes(8)
                    w.inject(w.B, bytes(d), src=W.IP_A)
                w.net.clear()
                half_open = sum(1 for s in w.B.sas() if int(s.state) < 10)
                # now the request under test: absent cookie
                sent0 = len(w.sent)
                table0 = len(w.B.sas())
                n_dh = dh_calls(lambda: w.inject(w.B, base.data, src=W.IP_A))
                replies = [d for d in w.sent[sent0:] if d.sender == 'B']
                expect_cookie = (half_open + 1) > threshold
                res.evaluations += 1
                res.nontrivial.add(('absent', threshold, pre))
                res.count('responder:%s' % ('cookie-required' if expect_cookie else 'below-threshold'))
                rep = {'seed': seed, 'threshold': threshold, 'half_open_before': half_open, 'variant': 'absent'}
                if not replies:
                    res.fail('no-reply', 'IKE_SA_INIT request got no reply (half-open %d, threshold %d)' % (half_open, threshold), rep)
                    continue
                kinds, msg = notify_types(replies[-1].data)
                if expect_cookie:
                    if kinds != [(41, COOKIE)]:
                        res.fail('cookie-reply-not-exclusive', 'above the threshold a request without cookie was answered with %s' % kinds, rep)
                    if n_dh:
                        res.fail('dh-without-cookie', '%d Diffie-Hellman computation(s) for a request without valid cookie' % n_dh, rep)
                    if len(w.B.sas()) != table0:
                        res.fail('state-without-cookie', 'a request without valid cookie left an IKE_SA behind (%d -> %d)' % (table0, len(w.B.sas())), rep)
                    cookie = msg.payloads[0].notification_data
                    req = M.Message.parse(base.data)
                    want = hmac.new(w.B.controller.cookie_secret, req.spi_i + req.get_payload(M.Payload.Type.NONCE).nonce + W.IP_A.packed,
                                    hashlib.sha256).digest()
                    if cookie != want:
                        res.fail('cookie-definition', 'cookie is not HMAC-SHA256(secret, SPIi | Ni | source address)', rep)
                    # variants with a cookie

                    def with_cookies(cookies, spi=None, nonce=None):
                        m = M.Message.parse(base.data)
                        for c in reversed(cookies):
                            m.payloads.insert(0, M.PayloadNOTIFY(M.Proposal.Protocol.NONE, M.PayloadNOTIFY.Type.COOKIE, b'', c))
                        if spi:
                            m.spi_i = spi
                        if nonce:
                            m.get_payload(M.Payload.Type.NONCE).nonce = nonce
                        return bytes(m.to_bytes())
                    bad = bytes([cookie[0] ^ 1]) + cookie[1:]
                    variants = [('correct', with_cookies([cookie]), W.IP_A, True), ('corrupted', with_cookies([bad]), W.IP_A, False),
                                ('truncated', with_cookies([cookie[:-1]]), W.IP_A, False),
                                ('other-spi', with_cookies([cookie], spi=rng.rbytes(8)), W.IP_A, False),
                                ('other-nonce', with_cookies([cookie], nonce=rng.rbytes(32)), W.IP_A, False),
                                ('other-address', with_cookies([cookie]), IP_C, False),
                                ('two-correct-first', with_cookies([cookie, bad]), W.IP_A, True),
                                ('two-wrong-first', with_cookies([bad, cookie]), W.IP_A, False)]
                    for name, data, src, accept in variants:
                        sent1, table1 = len(w.sent), len(w.B.sas())
                        n_dh = dh_calls(lambda: w.inject(w.B, data, src=src))
                        rs = [d for d in w.sent[sent1:] if d.sender == 'B']
                        res.evaluations += 1
                        res.nontrivial.add((name, threshold, pre))
                        res.count('variant:' + name)
                        rep = {'seed': seed, 'threshold': threshold, 'half_open_before': half_open, 'variant': name, 'data': data.hex()}
                        kinds = notify_types(rs[-1].data)[0] if rs else None
                        if accept:
                            if not rs or kinds == [(41, COOKIE)] or len(w.B.sas()) != table1 + 1:
                                res.fail('valid-cookie-refused:' + name, 'request with the correct cookie first was not accepted (%s)' % kinds, rep)
                            else:
                                w.B.controller.ike_sas.pop()     # keep the count stable for the next variant
                        else:
                            if kinds != [(41, COOKIE)]:
                                res.fail('invalid-cookie-accepted:' + name, 'request with %s cookie was answered with %s' % (name, kinds), rep)
                            if n_dh:
                                res.fail('dh-without-cookie:' + name, 'Diffie-Hellman computed for a request with %s cookie' % name, rep)
                            if len(w.B.sas()) != table1:
                                res.fail('state-without-cookie:' + name, 'request with %s cookie left an IKE_SA behind' % name, rep)
                else:
                    if kinds == [(41, COOKIE)]:
                        res.fail('cookie-below-threshold', 'COOKIE demanded with %d half-open IKE_SAs at threshold %d' % (half_open + 1, threshold), rep)
    # initiator side: COOKIE round, second (different) cookie, COOKIE then INVALID_KE_PAYLOAD
    for scenario in ('cookie', 'cookie-twice', 'cookie-then-invalid-ke'):
        seed = rng.randrange(1 << 30)
        conf = {'dh': ['19', '20'], 'dh_b': ['20', '19']} if scenario == 'cookie-then-invalid-ke' else {}
        with CP.History(seed, trace=ctx.driver is not None, **conf) as h:
            h.oracles = [CP.o_no_escape]
            w = h.w
            w.B.controller.cookie_threshold = 0
            res.evaluations += 1
            res.nontrivial.add(('initiator', scenario))
            res.count('initiator:' + scenario)
            h.op('acquire', 'A', 8765)
            first = w.net[0].data
            h.op('deliver', w.net[0].id)          # -> B: COOKIE
            ck1 = notify_types(w.net[0].data)[1].payloads[0].notification_data
            h.op('deliver', w.net[0].id)          # -> A: retries
            retry = w.net[0].data
            rep = {'seed': seed, 'scenario': scenario, 'ops': S.ser_ops(h.ops)}
            m0, m1 = M.Message.parse(first), M.Message.parse(retry)
            same = [wire_line(p) for p in m1.payloads[1:]] == [wire_line(p) for p in m0.payloads]
            if not (m1.message_id == 0 and int(m1.payloads[0].type) == 41 and m1.payloads[0].notification_data == ck1 and same
                    and m1.spi_i == m0.spi_i):
                res.fail('initiator-retry-differs', 'after COOKIE the initiator did not repeat the identical request with the cookie first', rep)
            if scenario == 'cookie-twice':
                w.B.controller.cookie_secret = rng.rbytes(8)     # the responder rotates its secret between the rounds
                h.op('deliver', w.net[0].id)      # -> B: new COOKIE
                ck2 = notify_types(w.net[0].data)[1].payloads[0].notification_data
                h.op('deliver', w.net[0].id)      # -> A
                m2 = M.Message.parse(w.net[0].data)
                if not (int(m2.payloads[0].type) == 41 and m2.payloads[0].notification_data == ck2 and m2.message_id == 0):
                    res.fail('initiator-stale-cookie', 'after a second, different COOKIE the initiator did not put the new cookie first', rep)
            h.settle(60)
            if not (w.A.sas() and w.B.sas() and all(int(s.state) == 10 for s in w.A.sas() + w.B.sas()) and w.A.sas()[0].child_sas):
                res.fail('initiator-not-completed:' + scenario, 'the exchange did not complete after the COOKIE round(s): A %s B %s'
                         % ([s.state.name for s in w.A.sas()], [s.state.name for s in w.B.sas()]), rep)
            for key, what, at in h.findings[:2]:
                res.fail(key, what, rep)
            if h.tr is not None:
                import machine as MC
                h.tr.close()
                for line, want, out, c in h.tr.check(ctx.driver)[:2]:
                    res.mismatch('miter (%s %s)' % (c['ep'], c['event']), MC.first_diff(want, out)[:300], out[:120])
    # every IKE_SA that is not yet established counts as half open, whatever its role and stage: a mixed population at the boundary
    for own_state in (2, 3):
        threshold = 2
        seed = rng.randrange(1 << 30)
        ca, cb = conf_pair()
        with CP.History(seed, trace=ctx.driver is not None, deep=True, conf_a=ca, conf_b=cb) as h:
            DEEP.append(h)
            w = h.w
            w.B.controller.cookie_threshold = threshold
            # one own initiator IKE_SA of B, stopped in INIT_REQ_SENT (2) or AUTH_REQ_SENT (3)
            h.op('acquire', 'B', 8765)
            if own_state == 3:
                h.op('deliver', w.net[0].id)          # -> A: IKE_SA_INIT response
                h.op('deliver', w.net[0].id)          # -> B: sends IKE_AUTH, waits
            w.net.clear()
            own = [s for s in w.B.sas() if s.is_initiator]
            if not own or int(own[0].state) != own_state:
                res.count('mixed-population:not-reached')
                continue
            # one half-open responder IKE_SA, then the request under test: 1 + 1 + 1 > 2
            for a in list(w.A.controller.ike_sas):
                w.A.controller.ike_sas.remove(a)
            h.op('acquire', 'A', 8765)
            base = w.net[0]
            w.net.clear()
            d = bytearray(base.data)
            d[0:8] = rng.rbytes(8)
            w.inject(w.B, bytes(d), src=W.IP_A)
            w.net.clear()
            half_open = sum(1 for s in w.B.sas() if int(s.state) < 10)
            sent0, table0 = len(w.sent), len(w.B.sas())
            n_dh = dh_calls(lambda: w.inject(w.B, base.data, src=W.IP_A))
            replies = [x for x in w.sent[sent0:] if x.sender == 'B']
            res.evaluations += 1
            res.nontrivial.add(('mixed', own_state))
            res.count('responder:mixed-population-%d' % own_state)
            rep = {'seed': seed, 'threshold': threshold, 'half_open_before': half_open, 'variant': 'absent, one own initiator IKE_SA in state %d' % own_state}
            if half_open != 2 or not replies:
                res.count('mixed-population:not-reached')
                continue
            kinds, msg = notify_types(replies[-1].data)
            if kinds != [(41, COOKIE)] or n_dh or len(w.B.sas()) != table0:
                res.fail('half-open-not-counted', 'with %d IKE_SAs that are not established (one of them an own initiator IKE_SA in %s) and threshold %d a '
                         'request without cookie was served: reply %s, %d DH computation(s), table %d -> %d'
                         % (half_open, CP.ST[own_state], threshold, kinds, n_dh, table0, len(w.B.sas())), rep)
    res.sample({'cookie variants': ['absent', 'correct', 'corrupted', 'truncated', 'other-spi', 'other-nonce', 'other-address', 'two-correct-first',
                                    'two-wrong-first']})
    for h in DEEP:
        if h.tr is not None:
            h.tr.enabled = False
            S.deep_check(ctx, res, h.tr)
    return res


def wire_line(p):
    import wire
    return ' '.join(wire.r_payload(p))


def replay(rep):
    return True, 'see the replay file: threshold, half-open count, cookie variant and the request (hex)'
