#!/venv/bin/python
"""./check <id> [quick|thorough] [--replay file]

Decision procedure (DESIGN §2.6):
 1. extract facts from /repo's working tree            (tie 1)
 2. lake build driver + Props/<id>; audit axioms; scan for sorry/axiom/native_decide
 3. correspondence (model vs implementation) and direct oracle on the real code
 4. verdict: exit 0 / KNOWN-FINDING lines / VIOLATION line with replay; evidence/<id>.json
Exit 2 = infrastructure error or time-out (never 1).
"""
import importlib
import json
import os
import sys
import time
import traceback

HERE = os.path.dirname(os.path.abspath(__file__))
sys.path.insert(0, HERE)
import common  # noqa: E402
from common import (run_extract, lake_build, audit_axioms, theorem_names, source_scan, load_known_findings,
                    write_replay, write_evidence, ALLOWED_AXIOMS, TRUSTED_BASE, Rng)  # noqa: E402


class Ctx:
    def __init__(self, prop_id, tier, seed, facts, driver_ok):
        self.prop_id = prop_id
        self.tier = tier
        self.seed = seed
        self.rng = Rng(seed * 1000003 + sum(ord(c) for c in prop_id))
        self.facts = facts
        self.driver_ok = driver_ok
        self.driver = common.Driver() if driver_ok else None
        self.search = False        # set when a tie is broken: enlarge the campaign
        self.t0 = time.time()

    def scale(self, quick, thorough):
        n = thorough if self.tier == 'thorough' else quick
        return n * 3 if (self.search and self.tier != 'thorough') else n


class Result:
    def __init__(self):
        self.evaluations = 0
        self.nontrivial = set()
        self.rule = ''
        self.samples = []
        self.distribution = {}
        self.failures = []        # oracle failures on the real code: dict(key, what, replay)
        self.mismatches = []      # correspondence disagreements: dict(op, impl, model)
        self.extra = {}
        self.assumptions = []

    def count(self, kind, n=1):
        self.distribution[kind] = self.distribution.get(kind, 0) + n

    def sample(self, s, cap=6):
        if len(self.samples) < cap:
            self.samples.append(s)

    def fail(self, key, what, replay):
        if len(self.failures) < 50:
            self.failures.append({'key': key, 'what': what, 'replay': replay})

    def mismatch(self, op, impl, model):
        if len(self.mismatches) < 50:
            self.mismatches.append({'op': op, 'impl': impl, 'model': model})


def main(argv):
    if len(argv) < 2:
        print(__doc__)
        return 2
    prop_id = argv[1]
    tier = os.environ.get('VERIF_TIER') or 'quick'
    replay_file = None
    rest = argv[2:]
    i = 0
    while i < len(rest):
        if rest[i] in ('quick', 'thorough'):
            tier = rest[i]
        elif rest[i] == '--replay' and i + 1 < len(rest):
            replay_file = rest[i + 1]
            i += 1
        i += 1
    seed = common.seed_from_env()
    t0 = time.time()
    common.import_repo()
    try:
        mod = importlib.import_module(prop_id.lower())
    except ModuleNotFoundError as ex:
        print('no check module for %s: %s' % (prop_id, ex))
        return 2

    if replay_file:
        with open(replay_file) as fh:
            rep = json.load(fh)
        ok, msg = mod.replay(rep)
        print(msg)
        return 0 if ok else 1

    # 1. translator
    facts, tie_problems = run_extract()
    # 2. Lean
    drv_ok, drv_log = lake_build(['driver'])
    if drv_ok is None:
        print('time-out building driver')
        return 2
    build_ok, build_log = lake_build(['PyIkev2.Props.%s' % prop_id])
    if build_ok is None:
        print('time-out building proofs')
        return 2
    obligations = theorem_names(prop_id)
    axioms, discharged, proof_problems = {}, 0, []
    if build_ok:
        axioms, missing, out, rc = audit_axioms(prop_id, obligations)
        for t in obligations:
            ax = next((v for k, v in axioms.items() if k == t or k.endswith('.' + t)), None)
            if ax is None:
                proof_problems.append('theorem %s: no axiom report' % t)
            elif not set(ax) <= ALLOWED_AXIOMS:
                proof_problems.append('theorem %s depends on %s' % (t, sorted(set(ax) - ALLOWED_AXIOMS)))
            else:
                discharged += 1
    else:
        errs = [l for l in build_log.split('\n') if 'error' in l][:8]
        proof_problems.append('lake build PyIkev2.Props.%s failed: %s' % (prop_id, ' | '.join(errs)))
    recheck = None
    if build_ok and tier == 'thorough':
        # independent re-check of the compiled module (and everything it imports) by the toolchain's leanchecker
        import subprocess
        try:
            p = subprocess.run(['lake', 'env', 'leanchecker', 'PyIkev2.Props.%s' % prop_id], cwd=common.LEAN,
                               capture_output=True, text=True, timeout=1500)
            recheck = 'leanchecker PyIkev2.Props.%s: exit %d' % (prop_id, p.returncode)
            if p.returncode != 0:
                proof_problems.append('leanchecker rejects PyIkev2.Props.%s: %s' % (prop_id, (p.stdout + p.stderr)[-400:]))
        except subprocess.TimeoutExpired:
            print('time-out in leanchecker')
            return 2
    lean_files = getattr(mod, 'LEAN_FILES', []) + ['PyIkev2/Props/%s.lean' % prop_id]
    scan = source_scan(lean_files)
    if scan:
        proof_problems.append('forbidden construct: ' + '; '.join(scan[:5]))
    if not drv_ok:
        errs = [l for l in drv_log.split('\n') if 'error' in l][:8]
        tie_problems.append('driver does not build: ' + ' | '.join(errs))

    # 3. correspondence + oracle
    ctx = Ctx(prop_id, tier, seed, facts, bool(drv_ok))
    ctx.search = bool(tie_problems or proof_problems)
    try:
        res = mod.run(ctx)
    except common.Timeout:
        print('time-out in harness')
        return 2
    except Exception:
        traceback.print_exc()
        print('infrastructure error in harness')
        return 2
    if res.mismatches and not ctx.search and hasattr(mod, 'run'):
        # correspondence broke: enlarged campaign for a failing input
        ctx2 = Ctx(prop_id, tier, seed + 7919, facts, bool(drv_ok))
        ctx2.search = True
        try:
            res2 = mod.run(ctx2)
            res.failures += res2.failures
            res.evaluations += res2.evaluations
            res.nontrivial |= res2.nontrivial
        except Exception:
            traceback.print_exc()

    # 4. verdict
    known = [f for f in load_known_findings().get('findings', []) if f.get('property') == prop_id]
    known_keys = {f['key']: f for f in known}
    new_fail = [f for f in res.failures if f['key'] not in known_keys]
    hit_known = {}
    for f in res.failures:
        if f['key'] in known_keys:
            hit_known[f['key']] = known_keys[f['key']]
    status = 0
    for k, f in sorted(hit_known.items()):
        print('KNOWN-FINDING: property=%s %s' % (prop_id, f.get('what', k)))
    broken = tie_problems + proof_problems + ['correspondence: %s' % json.dumps(m)[:300] for m in res.mismatches[:5]]
    if new_fail:
        f = new_fail[0]
        path = write_replay(prop_id, seed, {'property': prop_id, 'kind': 'failing-input', 'key': f['key'],
                                            'what': f['what'], 'replay': f['replay'],
                                            'others': [x['key'] + ': ' + x['what'] for x in new_fail[1:10]],
                                            'broken_obligations': broken})
        print('%s: %s' % (f['key'], f['what']))
        print('VIOLATION property=%s replay=%s' % (prop_id, path))
        status = 1
    elif broken:
        path = write_replay(prop_id, seed, {'property': prop_id, 'kind': 'broken-obligation',
                                            'broken_obligations': broken,
                                            'note': 'the proof or the model/implementation correspondence no longer '
                                                    'checks; the enlarged oracle campaign found no failing input'})
        for b in broken[:6]:
            print('broken: ' + b[:400])
        print('VIOLATION property=%s replay=%s no-failing-input-found' % (prop_id, path))
        status = 1

    coverage = {
        'obligations': len(obligations),
        'discharged': discharged,
        'checker_cmd': 'cd lean && lake build PyIkev2.Props.%s && lake env lean Audit/%s.lean' % (prop_id, prop_id),
        'trusted_base': TRUSTED_BASE + getattr(mod, 'TRUSTED', []),
        'theorems': obligations,
        'axioms': axioms,
        'evaluations': res.evaluations,
        'distinct_nontrivial': len(res.nontrivial),
        'rule': res.rule,
        'samples': res.samples or ['(none)'],
        'distribution': res.distribution,
        'correspondence_mismatches': len(res.mismatches),
        'tie_problems': tie_problems,
        'proof_problems': proof_problems,
        'known_findings_hit': sorted(hit_known),
    }
    if recheck:
        coverage['independent_recheck'] = recheck
    coverage.update(res.extra)
    write_evidence(prop_id, tier, seed, coverage, time.time() - t0, len(new_fail),
                   getattr(mod, 'ASSUMPTIONS', []) + res.assumptions)
    print('%s %s seed=%d: obligations %d/%d, evaluations %d, distinct non-trivial %d, mismatches %d, wall %.1fs'
          % (prop_id, tier, seed, discharged, len(obligations), res.evaluations, len(res.nontrivial),
             len(res.mismatches), time.time() - t0))
    return status


if __name__ == '__main__':
    sys.exit(main(sys.argv))
