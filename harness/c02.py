"""C02 — no IKE_SA is established without a valid AUTH over the real exchange.

Proof: Props/C02.lean (the signed octets determine message, nonce and identity hash; the verification decision as read from
the source; order of checks before establishment / SA installation and admission of SA-installing handlers, extracted).
Oracle on the real code: (1) man in the middle on the first four messages — field mutations, payload insertion / removal /
replacement / reordering, proposal downgrade, nonce / KE / SPI substitution in the cleartext IKE_SA_INIT messages, byte
mutations, replay and reflection of the protected IKE_AUTH messages; (2) every credential / identity / method mismatch of
the two configurations, PSK and RSA; (3) a rogue peer that completes IKE_SA_INIT and then skips or forges IKE_AUTH.
Whenever an endpoint becomes ESTABLISHED or installs an IPsec SA, the peer's AUTH payload it accepted is recomputed
independently (hmac / cryptography only) over the IKE_SA_INIT octets that endpoint itself received or sent, the other
side's nonce and prf(SK_p, ID) and must verify under the configured credential of the configured identity."""
import copy
import hashlib
import hmac

import campaign as CP
import message as M
import stateful as S
import world as W
from runner import Result

LEAN_FILES = ['PyIkev2/Model/Auth.lean']
ASSUMPTIONS = ['unforgeability of HMAC / RSA signatures is assumed (the oracle recomputes, it cannot forge)']
HASH = {2: hashlib.sha1, 5: hashlib.sha256, 7: hashlib.sha512}


def independent_auth_ok(ep, sa, wire_peer_init, my_nonce_owner_msg, auth_msg_plain):
    """recompute what the peer's AUTH must be, from wire octets only; returns (ok, why)"""
    prf_id = int(sa.chosen_proposal.get_transform(M.Transform.Type.PRF).id)
    h = HASH[prf_id]
    pid = auth_msg_plain.get_payloads(M.Payload.Type.IDi if not sa.is_initiator else M.Payload.Type.IDr, True)
    pauth = auth_msg_plain.get_payloads(M.Payload.Type.AUTH, True)
    if not pid or not pauth:
        return False, 'no ID / AUTH payload in the accepted IKE_AUTH message'
    pid, pauth = pid[0], pauth[0]
    conf = sa.configuration.peer_auth
    if int(pid.id_type) != int(conf.id.id_type) or bytes(pid.id_data) != bytes(conf.id.id_data):
        return False, 'presented identity is not the configured peer identity'
    my_nonce = my_nonce_owner_msg.get_payload(M.Payload.Type.NONCE).nonce
    sk_p = sa.peer_crypto.sk_p
    idbody = bytes([int(pid.id_type), 0, 0, 0]) + bytes(pid.id_data)
    octets = bytes(wire_peer_init) + bytes(my_nonce) + hmac.new(sk_p, idbody, h).digest()
    if int(pauth.method) == 2:
        if not conf.psk:
            return False, 'PSK method but no PSK configured for the peer'
        pad = hmac.new(conf.psk, b'Key Pad for IKEv2', h).digest()
        return (hmac.new(pad, octets, h).digest() == bytes(pauth.auth_data)), 'PSK AUTH over the octets this endpoint exchanged does not verify'
    if int(pauth.method) == 1:
        if not conf.pubkey:
            return False, 'RSA method but no public key configured for the peer'
        from cryptography.hazmat.primitives.asymmetric import padding
        from cryptography.hazmat.primitives import hashes
        from cryptography.exceptions import InvalidSignature
        try:
            conf.pubkey.key.verify(bytes(pauth.auth_data), octets, padding.PKCS1v15(), hashes.SHA256())
            return True, ''
        except InvalidSignature:
            return False, 'RSA signature over the octets this endpoint exchanged does not verify'
    return False, 'unknown AUTH method %d' % int(pauth.method)


class Session:
    """a four-message exchange under the control of a man in the middle"""

    deep = None        # (ctx, res) while a check runs: every handler call and loop iteration is also replayed on the Lean model

    def __init__(self, seed, conf_a, conf_b, **kw):
        trace = Session.deep is not None and Session.deep[0].driver is not None
        self.h = CP.History(seed, trace=trace, deep=trace, conf_a=conf_a, conf_b=conf_b, **kw)
        self.w = self.h.w
        self.received = {'A': [], 'B': []}      # datagrams each endpoint received (bytes), in order
        self.sent_by = {'A': [], 'B': []}

    def close(self):
        if self.h.tr is not None and Session.deep is not None:
            self.h.tr.close()
            S.deep_check(Session.deep[0], Session.deep[1], self.h.tr)
        self.h.close()

    def send(self, data, to):
        ep = self.w.A if to == 'A' else self.w.B
        self.received[to].append(bytes(data))
        n0 = len(self.w.sent)
        self.w.inject(ep, bytes(data), src=(self.w.ip_b if to == 'A' else self.w.ip_a))
        out = [d for d in self.w.sent[n0:] if d.sender == to]
        self.w.net.clear()
        for d in out:
            self.sent_by[to].append(bytes(d.data))
        return out[-1].data if out else None

    def start(self):
        n0 = len(self.w.sent)
        self.h.op('acquire', 'A', 8765)
        self.w.net.clear()
        d = [x for x in self.w.sent[n0:] if x.sender == 'A'][-1].data
        self.sent_by['A'].append(bytes(d))
        return d


def judge(sess, res, rep, what, expect_possible):
    """after the exchange: anybody established or holding SAs must have accepted a valid AUTH over its own view"""
    w = sess.w
    # when BOTH ends are established, the IKE_SA_INIT messages they authenticated are the same octets at both ends: what the
    # initiator sent last is what the responder received, and vice versa
    both = all(any(10 <= int(s.state) < 21 for s in ep.sas()) for ep in (w.A, w.B))
    if both:
        a_req = [d for d in sess.sent_by['A'] if len(d) > 28 and d[18] == 34]
        b_req = [d for d in sess.received['B'] if len(d) > 28 and d[18] == 34]
        b_res = [d for d in sess.sent_by['B'] if len(d) > 28 and d[18] == 34]
        a_res = [d for d in sess.received['A'] if len(d) > 28 and d[18] == 34 and (d[19] & 0x20)]
        if a_req and b_req and a_req[-1] not in b_req:
            res.fail('established-on-different-ike-sa-init:request', 'both ends are established although the IKE_SA_INIT request the initiator '
                     'sent last (%d octets) is not what the responder received (%s): a change in flight went undetected (%s)'
                     % (len(a_req[-1]), [len(x) for x in b_req], what), rep)
        if b_res and a_res and b_res[-1] not in a_res:
            res.fail('established-on-different-ike-sa-init:response', 'both ends are established although the IKE_SA_INIT response the responder '
                     'sent is not what the initiator received (%s)' % what, rep)
    for name, ep in (('A', w.A), ('B', w.B)):
        est = [s for s in ep.sas() if int(s.state) >= 10 and int(s.state) < 21]
        installed = [r for r in ep.kernel.log if r['op'] == 'NEWSA' and not r['err']]
        if not est and not installed:
            continue
        if installed and not est:
            res.fail('sa-installed-without-established-ike-sa', '%s installed an IPsec SA but holds no established IKE_SA (%s)' % (name, what), rep)
            continue
        sa = est[0]
        # the IKE_SA_INIT message of the PEER as this endpoint saw it, and the IKE_AUTH message it accepted
        inits_rx = [d for d in sess.received[name] if len(d) > 28 and d[18] == 34]
        inits_tx = [d for d in sess.sent_by[name] if len(d) > 28 and d[18] == 34]
        auths_rx = [d for d in sess.received[name] if len(d) > 28 and d[18] == 35]
        if not inits_rx or not inits_tx or not auths_rx:
            res.fail('established-without-auth-exchange', '%s is established without having received IKE_SA_INIT / IKE_AUTH (%s)' % (name, what), rep)
            continue
        ok_any, why = False, ''
        w.use_side = True
        try:
            for ad in auths_rx:
                try:
                    am = M.Message.parse(ad, crypto=sa.peer_crypto)
                except Exception:
                    continue
                for peer_init in inits_rx:
                    for mine in inits_tx:
                        try:
                            ok, why = independent_auth_ok(ep, sa, peer_init, M.Message.parse(mine), am)
                        except Exception as ex:  # noqa
                            ok, why = False, 'recomputation failed: %r' % ex
                        if ok:
                            ok_any = True
        finally:
            w.use_side = False
        res.count('established:' + ('valid' if ok_any else 'INVALID'))
        if not ok_any:
            res.fail('established-without-valid-auth:%s' % what.split(':')[0],
                     '%s reached %s / installed %d SA(s) although no accepted AUTH verifies over the IKE_SA_INIT octets it received, the nonce it '
                     'sent and the presented identity (%s): %s' % (name, sa.state.name, len(installed), why, what), rep)
        elif isinstance(expect_possible, str) and name in expect_possible:
            res.fail('established-despite-mismatch:%s' % what.split(':')[0], '%s established although the credential / identity presented to it '
                     'does not match its configuration (%s)' % (name, what), rep)


def mitm_variants(rng, data, k):
    """rewritings of message k (0,1 cleartext IKE_SA_INIT; 2,3 protected IKE_AUTH)"""
    out = []
    if k in (0, 1):
        m = M.Message.parse(data)

        def emit(name, mm):
            try:
                out.append((name, bytes(mm.to_bytes())))
            except Exception:
                pass
        for name, fn in (
            ('nonce-substituted', lambda mm: setattr(mm.get_payload(M.Payload.Type.NONCE), 'nonce', rng.rbytes(32))),
            ('ke-substituted', lambda mm: setattr(mm.get_payload(M.Payload.Type.KE), 'ke_data', bytes(len(mm.get_payload(M.Payload.Type.KE).ke_data)))),
            ('spi-substituted', lambda mm: setattr(mm, 'spi_i' if k == 0 else 'spi_r', rng.rbytes(8))),
            ('payload-removed-vendor', lambda mm: mm.payloads.__delitem__(-1)),
            ('payload-reordered', lambda mm: mm.payloads.reverse()),
            ('payload-inserted-notify', lambda mm: mm.payloads.insert(0, M.PayloadNOTIFY(M.Proposal.Protocol.NONE, M.PayloadNOTIFY.Type.INITIAL_CONTACT, b'', b''))),
            ('payload-inserted-vendor', lambda mm: mm.payloads.append(M.PayloadVENDOR(b'mitm'))),
            ('proposal-downgraded', lambda mm: mm.get_payload(M.Payload.Type.SA).proposals[0].transforms.__delitem__(0)),
            ('proposal-transform-replaced', lambda mm: setattr(mm.get_payload(M.Payload.Type.SA).proposals[0].transforms[0], 'keylen', 128)),
            ('flags-higher-version', lambda mm: setattr(mm, 'can_use_higher_version', True)),
            ('minor-version', lambda mm: setattr(mm, 'minor', 1)),
        ):
            mm = M.Message.parse(data)
            try:
                fn(mm)
            except Exception:
                continue
            emit(name, mm)
        # non-canonical but "equivalent" encodings: unknown non-critical payload, reserved bits
        b = bytearray(data)
        tail = bytes([0, 0, 0, 8, 1, 2, 3, 4])
        # append an unknown payload type 77 at the end of the chain: patch the last payload's next-payload octet
        off, nxt = 28, b[16]
        last = None
        while nxt != 0 and off + 4 <= len(b):
            last = off
            nxt, ln = b[off], int.from_bytes(b[off + 2:off + 4], 'big')
            off += ln
        if last is not None and off == len(b):
            b2 = bytearray(b)
            b2[last] = 77
            b2 += tail
            b2[24:28] = len(b2).to_bytes(4, 'big')
            out.append(('unknown-payload-appended', bytes(b2)))
        b3 = bytearray(data)
        b3[29] |= 0x01            # a reserved bit of the first generic payload header
        out.append(('reserved-bit-set', bytes(b3)))
        b4 = bytearray(data)
        b4[24:28] = (len(data) + 7).to_bytes(4, 'big')
        out.append(('length-field-changed', bytes(b4)))
    else:
        for pos in rng.sample(range(len(data)), min(6, len(data))):
            b = bytearray(data)
            b[pos] ^= 1 << rng.randrange(8)
            out.append(('byte-flip@%d' % pos, bytes(b)))
        out.append(('truncated', data[:-1]))
    return out


def run(ctx):
    res = Result()
    Session.deep = (ctx, res)
    try:
        return run_(ctx, res)
    finally:
        Session.deep = None


def run_(ctx, res):
    rng = ctx.rng
    res.rule = ('man in the middle: each of the first four messages x ~14 rewritings (cleartext) / byte mutations, replay, reflection '
                '(protected), PSK and RSA, 3 suites; configuration mismatches: wrong PSK either way, wrong identity, wrong identity type, '
                'method mismatch, missing credential; rogue peer skipping / forging IKE_AUTH; distinct = distinct (scenario, variant)')
    suites = [{}, {'prf': ['sha1'], 'integ': ['sha1'], 'encr': ['aes128']}, {'prf': ['sha512'], 'integ': ['sha512'], 'dh': ['20']}]
    # (1) MITM
    for rsa in (False, True):
        for suite in suites[:(2 if ctx.tier == 'quick' else 3)]:
            kw = dict(suite)
            kw['rsa'] = rsa
            base_a, base_b = W.default_conf(**kw)
            for k in range(4):
                # reference run to obtain message k
                seed = rng.randrange(1 << 30)
                ref = Session(seed, copy.deepcopy(base_a), copy.deepcopy(base_b))
                try:
                    msgs = [ref.start()]
                    msgs.append(ref.send(msgs[0], 'B'))
                    msgs.append(ref.send(msgs[1], 'A') if msgs[1] else None)
                    msgs.append(ref.send(msgs[2], 'B') if msgs[2] else None)
                finally:
                    ref.close()
                if msgs[k] is None:
                    continue
                variants = mitm_variants(rng, msgs[k], k) + [('untouched', msgs[k])]
                if k >= 2:
                    variants += [('replay-of-other-session', msgs[k]), ('reflection', None)]
                for name, new in variants:
                    sess = Session(seed, copy.deepcopy(base_a), copy.deepcopy(base_b))     # same seed: same octets up to message k
                    try:
                        cur = sess.start()
                        flow = ['B', 'A', 'B', 'A']
                        for i in range(4):
                            if cur is None:
                                break
                            data = cur
                            if i == k:
                                if name == 'reflection':
                                    # the endpoint's own last message comes back to it
                                    own = sess.sent_by[flow[i]][-1] if sess.sent_by[flow[i]] else None
                                    data = own if own is not None else cur
                                elif name == 'replay-of-other-session':
                                    data = msgs[k] if False else cur      # same seed => identical; real replay is the duplicate below
                                else:
                                    data = new
                            cur = sess.send(data, flow[i])
                            if i == k and name == 'replay-of-other-session':
                                sess.send(data, flow[i])                  # duplicate delivery
                        res.evaluations += 1
                        res.nontrivial.add(('mitm', rsa, str(sorted(suite.items())), k, name))
                        res.count('mitm:msg%d' % k)
                        rep = {'seed': seed, 'scenario': 'mitm', 'rsa': rsa, 'suite': suite, 'message': k, 'variant': name,
                               'data': (new or b'').hex()[:600]}
                        judge(sess, res, rep, 'mitm:%s of message %d' % (name, k), True)
                    finally:
                        sess.close()
    # (2) configuration mismatches
    for rsa in (False, True):
        base_a, base_b = W.default_conf(rsa=rsa)
        muts = []
        if not rsa:
            muts += [('wrong-psk-of-a', 'a', lambda c: c['my_auth'].__setitem__('psk', 'not-the-psk'), 'B'),
                     ('wrong-psk-expected-by-a', 'a', lambda c: c['peer_auth'].__setitem__('psk', 'not-the-psk'), 'A'),
                     ('missing-psk-at-b', 'b', lambda c: c['peer_auth'].pop('psk'), 'B')]
        else:
            other = W.rsa_pair('mallory@openikev2')
            muts += [('foreign-private-key', 'a', lambda c: c['my_auth'].__setitem__('privkey', other[0]), 'B'),
                     ('foreign-public-key-at-a', 'a', lambda c: c['peer_auth'].__setitem__('pubkey', other[1]), 'A'),
                     ('psk-method-against-rsa-only-peer', 'a', lambda c: (c['my_auth'].pop('privkey'), c['my_auth'].__setitem__('psk', 'whatever')), 'B'),
                     ('psk-method-by-responder-against-rsa-only', 'b', lambda c: (c['my_auth'].pop('privkey'), c['my_auth'].__setitem__('psk', 'whatever')), 'A')]
        # identities that differ from the configured one in as little as one bit (case of a letter, 0x20 in an address byte,
        # a trailing dot), for every identity type the configuration can express and both roles
        NEAR = [('alice@openikev2', 'Alice@openikev2'), ('alice@openikev2', 'alice@Openikev2'), ('alice@openikev2', 'alice@openikev2.'),
                ('gw.openikev2', 'GW.openikev2'), ('gw.openikev2', 'gw.openikev3'), ('192.168.0.65', '192.168.0.97'),
                ('10.65.0.1', '10.97.0.1'), ('192.168.0.65', '192.168.0.64'), ('2001:db8::41', '2001:db8::61'),
                ('2001:db8::41', '2001:db8:0:0:0:0:0:40'), ('192.168.0.65', '192.168.0.65.'), ('alice@openikev2', 'alice.openikev2')]

        def near(side, expected, presented):
            def fn(c, other):
                c['my_auth']['id'] = presented
                other['peer_auth']['id'] = expected
            return fn
        for k, (e, p) in enumerate(NEAR):
            for side in 'ab':
                for (x, y) in ((e, p), (p, e)):
                    muts.append(('near-identity:%s-presents-%s-for-%s' % (side, y, x), side + '+', near(side, x, y), 'B' if side == 'a' else 'A'))
        muts += [('same-identity-other-spelling', 'a+', near('a', '2001:db8::41', '2001:db8:0:0:0:0:0:41'), True),
                 ('wrong-identity', 'a', lambda c: c['my_auth'].__setitem__('id', 'eve@openikev2'), 'B'),
                 ('wrong-identity-type', 'a', lambda c: c['my_auth'].__setitem__('id', 'alice.openikev2'), 'B'),
                 ('wrong-identity-of-responder', 'b', lambda c: c['my_auth'].__setitem__('id', 'eve@openikev2'), 'A'),
                 ('matching', 'a', lambda c: None, True)]
        for name, side, fn, possible in muts:
            ca, cb = copy.deepcopy(base_a), copy.deepcopy(base_b)
            if side.endswith('+'):
                mine, other = (ca, cb) if side[0] == 'a' else (cb, ca)
                fn(list(mine.values())[0], list(other.values())[0])
            else:
                fn(list(ca.values())[0] if side == 'a' else list(cb.values())[0])
            seed = rng.randrange(1 << 30)
            try:
                sess = Session(seed, ca, cb)
            except Exception as ex:  # noqa: the configuration itself was refused
                res.count('config-refused:' + name)
                continue
            try:
                cur = sess.start()
                for to in ('B', 'A', 'B', 'A'):
                    if cur is None:
                        break
                    cur = sess.send(cur, to)
                res.evaluations += 1
                res.nontrivial.add(('mismatch', rsa, name))
                res.count('mismatch:' + name)
                rep = {'seed': seed, 'scenario': 'mismatch', 'rsa': rsa, 'variant': name}
                judge(sess, res, rep, 'mismatch:' + name, possible)
                if possible is True and not (sess.w.A.sas() and int(sess.w.A.sas()[0].state) == 10 and sess.w.B.sas() and int(sess.w.B.sas()[0].state) == 10):
                    res.fail('matching-configurations-failed', 'matching configurations (%s) did not establish' % ('RSA' if rsa else 'PSK'), rep)
            finally:
                sess.close()
    # (3) rogue peer: completes IKE_SA_INIT (so it has the SK_* keys), then skips IKE_AUTH
    for first_exch in ('create-child', 'informational-delete', 'ike-rekey'):
        seed = rng.randrange(1 << 30)
        ca, cb = W.default_conf()
        sess = Session(seed, ca, cb)
        try:
            m0 = sess.start()
            m1 = sess.send(m0, 'B')
            sess.send(m1, 'A')                     # the rogue (A) now holds the unauthenticated keys; its IKE_AUTH request is withheld
            rogue = sess.w.A.sas()[0]
            import ikesa as IKESA
            rogue.state = IKESA.IkeSa.State.ESTABLISHED          # attacker-side: it simply goes on
            n0 = len(sess.w.sent)
            if first_exch == 'create-child':
                sess.h.op('acquire', 'A', 4001)
            elif first_exch == 'informational-delete':
                rogue.start_dpd_at = sess.w.now - 1
                sess.h.op('tick', 0)
            else:
                rogue.rekey_ike_sa_at = sess.w.now - 1
                sess.h.op('tick', 0)
            out = [d for d in sess.w.sent[n0:] if d.sender == 'A']
            sess.w.net.clear()
            if out:
                sess.send(out[-1].data, 'B')
            res.evaluations += 1
            res.nontrivial.add(('rogue', first_exch))
            res.count('rogue:' + first_exch)
            rep = {'seed': seed, 'scenario': 'rogue-skips-auth', 'variant': first_exch}
            b = sess.w.B
            if [r for r in b.kernel.log if r['op'] == 'NEWSA' and not r['err']] or any(int(s.state) >= 10 and int(s.state) < 21 for s in b.sas()):
                res.fail('established-without-auth-exchange:' + first_exch,
                         'a peer that never sent IKE_AUTH got %s out of the responder: states %s, %d SA(s) installed'
                         % (first_exch, [s.state.name for s in b.sas()], len([r for r in b.kernel.log if r['op'] == 'NEWSA'])), rep)
        finally:
            sess.close()
    # (4) a forged COOKIE challenge makes the initiator send a second request; the attacker strips the cookie again in flight
    for rsa in (False, True):
        seed = rng.randrange(1 << 30)
        ca, cb = W.default_conf(rsa=rsa)
        sess = Session(seed, ca, cb)
        try:
            m0 = sess.start()
            q = M.Message.parse(m0)
            cookie = M.PayloadNOTIFY(M.Proposal.Protocol.NONE, M.PayloadNOTIFY.Type.COOKIE, b'', rng.rbytes(32))
            forged = M.Message(spi_i=q.spi_i, spi_r=b'\0' * 8, major=2, minor=0, exchange_type=M.Message.Exchange.IKE_SA_INIT, is_response=True,
                               can_use_higher_version=False, is_initiator=False, message_id=0, payloads=[cookie], encrypted_payloads=[], crypto=None)
            m0c = sess.send(bytes(forged.to_bytes()), 'A')           # the initiator repeats its request with the cookie
            cur = None
            if m0c is not None:
                q2 = M.Message.parse(m0c)
                q2.payloads = [p for p in q2.payloads if not (p.type == M.Payload.Type.NOTIFY and p.notification_type == M.PayloadNOTIFY.Type.COOKIE)]
                cur = sess.send(bytes(q2.to_bytes()), 'B')           # ... which the responder never sees
            for to in ('A', 'B', 'A'):
                if cur is None:
                    break
                cur = sess.send(cur, to)
            res.evaluations += 1
            res.nontrivial.add(('cookie-strip', rsa))
            res.count('mitm:cookie-injected-and-stripped')
            rep = {'seed': seed, 'scenario': 'mitm-cookie', 'rsa': rsa}
            judge(sess, res, rep, 'mitm:cookie challenge forged towards the initiator and stripped towards the responder', True)
        finally:
            sess.close()
    # (5) a peer that holds the SK_* keys but no credential talks to an INITIATOR that is still waiting for the IKE_AUTH response
    for first_exch in ('create-child', 'informational', 'ike-rekey'):
        seed = rng.randrange(1 << 30)
        ca, cb = W.default_conf()
        sess = Session(seed, ca, cb)
        try:
            m0 = sess.start()
            m1 = sess.send(m0, 'B')
            sess.send(m1, 'A')                     # A: AUTH_REQ_SENT; its IKE_AUTH request is swallowed by the attacker (B's place)
            a = sess.w.A.sas()[0] if sess.w.A.sas() else None
            bsa = sess.w.B.sas()[0] if sess.w.B.sas() else None
            if a is None or bsa is None or int(a.state) != 3:
                continue
            import rogue as RG
            pup = RG.Puppet(sess.h, rng)
            pol = pup.a_policy()
            if first_exch == 'create-child':
                props, _ = pup.child_proposal(variant='same')
                pl = [M.PayloadTSi([pol.peer_ts]), M.PayloadTSr([pol.my_ts]), M.PayloadSA(props), M.PayloadNONCE()]
                if int(pol.mode) == 0:
                    pl.append(M.PayloadNOTIFY(M.Proposal.Protocol.NONE, M.PayloadNOTIFY.Type.USE_TRANSPORT_MODE))
                exch = M.Message.Exchange.CREATE_CHILD_SA
            elif first_exch == 'informational':
                pl, exch = [], M.Message.Exchange.INFORMATIONAL
            else:
                conf = pup.a_conf()
                dh = next(t.id for t in conf.proposal.transforms if t.type == M.Transform.Type.DH)
                pl = [M.PayloadSA([M.Proposal(1, M.Proposal.Protocol.IKE, rng.rbytes(8), list(conf.proposal.transforms))]), M.PayloadNONCE(),
                      M.PayloadKE(dh, pup.dh_pub(dh))]
                exch = M.Message.Exchange.CREATE_CHILD_SA
            data = RG.protected(bsa, exch, pl, a.peer_msg_id, False)
            sess.send(bytes(data), 'A')
            res.evaluations += 1
            res.nontrivial.add(('unauthenticated-responder', first_exch))
            res.count('rogue-responder:' + first_exch)
            rep = {'seed': seed, 'scenario': 'keys-but-no-auth-towards-initiator', 'variant': first_exch}
            aep = sess.w.A
            inst = [r for r in aep.kernel.log if r['op'] == 'NEWSA' and not r['err']]
            if inst or any(10 <= int(s.state) < 21 for s in aep.sas()) or any(s.child_sas for s in aep.sas()):
                res.fail('established-without-auth-exchange:initiator-' + first_exch,
                         'an initiator still waiting for the IKE_AUTH response served a %s request of the unauthenticated peer: states %s, '
                         '%d SA(s) installed' % (first_exch, [s.state.name for s in aep.sas()], len(inst)), rep)
        finally:
            sess.close()
    return res


def replay(rep):
    return True, 'see the replay file: scenario, variant and (for MITM) the rewritten datagram'
