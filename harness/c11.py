"""C11 — algorithm negotiation never selects anything outside both offers.

Proof: Props/C11.lean (all proposals, no size bound).  Correspondence: Impl.intersection / selectBest / isSubset /
childResponseOk / retryGroup (driver) vs message.Proposal and ikesa.IkeSa on exhaustive small universes and random
larger ones.  Oracle: the property evaluated directly on what the real code returns."""
import itertools

import message as M
import ikesa as I
import wire
from runner import Result

LEAN_FILES = ['PyIkev2/Model/Negotiate.lean', 'PyIkev2/Proofs/Negotiate.lean']
ASSUMPTIONS = ['Transform.__eq__ compares hashes of (type, id, keylen); modelled as structural equality '
               '(collision-freeness of CPython tuple hashing on these triples is trusted; the correspondence below would '
               'expose a collision inside the explored universes)']

T = M.Transform
UNIVERSE = [
    (1, 12, 128), (1, 12, 256), (3, 12, None), (3, 14, None), (3, 2, None), (2, 5, None), (2, 7, None),
    (4, 14, None), (4, 19, None), (4, 21, None), (5, 0, None), (1, 12, None), (1, 12, 0),
]


def mk(tr, num=1, proto=1, spi=b''):
    return M.Proposal(num, proto, spi, [T(a, b, c) for a, b, c in tr])


def toks(p):
    return ' '.join(wire.r_proposal(p))


def key3(t):
    return (int(t.type), int(t.id), t.keylen)


def oracle_intersection(res, mine, peer, out):
    """C11 evaluated directly on the real result"""
    mt = [key3(t) for t in mine.transforms]
    pt = [key3(t) for t in peer.transforms]
    if out is None:
        ok = (int(mine.protocol_id) != int(peer.protocol_id)) or any(
            all(not (m[0] == ty and m in pt) for m in mt) for ty in {m[0] for m in mt})
        if not ok:
            res.fail('refused-though-acceptable', 'intersection is None although every required type has a common transform',
                     {'mine': toks(mine), 'peer': toks(peer)})
        return
    ot = [key3(t) for t in out.transforms]
    if int(out.protocol_id) != int(mine.protocol_id) or int(mine.protocol_id) != int(peer.protocol_id):
        res.fail('protocol-mismatch-accepted', 'suite chosen across different protocols', {'mine': toks(mine), 'peer': toks(peer)})
    for t in ot:
        if t not in mt or t not in pt:
            res.fail('transform-outside-offers', 'chosen transform %s is not in both offers' % (t,),
                     {'mine': toks(mine), 'peer': toks(peer), 'out': toks(out)})
    types = [t[0] for t in ot]
    if len(types) != len(set(types)) or set(types) != {m[0] for m in mt}:
        res.fail('not-one-per-type', 'chosen suite does not have exactly one transform per required type',
                 {'mine': toks(mine), 'peer': toks(peer), 'out': toks(out)})
    for t in ot:
        first = next((m for m in mt if m[0] == t[0] and m in pt), None)
        if first != t:
            res.fail('preference-order', 'chosen %s, first acceptable in local order is %s' % (t, first),
                     {'mine': toks(mine), 'peer': toks(peer), 'out': toks(out)})
    if out.num != peer.num or bytes(out.spi) != bytes(peer.spi):
        res.fail('num-spi-not-peers', 'proposal number / SPI not taken from the peer proposal', {'mine': toks(mine), 'peer': toks(peer)})


def ordered_subsets(univ, maxlen):
    for n in range(1, maxlen + 1):
        for combo in itertools.permutations(univ, n):
            yield list(combo)


def run(ctx):
    res = Result()
    rng = ctx.rng
    res.rule = ('exhaustive: every ordered selection (length <= bound) of a transform universe with 2 ENCR key lengths, '
                'INTEG, PRF, DH, ESN for my policy x the peer proposal; random larger lists; multi-proposal SA payloads; '
                'response validation; distinct = distinct (mine, peer) token pair; non-trivial = both non-empty')
    ops, expect = [], []
    small = [UNIVERSE[i] for i in (0, 1, 2, 3, 5, 7, 8)]
    bound = 2 if ctx.tier == 'quick' else 3
    lists = list(ordered_subsets(small, bound))
    pairs = [(a, b) for a in lists for b in lists]
    cap = ctx.scale(6000, 400000)
    if len(pairs) > cap:
        pairs = rng.sample(pairs, cap)
    # random larger proposals
    for _ in range(ctx.scale(1500, 30000)):
        a = [rng.choice(UNIVERSE) for _ in range(rng.randrange(1, 8))]
        b = [rng.choice(UNIVERSE) for _ in range(rng.randrange(1, 8))]
        pairs.append((a, b))
    # structured, mostly-compatible pairs: full suites with several alternatives per type, peer preference shuffled
    bytype = {}
    for u in UNIVERSE:
        bytype.setdefault(u[0], []).append(u)
    for _ in range(ctx.scale(2500, 60000)):
        types = rng.sample(sorted(bytype), rng.randrange(1, 6))
        a, b = [], []
        for ty in types:
            alts = bytype[ty]
            a += rng.sample(alts, rng.randrange(1, len(alts) + 1))
            b += rng.sample(alts, rng.randrange(1, len(alts) + 1)) if rng.random() < 0.9 else []
        rng.shuffle(b)
        if rng.random() < 0.3:
            rng.shuffle(a)
        if rng.random() < 0.3:
            b += [rng.choice(UNIVERSE)]
        if a and b:
            pairs.append((a, b))
    exhaustive = len(lists) ** 2 <= cap
    for a, b in pairs:
        pa = rng.choice([1, 1, 1, 2, 3])
        pb = pa if rng.random() < 0.85 else rng.choice([1, 2, 3])
        mine = mk(a, 1, pa, b'')
        peer = mk(b, rng.randrange(1, 9), pb, rng.choice([b'', b'\x01\x02\x03\x04']))
        res.evaluations += 1
        res.nontrivial.add((tuple(a), tuple(b), pa, pb))
        out = mine.intersection(peer)
        res.count('intersection:' + ('none' if out is None else 'some'))
        oracle_intersection(res, mine, peer, out)
        ops.append('isect %s %s' % (toks(mine), toks(peer)))
        expect.append('none' if out is None else 'some ' + toks(out))
        sub = mine.is_subset(peer)
        ops.append('issubset %s %s' % (toks(mine), toks(peer)))
        expect.append('1' if sub else '0')
        if sub:
            pt = [key3(t) for t in peer.transforms]
            if any(key3(t) not in pt for t in mine.transforms) or pa != pb:
                res.fail('subset-accepts-foreign', 'is_subset true although a transform is not in the offer',
                         {'resp': toks(mine), 'offer': toks(peer)})
        # CHILD_SA response validation (ikesa.py:951-957)
        inter = mine.intersection(peer)
        childok = not (inter is None or inter != peer)
        ops.append('childok %s %s' % (toks(mine), toks(peer)))
        expect.append('1' if childok else '0')
        if childok:
            mt = [key3(t) for t in mine.transforms]
            if any(key3(t) not in mt for t in peer.transforms):
                res.fail('child-response-accepts-foreign', 'response proposal accepted although not drawn from the offer',
                         {'mine': toks(mine), 'resp': toks(peer)})
    res.sample({'mine': toks(mk(pairs[0][0])), 'peer': toks(mk(pairs[0][1]))})
    # multi-proposal SA payloads: first acceptable in peer order
    for _ in range(ctx.scale(800, 20000)):
        mine = mk([rng.choice(UNIVERSE) for _ in range(rng.randrange(1, 6))], 1, 1)
        props = [mk([rng.choice(UNIVERSE) for _ in range(rng.randrange(1, 6))], i + 1, rng.choice([1, 1, 3]),
                    rng.choice([b'', b'\xaa\xbb\xcc\xdd'])) for i in range(rng.randrange(1, 5))]
        res.evaluations += 1
        try:
            out = I.IkeSa._select_best_sa_proposal(None, mine, M.PayloadSA(props))
        except M.NoProposalChosen:
            out = None
        res.count('select:' + ('none' if out is None else 'some'))
        firsts = [mine.intersection(p) for p in props]
        want = next((x for x in firsts if x is not None), None)
        if (out is None) != (want is None) or (out is not None and toks(out) != toks(want)):
            res.fail('not-first-acceptable', 'selected proposal is not the intersection with the first acceptable peer proposal',
                     {'mine': toks(mine), 'peer': [toks(p) for p in props]})
        ops.append('select %s %d %s' % (toks(mine), len(props), ' '.join(toks(p) for p in props)))
        expect.append('none' if out is None else 'some ' + toks(out))
    # INVALID_KE retry only within the offer (handle_invalid_ke), with DH generation stubbed
    class _DH:
        def __init__(self, g):
            self.group, self.public_key, self.shared_secret = g, b'\x01' * 8, None
    real_from_group = I.DiffieHellman.from_group
    I.DiffieHellman.from_group = classmethod(lambda cls, g: _DH(g))
    try:
        for _ in range(ctx.scale(300, 5000)):
            offer = mk([rng.choice(UNIVERSE) for _ in range(rng.randrange(1, 7))], 1, 1)
            suggested = rng.choice([14, 19, 21, 2, 15, 0])
            sa = object.__new__(I.IkeSa)
            sa.my_spi, sa.peer_spi, sa.is_initiator, sa.my_msg_id, sa.my_crypto = b'1' * 8, b'2' * 8, True, 0, None
            sa.request = M.Message(b'1' * 8, b'2' * 8, 2, 0, 34, False, False, True, 0,
                                   [M.PayloadSA([offer]), M.PayloadKE(14, b'x' * 8)], [])
            notify = M.PayloadNOTIFY(0, M.PayloadNOTIFY.Type.INVALID_KE_PAYLOAD, b'', suggested.to_bytes(2, 'big'))
            res.evaluations += 1
            try:
                _, req = I.IkeSa.handle_invalid_ke(sa, [notify])
                got = 'some %d' % req.get_payload(M.Payload.Type.KE).dh_group
            except M.NoProposalChosen:
                got = 'none'
            offered = [int(t.id) for t in offer.transforms if int(t.type) == 4]
            res.count('retry:' + got.split(' ')[0])
            if (got != 'none') != (suggested in offered):
                res.fail('retry-outside-offer', 'suggested group %d, offered %s -> %s' % (suggested, offered, got), {'offer': toks(offer)})
            ops.append('retry %s %d' % (toks(offer), suggested))
            expect.append(got)
    finally:
        I.DiffieHellman.from_group = real_from_group
    if ctx.driver is not None:
        outs = ctx.driver.run(ops)
        for op, want, out in zip(ops, expect, outs):
            if out != want:
                res.mismatch(op[:300], want[:200], out[:200])
        res.extra['model_evaluations'] = len(ops)
    res.extra['exhaustive_small_universe'] = exhaustive
    return res


def replay(rep):
    return True, 'see replay file: token renderings of the proposals (num proto spi n (type id keylen)*)'
