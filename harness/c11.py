"""C11 — algorithm negotiation never selects anything outside both offers.

Proof: Props/C11.lean (all proposals, no size bound).  Correspondence: Impl.intersection / selectBest / isSubset /
childResponseOk / retryGroup (driver) vs message.Proposal and ikesa.IkeSa on exhaustive small universes and random
larger ones.  Oracle: the property evaluated directly on what the real code returns."""
import itertools

import message as M
import ikesa as I
import wire
from runner import Result

LEAN_FILES = ['PyIkev2/Model/Negotiate.lean', 'PyIkev2/Proofs/Negotiate.lean']
ASSUMPTIONS = ['Transform.__eq__ compares hashes of (type, id, keylen); modelled as structural equality '
               '(collision-freeness of CPython tuple hashing on these triples is trusted; the correspondence below would '
               'expose a collision inside the explored universes)']

T = M.Transform
UNIVERSE = [
    (1, 12, 128), (1, 12, 256), (3, 12, None), (3, 14, None), (3, 2, None), (2, 5, None), (2, 7, None),
    (4, 14, None), (4, 19, None), (4, 21, None), (5, 0, None), (1, 12, None), (1, 12, 0),
]


def mk(tr, num=1, proto=1, spi=b''):
    return M.Proposal(num, proto, spi, [T(a, b, c) for a, b, c in tr])


def toks(p):
    return ' '.join(wire.r_proposal(p))


def key3(t):
    return (int(t.type), int(t.id), t.keylen)


def oracle_intersection(res, mine, peer, out):
    """C11 evaluated directly on the real result"""
    mt = [key3(t) for t in mine.transforms]
    pt = [key3(t) for t in peer.transforms]
    if out is None:
        ok = (int(mine.protocol_id) != int(peer.protocol_id)) or any(
            all(not (m[0] == ty and m in pt) for m in mt) for ty in {m[0] for m in mt})
        if not ok:
            res.fail('refused-though-acceptable', 'intersection is None although every required type has a common transform',
                     {'mine': toks(mine), 'peer': toks(peer)})
        return
    ot = [key3(t) for t in out.transforms]
    if int(out.protocol_id) != int(mine.protocol_id) or int(mine.protocol_id) != int(peer.protocol_id):
        res.fail('protocol-mismatch-accepted', 'suite chosen across different protocols', {'mine': toks(mine), 'peer': toks(peer)})
    for t in ot:
        if t not in mt or t not in pt:
            res.fail('transform-outside-offers', 'chosen transform %s is not in both offers' % (t,),
                     {'mine': toks(mine), 'peer': toks(peer), 'out': toks(out)})
    types = [t[0] for t in ot]
    if len(types) != len(set(types)) or set(types) != {m[0] for m in mt}:
        res.fail('not-one-per-type', 'chosen suite does not have exactly one transform per required type',
                 {'mine': toks(mine), 'peer': toks(peer), 'out': toks(out)})
    for t in ot:
        first = next((m for m in mt if m[0] == t[0] and m in pt), None)
        if first != t:
            res.fail('preference-order', 'chosen %s, first acceptable in local order is %s' % (t, first),
                     {'mine': toks(mine), 'peer': toks(peer), 'out': toks(out)})
    if out.num != peer.num or bytes(out.spi) != bytes(peer.spi):
        res.fail('num-spi-not-peers', 'proposal number / SPI not taken from the peer proposal', {'mine': toks(mine), 'peer': toks(peer)})


def ordered_subsets(univ, maxlen):
    for n in range(1, maxlen + 1):
        for combo in itertools.permutations(univ, n):
            yield list(combo)


def run(ctx):
    res = Result()
    rng = ctx.rng
    res.rule = ('exhaustive: every ordered selection (length <= bound) of a transform universe with 2 ENCR key lengths, '
                'INTEG, PRF, DH, ESN for my policy x the peer proposal; random larger lists; multi-proposal SA payloads; '
                'response validation; distinct = distinct (mine, peer) token pair; non-trivial = both non-empty')
    ops, expect = [], []
    small = [UNIVERSE[i] for i in (0, 1, 2, 3, 5, 7, 8)]
    bound = 2 if ctx.tier == 'quick' else 3
    lists = list(ordered_subsets(small, bound))
    pairs = [(a, b) for a in lists for b in lists]
    cap = ctx.scale(6000, 400000)
    if len(pairs) > cap:
        pairs = rng.sample(pairs, cap)
    # random larger proposals
    for _ in range(ctx.scale(1500, 30000)):
        a = [rng.choice(UNIVERSE) for _ in range(rng.randrange(1, 8))]
        b = [rng.choice(UNIVERSE) for _ in range(rng.randrange(1, 8))]
        pairs.append((a, b))
    # structured, mostly-compatible pairs: full suites with several alternatives per type, peer preference shuffled
    bytype = {}
    for u in UNIVERSE:
        bytype.setdefault(u[0], []).append(u)
    for _ in range(ctx.scale(2500, 60000)):
        types = rng.sample(sorted(bytype), rng.randrange(1, 6))
        a, b = [], []
        for ty in types:
            alts = bytype[ty]
            a += rng.sample(alts, rng.randrange(1, len(alts) + 1))
            b += rng.sample(alts, rng.randrange(1, len(alts) + 1)) if rng.random() < 0.9 else []
        rng.shuffle(b)
        if rng.random() < 0.3:
            rng.shuffle(a)
        if rng.random() < 0.3:
            b += [rng.choice(UNIVERSE)]
        if a and b:
            pairs.append((a, b))
    exhaustive = len(lists) ** 2 <= cap
    for a, b in pairs:
        pa = rng.choice([1, 1, 1, 2, 3])
        pb = pa if rng.random() < 0.85 else rng.choice([1, 2, 3])
        mine = mk(a, 1, pa, b'')
        peer = mk(b, rng.randrange(1, 9), pb, rng.choice([b'', b'\x01\x02\x03\x04']))
        res.evaluations += 1
        res.nontrivial.add((tuple(a), tuple(b), pa, pb))
        out = mine.intersection(peer)
        res.count('intersection:' + ('none' if out is None else 'some'))
        oracle_intersection(res, mine, peer, out)
        ops.append('isect %s %s' % (toks(mine), toks(peer)))
        expect.append('none' if out is None else 'some ' + toks(out))
        sub = mine.is_subset(peer)
        ops.append('issubset %s %s' % (toks(mine), toks(peer)))
        expect.append('1' if sub else '0')
        if sub:
            pt = [key3(t) for t in peer.transforms]
            if any(key3(t) not in pt for t in mine.transforms) or pa != pb:
                res.fail('subset-accepts-foreign', 'is_subset true although a transform is not in the offer',
                         {'resp': toks(mine), 'offer': toks(peer)})
        # CHILD_SA response validation (ikesa.py:951-957)
        inter = mine.intersection(peer)
        childok = not (inter is None or inter != peer)
        ops.append('childok %s %s' % (toks(mine), toks(peer)))
        expect.append('1' if childok else '0')
        if childok:
            mt = [key3(t) for t in mine.transforms]
            if any(key3(t) not in mt for t in peer.transforms):
                res.fail('child-response-accepts-foreign', 'response proposal accepted although not drawn from the offer',
                         {'mine': toks(mine), 'resp': toks(peer)})
    res.sample({'mine': toks(mk(pairs[0][0])), 'peer': toks(mk(pairs[0][1]))})
    # multi-proposal SA payloads: first acceptable in peer order
    for _ in range(ctx.scale(800, 20000)):
        mine = mk([rng.choice(UNIVERSE) for _ in range(rng.randrange(1, 6))], 1, 1)
        props = [mk([rng.choice(UNIVERSE) for _ in range(rng.randrange(1, 6))], i + 1, rng.choice([1, 1, 3]),
                    rng.choice([b'', b'\xaa\xbb\xcc\xdd'])) for i in range(rng.randrange(1, 5))]
        res.evaluations += 1
        try:
            out = I.IkeSa._select_best_sa_proposal(None, mine, M.PayloadSA(props))
        except M.NoProposalChosen:
            out = None
        res.count('select:' + ('none' if out is None else 'some'))
        firsts = [mine.intersection(p) for p in props]
        want = next((x for x in firsts if x is not None), None)
        if (out is None) != (want is None) or (out is not None and toks(out) != toks(want)):
            res.fail('not-first-acceptable', 'selected proposal is not the intersection with the first acceptable peer proposal',
                     {'mine': toks(mine), 'peer': [toks(p) for p in props]})
        ops.append('select %s %d %s' % (toks(mine), len(props), ' '.join(toks(p) for p in props)))
        expect.append('none' if out is None else 'some ' + toks(out))
    # INVALID_KE retry only within the offer (handle_invalid_ke), with DH generation stubbed
    class _DH:
        def __init__(self, g):
            self.group, self.public_key, self.shared_secret = g, b'\x01' * 8, None
    real_from_group = I.DiffieHellman.from_group
    I.DiffieHellman.from_group = classmethod(lambda cls, g: _DH(g))
    try:
        for _ in range(ctx.scale(300, 5000)):
            offer = mk([rng.choice(UNIVERSE) for _ in range(rng.randrange(1, 7))], 1, 1)
            suggested = rng.choice([14, 19, 21, 2, 15, 0])
            sa = object.__new__(I.IkeSa)
            sa.my_spi, sa.peer_spi, sa.is_initiator, sa.my_msg_id, sa.my_crypto = b'1' * 8, b'2' * 8, True, 0, None
            sa.request = M.Message(b'1' * 8, b'2' * 8, 2, 0, 34, False, False, True, 0,
                                   [M.PayloadSA([offer]), M.PayloadKE(14, b'x' * 8)], [])
            notify = M.PayloadNOTIFY(0, M.PayloadNOTIFY.Type.INVALID_KE_PAYLOAD, b'', suggested.to_bytes(2, 'big'))
            res.evaluations += 1
            try:
                _, req = I.IkeSa.handle_invalid_ke(sa, [notify])
                got = 'some %d' % req.get_payload(M.Payload.Type.KE).dh_group
            except M.NoProposalChosen:
                got = 'none'
            offered = [int(t.id) for t in offer.transforms if int(t.type) == 4]
            res.count('retry:' + got.split(' ')[0])
            if (got != 'none') != (suggested in offered):
                res.fail('retry-outside-offer', 'suggested group %d, offered %s -> %s' % (suggested, offered, got), {'offer': toks(offer)})
            ops.append('retry %s %d' % (toks(offer), suggested))
            expect.append(got)
    finally:
        I.DiffieHellman.from_group = real_from_group
    if ctx.driver is not None:
        outs = ctx.driver.run(ops)
        for op, want, out in zip(ops, expect, outs):
            if out != want:
                res.mismatch(op[:300], want[:200], out[:200])
        res.extra['model_evaluations'] = len(ops)
    res.extra['exhaustive_small_universe'] = exhaustive
    end_to_end(ctx, res)
    ike_response_shapes(ctx, res)
    import rogue
    rogue.campaign(ctx, res, ctx.scale(10, 200), 50)
    return res


# ---------------------------------------------------------------------------- end to end, through the real handlers

def end_to_end(ctx, res):
    """pairs of connection configurations through the real IKE_SA handlers (two-endpoint world): the suite installed for the
    IKE_SA and for each CHILD_SA (initial, additional with PFS, rekey) is the one the specification picks — one transform per
    type of the responder's policy, the first of that type in the responder's order that the initiator offered — or the
    negotiation is refused with NO_PROPOSAL_CHOSEN and nothing is installed; a KE payload in another group is answered with
    INVALID_KE_PAYLOAD naming the chosen group and the retry succeeds"""
    import campaign as CP
    import stateful as S
    rng = ctx.rng
    encs, hashes, dhs = ['aes128', 'aes256'], ['sha1', 'sha256', 'sha512'], ['19', '20', '21']
    ENC = {'aes128': (1, 12, 128), 'aes256': (1, 12, 256)}
    INT = {'sha1': (3, 2, None), 'sha256': (3, 12, None), 'sha512': (3, 14, None)}
    PRF = {'sha1': (2, 2, None), 'sha256': (2, 5, None), 'sha512': (2, 7, None)}

    def pick(l, lo=1):
        x = rng.sample(l, rng.randrange(lo, len(l) + 1))
        return x

    def spec_choice(resp, init):
        """per type in the responder's order: first of the responder's transforms of that type the initiator offered"""
        out, types = [], []
        for t in resp:
            if t[0] not in types:
                types.append(t[0])
        for ty in types:
            c = next((t for t in resp if t[0] == ty and t in init), None)
            if c is None:
                return None
            out.append(c)
        return out
    n = ctx.scale(60, 1500)
    for k in range(n):
        a = {'encr': pick(encs), 'integ': pick(hashes), 'prf': pick(hashes), 'dh': pick(dhs), 'cenc': pick(encs), 'cint': pick(hashes),
             'cdh': pick(dhs, 0)}
        b = {'encr': pick(encs), 'integ': pick(hashes), 'prf': pick(hashes), 'dh': pick(dhs), 'cenc': pick(encs), 'cint': pick(hashes),
             'cdh': pick(dhs, 0)}
        for key in ('encr', 'integ', 'prf', 'dh', 'cenc', 'cint', 'cdh'):
            # mostly-compatible pairs: a disjoint type refuses the whole negotiation and hides the other choices
            if rng.random() < 0.8 and a[key] and not set(a[key]) & set(b[key]):
                b[key].insert(rng.randrange(len(b[key]) + 1), rng.choice(a[key]))
        conf = {'encr': a['encr'], 'integ': a['integ'], 'prf': a['prf'], 'dh': a['dh'], 'child_encr': a['cenc'], 'child_integ': a['cint'],
                'encr_b': b['encr'], 'integ_b': b['integ'], 'prf_b': b['prf'], 'dh_b': b['dh'], 'child_encr_b': b['cenc'], 'child_integ_b': b['cint'],
                'dpd': 5000, 'ike_lifetime': 5000}
        conf['child_dh'] = a['cdh']        # [] = no PFS on that side (must be explicit: `_b` falls back to A's value)
        conf['child_dh_b'] = b['cdh']
        seed = rng.randrange(1 << 30)
        ike_a = [ENC[x] for x in a['encr']] + [INT[x] for x in a['integ']] + [PRF[x] for x in a['prf']] + [(4, int(x), None) for x in a['dh']]
        ike_b = [ENC[x] for x in b['encr']] + [INT[x] for x in b['integ']] + [PRF[x] for x in b['prf']] + [(4, int(x), None) for x in b['dh']]
        ch_a = [ENC[x] for x in a['cenc']] + [INT[x] for x in a['cint']] + [(4, int(x), None) for x in a['cdh']] + [(5, 0, None)]
        ch_b = [ENC[x] for x in b['cenc']] + [INT[x] for x in b['cint']] + [(4, int(x), None) for x in b['cdh']] + [(5, 0, None)]
        nodh = lambda l: [t for t in l if t[0] != 4]
        rep = {'seed': seed, 'conf': {x: str(y) for x, y in conf.items()}}
        res.evaluations += 1
        res.nontrivial.add(('e2e', repr(sorted(conf.items()))))
        with CP.History(seed, trace=False, **conf) as h:
            h.oracles = [CP.o_no_escape, CP.o_sad_equals_tracked]
            w = h.w
            h.op('acquire', 'A', 8765)
            h.settle(40)
            want_ike = spec_choice(ike_b, ike_a)
            sa_a = next((x for x in w.A.sas() if int(x.state) == 10), None)
            sa_b = next((x for x in w.B.sas() if int(x.state) == 10), None)
            tr = lambda p: [(int(t.type), int(t.id), t.keylen) for t in p.transforms]
            if want_ike is None:
                res.count('e2e:ike-no-common-suite')
                if sa_a or sa_b or w.A.kernel.sad or w.B.kernel.sad:
                    res.fail('e2e-established-without-common-suite', 'IKE_SA established although the offers share no complete suite', rep)
                continue
            if not sa_a or not sa_b:
                res.fail('e2e-compatible-refused', 'IKE offers share the suite %s but no IKE_SA was established: A %s B %s'
                         % (want_ike, [x.state.name for x in w.A.sas()], [x.state.name for x in w.B.sas()]), rep)
                continue
            if sorted(tr(sa_a.chosen_proposal), key=str) != sorted(want_ike, key=str) or sorted(tr(sa_b.chosen_proposal), key=str) != sorted(want_ike, key=str):
                res.fail('e2e-ike-suite', 'IKE_SA suite %s / %s, the specification picks %s' % (tr(sa_a.chosen_proposal), tr(sa_b.chosen_proposal), want_ike), rep)
            res.count('e2e:ike-established')
            # piggy-backed CHILD_SA: no DH transform
            want_c0 = spec_choice(nodh(ch_b), nodh(ch_a))
            kids_b = sa_b.child_sas
            if want_c0 is None:
                if kids_b or sa_a.child_sas:
                    res.fail('e2e-child-without-common-suite', 'CHILD_SA created although the CHILD offers share no suite', rep)
            elif not kids_b or not sa_a.child_sas:
                res.fail('e2e-child-compatible-refused', 'CHILD offers share %s but no CHILD_SA was created with IKE_AUTH' % want_c0, rep)
            elif sorted(tr(kids_b[0].proposal), key=str) != sorted(want_c0, key=str) or sorted(tr(sa_a.child_sas[0].proposal), key=str) != sorted(want_c0, key=str):
                res.fail('e2e-child-suite', 'piggy-backed CHILD_SA suite %s, the specification picks %s' % (tr(kids_b[0].proposal), want_c0), rep)
            # additional CHILD_SA (with PFS when configured): A asks, B's policy decides; then B asks, A's policy decides
            for who, resp_tr, init_tr in (('A', ch_b, ch_a), ('B', ch_a, ch_b)):
                ep, peer = (w.A, w.B) if who == 'A' else (w.B, w.A)
                est = lambda e: next((x for x in e.sas() if int(x.state) == 10), None)
                me, other = est(ep), est(peer)
                if me is None or other is None:
                    break
                n0, m0 = len(me.child_sas), len(other.child_sas)
                h.op('acquire', who, 4000 + k)
                h.settle(40)
                # the responder picks per type of ITS policy; the initiator accepts a suite that has one transform of every
                # type of ITS offer (a responder without PFS answering an offer that demands PFS is refused by the initiator)
                want = spec_choice(resp_tr, init_tr)
                accepted = want is not None and set(t[0] for t in want) == set(t[0] for t in init_tr)
                me, other = est(ep), est(peer)
                res.count('e2e:child-%s' % ('refused' if want is None else 'created' if accepted else 'chosen-but-initiator-refuses'))
                if me is None or other is None:
                    if accepted:
                        res.fail('e2e-child-compatible-refused', 'CHILD offers share %s but the negotiation ended the IKE_SA (requested by %s)' % (want, who), rep)
                    break
                if want is None:
                    if len(other.child_sas) != m0 or len(me.child_sas) != n0:
                        res.fail('e2e-child-without-common-suite', 'CHILD_SA created although the offers share no suite (requested by %s)' % who, rep)
                    continue
                if not accepted:
                    # the initiator refuses the response and has the responder delete what it created: nothing remains
                    if len(me.child_sas) != n0 or len(other.child_sas) != m0:
                        res.fail('e2e-initiator-accepted-incomplete-suite', 'a CHILD_SA remains although the response lacked a transform type the '
                                 'initiator demanded (requested by %s): initiator %d→%d, responder %d→%d'
                                 % (who, n0, len(me.child_sas), m0, len(other.child_sas)), rep)
                    continue
                if len(other.child_sas) != m0 + 1:
                    res.fail('e2e-child-compatible-refused', 'CHILD offers share %s but the responder created no CHILD_SA (requested by %s)' % (want, who), rep)
                elif sorted(tr(other.child_sas[-1].proposal), key=str) != sorted(want, key=str):
                    res.fail('e2e-child-suite', 'responder CHILD_SA suite %s, the specification picks %s (requested by %s)' % (tr(other.child_sas[-1].proposal), want, who), rep)
                if len(me.child_sas) != n0 + 1:
                    res.fail('e2e-child-compatible-refused', 'CHILD offers share %s but the initiator created no CHILD_SA (requested by %s)' % (want, who), rep)
                elif sorted(tr(me.child_sas[-1].proposal), key=str) != sorted(want, key=str):
                    res.fail('e2e-child-suite', 'initiator CHILD_SA suite %s, the specification picks %s (requested by %s)' % (tr(me.child_sas[-1].proposal), want, who), rep)
            for key, what, at in h.findings[:2]:
                res.fail(key, what, dict(rep, ops=S.ser_ops(h.ops[:at + 1])))


def ike_response_shapes(ctx, res):
    """an authentic responder whose IKE_SA_INIT response (and whose answer to an IKE_SA rekey) is not a proper choice from the
    offer: a transform type missing, a transform twice, a foreign transform.  The responder signs what it sent, so AUTH verifies;
    it is the initiator's own validation of the proposal that has to refuse it."""
    import campaign as CP
    import rogue as RG
    import stateful as S
    for where in ('init', 'rekey'):
        for variant in ('drop-dh', 'drop-integ', 'drop-encr', 'drop-prf', 'extra-encr', 'foreign', 'honest'):
            seed = ctx.rng.randrange(1 << 30)
            conf = {'encr': ['aes256', 'aes128'], 'dpd': 3000, 'ike_lifetime': 100 if where == 'rekey' else 5000, 'ike_lifetime_b': 5000}
            with CP.History(seed, trace=ctx.driver is not None, deep=True, **conf) as h:
                h.oracles = [CP.o_no_escape, RG.o_ike_suite_complete]
                w = h.w

                def reshape(p):
                    T = M.Transform
                    if variant.startswith('drop-'):
                        ty = {'dh': 4, 'integ': 3, 'encr': 1, 'prf': 2}[variant[5:]]
                        p.transforms[:] = [t for t in p.transforms if int(t.type) != ty]
                    elif variant == 'extra-encr':
                        p.transforms.append(T(T.Type.ENCR, 12, 128))
                    elif variant == 'foreign':
                        p.transforms[:] = [t for t in p.transforms if int(t.type) != 3] + [T(T.Type.INTEG, 1)]
                rep = {'seed': seed, 'scenario': 'ike-response-shape', 'where': where, 'variant': variant}
                res.evaluations += 1
                res.nontrivial.add(('ike-response', where, variant))
                res.count('ike-response:%s:%s' % (where, variant))
                if where == 'init':
                    h.op('acquire', 'A', 8765)
                    h.op('deliver', w.net[0].id)
                    resp = w.net[0]
                    w.net.clear()
                    m = M.Message.parse(resp.data)
                    reshape(m.get_payload(M.Payload.Type.SA).proposals[0])
                    data = bytes(m.to_bytes())
                    w.B.sas()[0].ike_sa_init_res_data = data
                    h.op('inject', 'A', data, w.ip_b)
                    h.settle(20)
                else:
                    if not h.establish('A'):
                        continue
                    h.op('tick', 106)                   # A starts the IKE_SA rekey
                    a = next((s for s in w.A.sas() if int(s.state) == 13), None)
                    b = RG.pair_of(w, a) if a is not None else None
                    if a is None or b is None:
                        res.count('ike-response:not-reached')
                        continue
                    w.net.clear()
                    sa = next(p for p in a.request.encrypted_payloads if p.type == M.Payload.Type.SA)
                    off = sa.proposals[0]
                    tr, seen = [], set()
                    for t in off.transforms:
                        if t.type not in seen:
                            seen.add(t.type)
                            tr.append(t)
                    p = M.Proposal(off.num, off.protocol_id, ctx.rng.rbytes(8), tr)
                    reshape(p)
                    dh = next((int(t.id) for t in off.transforms if int(t.type) == 4), 19)
                    pl = [M.PayloadSA([p]), M.PayloadNONCE(), M.PayloadKE(dh, RG.Puppet(h, ctx.rng).dh_pub(dh))]
                    h.op('inject', 'A', bytes(RG.protected(b, M.Message.Exchange.CREATE_CHILD_SA, pl, a.my_msg_id, True)), w.ip_b)
                for key, what, at in h.findings[:2]:
                    res.fail(key, what, dict(rep, ops=S.ser_ops(h.ops[:at + 1])))
                if variant == 'honest' and where == 'init' and not any(int(s.state) == 10 for s in w.A.sas()):
                    res.fail('honest-response-refused', 'an unmodified IKE_SA_INIT response was not accepted', rep)
                if h.tr is not None:
                    h.tr.close()
                    S.deep_check(ctx, res, h.tr)


def replay(rep):
    return True, 'see replay file: token renderings of the proposals (num proto spi n (type id keylen)*)'
