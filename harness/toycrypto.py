"""Toy instantiation of the crypto context (mirror of lean/PyIkev2/Model/Toy.lean).  It is handed
to the *real* Message.parse / Message.to_bytes, which only use the duck-typed interface
(cipher.block_size/encrypt/decrypt/generate_iv, integrity.hash_size/compute, sk_e, sk_a)."""


class GeneratedIV(bytes):
    """an IV the library drew itself (Message.__init__), as opposed to one parsed from the wire"""


class ToyCipher:
    def __init__(self, block):
        self.block_size = block

    def _xor(self, iv, data):
        return bytes(b ^ (iv[i % self.block_size] if (i % self.block_size) < len(iv) else 0)
                     for i, b in enumerate(data))

    def encrypt(self, key, iv, data):
        return self._xor(iv, data)

    def decrypt(self, key, iv, data):
        if len(iv) != self.block_size or len(data) % self.block_size != 0:
            raise ValueError('toy cipher: bad iv or data length')
        return self._xor(iv, data)

    def generate_iv(self):
        return GeneratedIV(self.block_size)


class ToyIntegrity:
    def __init__(self, icv):
        self.hash_size = icv

    def compute(self, key, data):
        h = 7
        mod = 256 ** self.hash_size
        for b in bytes(data):
            h = (h * 257 + b + 1) % mod
        return h.to_bytes(self.hash_size, 'big')


class ToyCrypto:
    def __init__(self, block=16, icv=12):
        self.cipher = ToyCipher(block)
        self.integrity = ToyIntegrity(icv)
        self.sk_e = b'e'
        self.sk_a = b'a'
        self.sk_p = b'p'
        self.prf = None
        self.spec = 'toy:%d:%d' % (block, icv)
