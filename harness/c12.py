"""C12 — traffic selectors are only ever narrowed and the mode must match.

Proof: Props/C12.lean.  Correspondence: Impl.tsSubset / getNetwork / fromNetwork / getPort / getIpsecConf (driver) vs
message.TrafficSelector and IkeSa._get_ipsec_configuration.  Oracle: packet-set semantics evaluated exhaustively on a
small universe, network round trips on random IPv4/IPv6 prefixes, narrowing property on the real lookup."""
import itertools
from collections import namedtuple
from ipaddress import ip_address, ip_network, IPv4Address, IPv6Address

import message as M
import ikesa as I
import wire
from runner import Result

LEAN_FILES = ['PyIkev2/Model/Selectors.lean', 'PyIkev2/Proofs/Selectors.lean']
ASSUMPTIONS = ['ipaddress compares two addresses of one version by integer value; supernet() of /0 is /0 (CPython)',
               'kernel selectors are exact only for prefix-aligned ranges (all that from_network produces); a non-aligned '
               'range offered by a foreign peer is widened to the enclosing prefix (observation N3 in DESIGN.md)']

TS = M.TrafficSelector
Conf = namedtuple('Conf', ['protect'])
Prot = namedtuple('Prot', ['my_ts', 'peer_ts', 'mode', 'index'])
Self = namedtuple('Self', ['configuration'])


def mkts(t, proto, sp, ep, lo, hi):
    cls = IPv4Address if t == 7 else IPv6Address
    return TS(t, proto, sp, ep, cls(lo), cls(hi))


def tok(ts):
    return ' '.join(wire.r_sel(ts))


def packets(universe_addrs, ports, protos, fam):
    return [(fam, pr, po, a) for pr in protos for po in ports for a in universe_addrs]


def matches(ts, pkt):
    fam, pr, po, a = pkt
    return (fam == int(ts.ts_type) and (int(ts.ip_proto) == 0 or pr == int(ts.ip_proto))
            and ts.start_port <= po <= ts.end_port and int(ts.start_addr) <= a <= int(ts.end_addr))


def run(ctx):
    res = Result()
    rng = ctx.rng
    res.rule = ('exhaustive: every pair of selectors over 4 addresses x 3 ports x protocols {ANY, TCP, UDP} (both families) '
                'judged by packet-set inclusion; random IPv4/IPv6 ranges; every prefix length network round trip; '
                'TSi/TSr lists of length <= 3 against single- and multi-entry policies; distinct = distinct token line')
    ops, expect = [], []
    # 1. exhaustive small universe, semantic oracle
    addrs = [10, 11, 12, 13]
    ports = [0, 80, 65535]
    protos = [0, 6, 17]
    sels = []
    for fam in (7, 8):
        for pr in protos:
            for sp, ep in itertools.combinations_with_replacement(ports, 2):
                for lo, hi in itertools.combinations_with_replacement(addrs, 2):
                    sels.append(mkts(fam, pr, sp, ep, lo, hi))
    pk = packets(addrs + [9, 14], ports + [1, 81], [6, 17, 1], 7) + packets(addrs, ports, [6, 17, 1], 8)
    pairs = [(a, b) for a in sels for b in sels]
    cap = ctx.scale(20000, 400000)
    exhaustive = len(pairs) <= cap
    if not exhaustive:
        pairs = rng.sample(pairs, cap)
    for a, b in pairs:
        res.evaluations += 1
        got = a.is_subset(b)
        sem = all(matches(b, p) for p in pk if matches(a, p))
        res.nontrivial.add((tok(a), tok(b)))
        res.count('subset:%s' % got)
        if got != sem:
            res.fail('containment-not-inclusion', 'is_subset=%s but packet-set inclusion=%s' % (got, sem), {'a': tok(a), 'b': tok(b)})
        ops.append('tssub %s %s' % (tok(a), tok(b)))
        expect.append('1' if got else '0')
    res.extra['exhaustive_small_universe'] = exhaustive
    # 2. random ranges, both families
    for _ in range(ctx.scale(2000, 50000)):
        fam = rng.choice([7, 8])
        w = 32 if fam == 7 else 128

        def rsel():
            lo, hi = sorted([rng.getrandbits(w), rng.getrandbits(w)]) if rng.random() < 0.5 else \
                (lambda b, k: (b >> k << k, (b >> k << k) + (1 << k) - 1))(rng.getrandbits(w), rng.randrange(0, w + 1))
            sp, ep = sorted([rng.randrange(65536), rng.randrange(65536)]) if rng.random() < 0.5 else (0, 65535)
            return mkts(fam, rng.choice([0, 6, 17, 1]), sp, ep, lo, hi)
        a = rsel()
        b = a if rng.random() < 0.1 else rsel()
        if rng.random() < 0.4:   # make b a widening of a
            b = mkts(fam, rng.choice([0, int(a.ip_proto)]), rng.randrange(0, a.start_port + 1), rng.randrange(a.end_port, 65536),
                     rng.randrange(0, int(a.start_addr) + 1), rng.randrange(int(a.end_addr), 1 << w))
        res.evaluations += 1
        got = a.is_subset(b)
        res.count('subset-random:%s' % got)
        ops.append('tssub %s %s' % (tok(a), tok(b)))
        expect.append('1' if got else '0')
    # 3. network <-> range round trip for every prefix length
    for fam, w in ((7, 32), (8, 128)):
        for plen in range(0, w + 1):
            for _ in range(ctx.scale(2, 20)):
                base = (rng.getrandbits(w) >> (w - plen) << (w - plen)) if plen else 0
                port = rng.choice([0, 0, 23, 500, 65535, rng.randrange(65536)])
                net = ip_network((base, plen)) if fam == 7 else ip_network((base, plen))
                if fam == 8:
                    net = ip_network((IPv6Address(base).packed, plen))
                else:
                    net = ip_network((IPv4Address(base).packed, plen))
                ts = TS.from_network(net, port, TS.IpProtocol.TCP)
                back = ts.get_network()
                res.evaluations += 1
                res.count('network-roundtrip')
                if back != net or ts.get_port() != port:
                    res.fail('network-roundtrip', 'from_network/get_network: %s port %d -> %s port %d' % (net, port, back, ts.get_port()),
                             {'net': str(net), 'port': port})
                ops.append('fromnet %d %d %d %d' % (w, base, plen, port))
                expect.append('%d %d %d %d' % (int(ts.start_addr), int(ts.end_addr), ts.start_port, ts.end_port))
                ops.append('getnet %d %d %d' % (w, int(ts.start_addr), int(ts.end_addr)))
                expect.append('%d %d' % (int(back.network_address), back.prefixlen))
                ops.append('getport %d %d' % (ts.start_port, ts.end_port))
                expect.append(str(ts.get_port()))
    # arbitrary (non-aligned) ranges: get_network must agree with the model and contain the range
    for _ in range(ctx.scale(500, 10000)):
        fam = rng.choice([7, 8])
        w = 32 if fam == 7 else 128
        k = rng.randrange(0, w + 1)
        lo = rng.getrandbits(w)
        hi = rng.choice([lo, lo ^ rng.getrandbits(k), rng.getrandbits(w)]) if k else lo
        ts = mkts(fam, 0, 0, 65535, lo, hi)
        net = ts.get_network()
        res.evaluations += 1
        if ts.start_addr not in net or ts.end_addr not in net:
            res.fail('network-not-enclosing', 'get_network does not contain the range', {'ts': tok(ts)})
        ops.append('getnet %d %d %d' % (w, lo, hi))
        expect.append('%d %d' % (int(net.network_address), net.prefixlen))
    # 4. responder policy lookup and narrowing
    pool = [s for s in sels if int(s.ts_type) == 7]
    for _ in range(ctx.scale(3000, 60000)):
        tsis = [rng.choice(pool) for _ in range(rng.randrange(1, 4))]
        tsrs = [rng.choice(pool) for _ in range(rng.randrange(1, 4))]
        protect = []
        for i in range(rng.randrange(1, 4)):
            if rng.random() < 0.5:
                my, peer = rng.choice(pool), rng.choice(pool)
            else:  # policy related to the offer: wider or narrower
                my, peer = rng.choice(tsrs), rng.choice(tsis)
                if rng.random() < 0.5:
                    my = mkts(7, 0, 0, 65535, 10, 13)
                if rng.random() < 0.5:
                    peer = mkts(7, 0, 0, 65535, 10, 13)
            protect.append(Prot(my, peer, rng.choice([0, 1]), i))
        me = Self(Conf(protect))
        res.evaluations += 1
        try:
            conf, ctsr, ctsi = I.IkeSa._get_ipsec_configuration(me, M.PayloadTSi(tsis), M.PayloadTSr(tsrs))
            got = '%d %s %s' % (protect.index(conf), tok(ctsr), tok(ctsi))
            res.count('lookup:found')
            ok = (any(ctsi.is_subset(x) for x in tsis) and any(ctsr.is_subset(x) for x in tsrs)
                  and ctsi.is_subset(conf.peer_ts) and ctsr.is_subset(conf.my_ts))
            if not ok:
                res.fail('not-narrowed', 'chosen selectors are not inside both the offer and the policy entry',
                         {'tsi': [tok(x) for x in tsis], 'tsr': [tok(x) for x in tsrs], 'chosen': got})
        except M.TsUnacceptable:
            got = 'none'
            res.count('lookup:TS_UNACCEPTABLE')
        line = 'ipsecconf %d %s %d %s %d %s' % (
            len(tsis), ' '.join(tok(x) for x in tsis), len(tsrs), ' '.join(tok(x) for x in tsrs), len(protect),
            ' '.join('%s %s %d' % (tok(p.my_ts), tok(p.peer_ts), p.mode) for p in protect))
        ops.append(line)
        expect.append(got)
        res.sample({'op': line[:240], 'result': got[:120]}, cap=3)
    if ctx.driver is not None:
        outs = ctx.driver.run(ops)
        for op, want, out in zip(ops, expect, outs):
            if out != want:
                res.mismatch(op[:300], want[:200], out[:200])
        res.extra['model_evaluations'] = len(ops)
    end_to_end(ctx, res)
    after_history(ctx, res)
    import rogue
    # the answers this property is about are given in every run, whatever the random stream does: the first CHILD_SA answers of each
    # session widen a selector (alone, both, or as the first of two with an acceptable one after it) or flip the mode
    forced = [[('widen-ts', 'first-of-two-i'), ('widen-ts', 'first-of-two-r')], [('widen-ts', 'i'), ('widen-ts', 'r')],
              [('widen-ts', 'both'), ('flip-mode', None)], [('widen-ts', 'first-of-two-r'), ('widen-ts', 'first-of-two-i')]]
    rogue.campaign(ctx, res, ctx.scale(10, 200), 50, forced=forced)
    return res


# ---------------------------------------------------------------------------- end to end, through the real handlers

def sel_within(sel, src_ts, dst_ts):
    """packet-set inclusion of a kernel selector (as the model kernel recorded it) in a pair of policy selectors"""
    fam, saddr, pls, daddr, pld, sport, smask, dport, dmask, proto = sel
    def side(addr, pl, port, mask, ts):
        net = ip_network('%s/%d' % (addr, pl), strict=False)
        if int(ts.ts_type) != (7 if net.version == 4 else 8):
            return False
        if not (int(ts.start_addr) <= int(net.network_address) and int(net.broadcast_address) <= int(ts.end_addr)):
            return False
        if mask == 0:
            if not (ts.start_port == 0 and ts.end_port == 65535):
                return False
        elif not (ts.start_port <= port <= ts.end_port):
            return False
        return int(ts.ip_proto) == 0 or int(ts.ip_proto) == proto
    return side(saddr, pls, sport, smask, src_ts) and side(daddr, pld, dport, dmask, dst_ts)


def end_to_end(ctx, res):
    """pairs of connection configurations (mode, protocol, port, subnets of each side) through the real IKE_SA handlers:
    every SA either kernel accepts has the mode of the local policy, a selector inside the local policy and inside the
    peer's policy; a mode mismatch or disjoint policies install nothing anywhere; mirrored configurations do create the
    CHILD_SA; a rekey installs exactly the selectors of the SA it replaces"""
    import campaign as CP
    import stateful as S
    rng = ctx.rng
    A_NETS = [None, '10.1.0.0/16', '10.1.2.0/24', '10.0.0.0/8']
    B_NETS = [None, '10.2.0.0/16', '10.2.3.0/24', '10.0.0.0/8']
    n = ctx.scale(60, 1500)
    for k in range(n):
        # start from mirrored policies and make one or two dimensions differ (fully random pairs are almost always disjoint)
        mode_a = mode_b = rng.choice(['transport', 'tunnel'])
        proto_a = proto_b = rng.choice(['tcp', 'udp', 'any'])
        port_a = port_b = rng.choice([0, 23, 80])
        sa, sb = rng.choice(A_NETS), rng.choice(B_NETS)
        if (sa is None) != (sb is None):
            sa, sb = (sa or '192.168.0.1/32'), (sb or '192.168.0.2/32')
        sa2, sb2 = sa, sb
        if rng.random() < 0.7:
            for dim in rng.sample(['mode', 'proto', 'port', 'neta', 'netb'], rng.choice([1, 1, 2])):
                if dim == 'mode':
                    mode_b = 'tunnel' if mode_a == 'transport' else 'transport'
                elif dim == 'proto':
                    proto_b = rng.choice(['tcp', 'udp', 'any'])
                elif dim == 'port':
                    port_b = rng.choice([0, 23, 80])
                else:
                    if sa is None:
                        sa, sb = sa2, sb2 = '192.168.0.1/32', '192.168.0.2/32'
                    if dim == 'neta':
                        sa2 = rng.choice(A_NETS[1:])
                    else:
                        sb2 = rng.choice(B_NETS[1:])
        conf = {'mode': mode_a, 'mode_b': mode_b, 'ip_proto': proto_a, 'ip_proto_b': proto_b, 'port': port_a, 'port_b': port_b,
                'subnets': (sa, sb), 'subnets_b': (sa2, sb2), 'dpd': 5000, 'ike_lifetime': 5000}
        seed = rng.randrange(1 << 30)
        rep = {'seed': seed, 'conf': {x: str(y) for x, y in conf.items()}}
        res.evaluations += 1
        res.nontrivial.add(('e2e', repr(sorted(conf.items()))))
        with CP.History(seed, trace=False, **conf) as h:
            h.oracles = [CP.o_no_escape, CP.o_sad_equals_tracked]
            w = h.w
            pol = {e.name: list(e.configuration.ike_configurations.values())[0].protect[0] for e in (w.A, w.B)}
            who = rng.choice(['A', 'A', 'B'])
            ep, peer = (w.A, w.B) if who == 'A' else (w.B, w.A)
            P, Q = pol[ep.name], pol[peer.name]
            # the packet that triggers the acquire lies inside the initiator's own policy
            src = str(P.my_ts.start_addr + rng.randrange(int(P.my_ts.end_addr) - int(P.my_ts.start_addr) + 1))
            dst = str(P.peer_ts.start_addr + rng.randrange(int(P.peer_ts.end_addr) - int(P.peer_ts.start_addr) + 1))
            sport = P.my_ts.get_port() or rng.choice([0, 4321])
            pr = int(P.my_ts.ip_proto) or rng.choice([0, 6, 17])
            ev = ep.acquire_event(P.index, src, dst, sport=sport, dport=P.peer_ts.get_port(), proto=pr)
            ep.step(event=ev)
            h.settle(40)
            same_mode = mode_a == mode_b
            # do the policies overlap at all the way the lookup needs (one contains the other, per side)?
            compatible = same_mode and conf['subnets'] == conf['subnets_b'] and proto_a == proto_b and port_a == port_b

            def check_installed(tag):
                for e in (w.A, w.B):
                    mine, theirs = pol[e.name], pol[(w.B if e is w.A else w.A).name]
                    for rec in e.kernel.log:
                        if rec['op'] != 'NEWSA' or rec['err']:
                            continue
                        out = rec['saddr'] == str(e.addrs[0])
                        if rec['mode'] != int(mine.mode):
                            res.fail('e2e-mode-not-policy', '%s: %s installed an SA in mode %d, its policy says %s'
                                     % (tag, e.name, rec['mode'], mine.mode.name), rep)
                        a, b = (mine.my_ts, mine.peer_ts) if out else (mine.peer_ts, mine.my_ts)
                        if not sel_within(rec['sel'], a, b):
                            res.fail('e2e-selector-outside-own-policy', '%s: %s installed selector %s outside its own policy'
                                     % (tag, e.name, rec['sel']), rep)
                        a, b = (theirs.peer_ts, theirs.my_ts) if out else (theirs.my_ts, theirs.peer_ts)
                        if not sel_within(rec['sel'], a, b):
                            res.fail('e2e-selector-outside-peer-policy', "%s: %s installed selector %s outside the peer's policy"
                                     % (tag, e.name, rec['sel']), rep)
            check_installed('initial')
            installed = [rec for e in (w.A, w.B) for rec in e.kernel.log if rec['op'] == 'NEWSA' and not rec['err']]
            if not same_mode:
                res.count('e2e:mode-mismatch')
                if installed:
                    res.fail('e2e-installed-despite-mode-mismatch', 'policies ask for %s / %s and still %d SAs were installed'
                             % (mode_a, mode_b, len(installed)), rep)
            elif compatible:
                res.count('e2e:mirrored')
                kids = [len(x.child_sas) for e in (w.A, w.B) for x in e.sas() if int(x.state) == 10]
                if kids != [1, 1]:
                    res.fail('e2e-mirrored-refused', 'mirrored policies and no CHILD_SA pair: %s' % kids, rep)
            else:
                res.count('e2e:differing-%s' % ('created' if installed else 'refused'))
            # rekey: exactly the selectors of the replaced SA
            me = next((x for x in ep.sas() if int(x.state) == 10 and x.child_sas), None)
            if me is not None:
                old = me.child_sas[0]
                before = {e.name: len(e.kernel.log) for e in (w.A, w.B)}
                old_sels = {e.name: sorted(rec['sel'] for rec in e.kernel.sad.values()) for e in (w.A, w.B)}
                h.op('expire', ep.name, old.inbound_spi, False)
                h.settle(40)
                res.count('e2e:rekey')
                for e in (w.A, w.B):
                    new = sorted(rec['sel'] for rec in e.kernel.log[before[e.name]:] if rec['op'] == 'NEWSA' and not rec['err'])
                    if new and new != old_sels[e.name]:
                        res.fail('e2e-rekey-selectors-changed', '%s: rekey installed selectors %s, the replaced pair had %s'
                                 % (e.name, new, old_sels[e.name]), rep)
                check_installed('rekey')
            for key, what, at in h.findings[:2]:
                res.fail(key, what, dict(rep, ops=S.ser_ops(h.ops[:at + 1])))


def after_history(ctx, res):
    """Narrowing must not depend on what the IKE_SA did before: two nested policies (1: any port, 2: one port), a prefix of earlier
    exchanges (none, CHILD_SA rekey started by the requester / by its peer / twice), then a CHILD_SA for the narrow policy requested by
    either end, whose honest answer is rewritten on the way (with the real keys) to the selectors of the wide policy on one side or
    both.  Whatever is installed then must lie inside what the request proposed."""
    from unittest.mock import patch
    from configuration import Configuration
    from ikesa import IkeSa
    T = M.TrafficSelector
    ip1, ip2 = ip_address('192.168.0.1'), ip_address('192.168.0.2')

    def prot(index, key, port, proto):
        e = {'index': index, 'ip_proto': proto, 'mode': 'transport', 'lifetime': 500, 'ipsec_proto': 'esp', 'encr': ['aes256']}
        e[key] = port
        return e

    for proto in ('tcp', 'udp'):
        for port in (80, 4500):
            for prefix in ('none', 'rekey-own', 'rekey-peer', 'rekey-twice'):
                for who in 'AB':
                    for widen in ('i', 'r', 'both'):
                        rep = {'scenario': 'after-history', 'proto': proto, 'port': port, 'prefix': prefix, 'requester': who, 'widen': widen}
                        res.evaluations += 1
                        res.nontrivial.add(('hist', proto, port, prefix, who, widen))
                        res.count('hist:' + prefix)
                        installed = []
                        try:
                            with patch('xfrm.Xfrm.send_recv'), patch('xfrm.Xfrm.delete_child_sa'), \
                                    patch('xfrm.Xfrm.create_child_sa', side_effect=lambda sa, kid, *a, **k: installed.append((sa, kid))):
                                cd = {'a': {'my_addr': str(ip1), 'peer_addr': str(ip2), 'my_auth': {'id': 'a@x', 'psk': 'k1'},
                                            'peer_auth': {'id': 'b@x', 'psk': 'k2'}, 'dh': ['ecp256'],
                                            'protect': [prot(1, 'peer_port', 0, proto), prot(2, 'peer_port', port, proto)]},
                                      'b': {'my_addr': str(ip2), 'peer_addr': str(ip1), 'my_auth': {'id': 'b@x', 'psk': 'k2'},
                                            'peer_auth': {'id': 'a@x', 'psk': 'k1'}, 'dh': ['ecp256'],
                                            'protect': [prot(1, 'my_port', 0, proto), prot(2, 'my_port', port, proto)]}}
                                conf = Configuration([ip1, ip2], cd)
                                a = IkeSa(is_initiator=True, peer_spi=bytes(8), configuration=conf.get_ike_configuration(ip1, ip2),
                                          my_addr=ip1, peer_addr=ip2)
                                b = IkeSa(is_initiator=False, peer_spi=a.my_spi, configuration=conf.get_ike_configuration(ip2, ip1),
                                          my_addr=ip2, peer_addr=ip1)
                                pr = T.IpProtocol.TCP if proto == 'tcp' else T.IpProtocol.UDP
                                n1, n2 = ip_network('192.168.0.1/32'), ip_network('192.168.0.2/32')

                                def pump(x, y, msg):
                                    for _ in range(12):
                                        if msg is None:
                                            return
                                        msg = y.process_message(msg)
                                        x, y = y, x
                                pump(a, b, a.process_acquire(T.from_network(n1, 0, pr), T.from_network(n2, 0, pr), 1))
                                req, oth = (a, b) if who == 'A' else (b, a)
                                steps = {'none': [], 'rekey-own': [req], 'rekey-peer': [oth], 'rekey-twice': [req, req]}[prefix]
                                for e in steps:
                                    pump(e, oth if e is req else req, e.process_expire(e.child_sas[0].inbound_spi))
                                if not (int(a.state) == int(b.state) == 10 and len(a.child_sas) == len(b.child_sas) == 1):
                                    res.count('hist:setup-incomplete')
                                    continue
                                if who == 'A':
                                    request = a.process_acquire(T.from_network(n1, 0, pr), T.from_network(n2, port, pr), 2)
                                else:
                                    request = b.process_acquire(T.from_network(n2, port, pr), T.from_network(n1, 0, pr), 2)
                                sent = M.Message.parse(request, crypto=req.my_crypto)
                                p_i = sent.get_payload(M.Payload.Type.TSi, True).traffic_selectors
                                p_r = sent.get_payload(M.Payload.Type.TSr, True).traffic_selectors
                                answer = M.Message.parse(oth.process_message(request), crypto=oth.my_crypto)
                                wide_i = T.from_network(n1 if who == 'A' else n2, 0, pr)
                                wide_r = T.from_network(n2 if who == 'A' else n1, 0, pr)
                                for i, pl in enumerate(answer.encrypted_payloads):
                                    if pl.type == M.Payload.Type.TSi and widen in ('i', 'both'):
                                        answer.encrypted_payloads[i] = M.PayloadTSi([wide_i])
                                    elif pl.type == M.Payload.Type.TSr and widen in ('r', 'both'):
                                        answer.encrypted_payloads[i] = M.PayloadTSr([wide_r])
                                del installed[:]
                                req.process_message(answer.to_bytes())
                        except Exception as e:      # the scenario itself, not the property: visible in the evidence, never an alarm
                            res.count('hist:scenario-error:' + type(e).__name__)
                            continue
                        for sa, kid in installed:
                            if sa is req and not (any(kid.tsi.is_subset(x) for x in p_i) and any(kid.tsr.is_subset(x) for x in p_r)):
                                res.fail('widened-answer-installed:after-' + prefix,
                                         '%s, history %s: asked for %s port %d only, the answer widened %s and ports %d-%d / %d-%d were installed'
                                         % (who, prefix, proto, port, widen, kid.tsi.start_port, kid.tsi.end_port, kid.tsr.start_port,
                                            kid.tsr.end_port), rep)
                            elif sa is req:
                                res.count('hist:installed-within-proposal')
                        if not any(sa is req for sa, _ in installed):
                            res.count('hist:refused')


def replay(rep):
    return True, 'see replay file: selectors as tokens (type proto startport endport startaddr endaddr)'
