"""C12 — traffic selectors are only ever narrowed and the mode must match.

Proof: Props/C12.lean.  Correspondence: Impl.tsSubset / getNetwork / fromNetwork / getPort / getIpsecConf (driver) vs
message.TrafficSelector and IkeSa._get_ipsec_configuration.  Oracle: packet-set semantics evaluated exhaustively on a
small universe, network round trips on random IPv4/IPv6 prefixes, narrowing property on the real lookup."""
import itertools
from collections import namedtuple
from ipaddress import ip_address, ip_network, IPv4Address, IPv6Address

import message as M
import ikesa as I
import wire
from runner import Result

LEAN_FILES = ['PyIkev2/Model/Selectors.lean', 'PyIkev2/Proofs/Selectors.lean']
ASSUMPTIONS = ['ipaddress compares two addresses of one version by integer value; supernet() of /0 is /0 (CPython)',
               'kernel selectors are exact only for prefix-aligned ranges (all that from_network produces); a non-aligned '
               'range offered by a foreign peer is widened to the enclosing prefix (observation N3 in DESIGN.md)']

TS = M.TrafficSelector
Conf = namedtuple('Conf', ['protect'])
Prot = namedtuple('Prot', ['my_ts', 'peer_ts', 'mode', 'index'])
Self = namedtuple('Self', ['configuration'])


def mkts(t, proto, sp, ep, lo, hi):
    cls = IPv4Address if t == 7 else IPv6Address
    return TS(t, proto, sp, ep, cls(lo), cls(hi))


def tok(ts):
    return ' '.join(wire.r_sel(ts))


def packets(universe_addrs, ports, protos, fam):
    return [(fam, pr, po, a) for pr in protos for po in ports for a in universe_addrs]


def matches(ts, pkt):
    fam, pr, po, a = pkt
    return (fam == int(ts.ts_type) and (int(ts.ip_proto) == 0 or pr == int(ts.ip_proto))
            and ts.start_port <= po <= ts.end_port and int(ts.start_addr) <= a <= int(ts.end_addr))


def run(ctx):
    res = Result()
    rng = ctx.rng
    res.rule = ('exhaustive: every pair of selectors over 4 addresses x 3 ports x protocols {ANY, TCP, UDP} (both families) '
                'judged by packet-set inclusion; random IPv4/IPv6 ranges; every prefix length network round trip; '
                'TSi/TSr lists of length <= 3 against single- and multi-entry policies; distinct = distinct token line')
    ops, expect = [], []
    # 1. exhaustive small universe, semantic oracle
    addrs = [10, 11, 12, 13]
    ports = [0, 80, 65535]
    protos = [0, 6, 17]
    sels = []
    for fam in (7, 8):
        for pr in protos:
            for sp, ep in itertools.combinations_with_replacement(ports, 2):
                for lo, hi in itertools.combinations_with_replacement(addrs, 2):
                    sels.append(mkts(fam, pr, sp, ep, lo, hi))
    pk = packets(addrs + [9, 14], ports + [1, 81], [6, 17, 1], 7) + packets(addrs, ports, [6, 17, 1], 8)
    pairs = [(a, b) for a in sels for b in sels]
    cap = ctx.scale(20000, 400000)
    exhaustive = len(pairs) <= cap
    if not exhaustive:
        pairs = rng.sample(pairs, cap)
    for a, b in pairs:
        res.evaluations += 1
        got = a.is_subset(b)
        sem = all(matches(b, p) for p in pk if matches(a, p))
        res.nontrivial.add((tok(a), tok(b)))
        res.count('subset:%s' % got)
        if got != sem:
            res.fail('containment-not-inclusion', 'is_subset=%s but packet-set inclusion=%s' % (got, sem), {'a': tok(a), 'b': tok(b)})
        ops.append('tssub %s %s' % (tok(a), tok(b)))
        expect.append('1' if got else '0')
    res.extra['exhaustive_small_universe'] = exhaustive
    # 2. random ranges, both families
    for _ in range(ctx.scale(2000, 50000)):
        fam = rng.choice([7, 8])
        w = 32 if fam == 7 else 128

        def rsel():
            lo, hi = sorted([rng.getrandbits(w), rng.getrandbits(w)]) if rng.random() < 0.5 else \
                (lambda b, k: (b >> k << k, (b >> k << k) + (1 << k) - 1))(rng.getrandbits(w), rng.randrange(0, w + 1))
            sp, ep = sorted([rng.randrange(65536), rng.randrange(65536)]) if rng.random() < 0.5 else (0, 65535)
            return mkts(fam, rng.choice([0, 6, 17, 1]), sp, ep, lo, hi)
        a = rsel()
        b = a if rng.random() < 0.1 else rsel()
        if rng.random() < 0.4:   # make b a widening of a
            b = mkts(fam, rng.choice([0, int(a.ip_proto)]), rng.randrange(0, a.start_port + 1), rng.randrange(a.end_port, 65536),
                     rng.randrange(0, int(a.start_addr) + 1), rng.randrange(int(a.end_addr), 1 << w))
        res.evaluations += 1
        got = a.is_subset(b)
        res.count('subset-random:%s' % got)
        ops.append('tssub %s %s' % (tok(a), tok(b)))
        expect.append('1' if got else '0')
    # 3. network <-> range round trip for every prefix length
    for fam, w in ((7, 32), (8, 128)):
        for plen in range(0, w + 1):
            for _ in range(ctx.scale(2, 20)):
                base = (rng.getrandbits(w) >> (w - plen) << (w - plen)) if plen else 0
                port = rng.choice([0, 0, 23, 500, 65535, rng.randrange(65536)])
                net = ip_network((base, plen)) if fam == 7 else ip_network((base, plen))
                if fam == 8:
                    net = ip_network((IPv6Address(base).packed, plen))
                else:
                    net = ip_network((IPv4Address(base).packed, plen))
                ts = TS.from_network(net, port, TS.IpProtocol.TCP)
                back = ts.get_network()
                res.evaluations += 1
                res.count('network-roundtrip')
                if back != net or ts.get_port() != port:
                    res.fail('network-roundtrip', 'from_network/get_network: %s port %d -> %s port %d' % (net, port, back, ts.get_port()),
                             {'net': str(net), 'port': port})
                ops.append('fromnet %d %d %d %d' % (w, base, plen, port))
                expect.append('%d %d %d %d' % (int(ts.start_addr), int(ts.end_addr), ts.start_port, ts.end_port))
                ops.append('getnet %d %d %d' % (w, int(ts.start_addr), int(ts.end_addr)))
                expect.append('%d %d' % (int(back.network_address), back.prefixlen))
                ops.append('getport %d %d' % (ts.start_port, ts.end_port))
                expect.append(str(ts.get_port()))
    # arbitrary (non-aligned) ranges: get_network must agree with the model and contain the range
    for _ in range(ctx.scale(500, 10000)):
        fam = rng.choice([7, 8])
        w = 32 if fam == 7 else 128
        k = rng.randrange(0, w + 1)
        lo = rng.getrandbits(w)
        hi = rng.choice([lo, lo ^ rng.getrandbits(k), rng.getrandbits(w)]) if k else lo
        ts = mkts(fam, 0, 0, 65535, lo, hi)
        net = ts.get_network()
        res.evaluations += 1
        if ts.start_addr not in net or ts.end_addr not in net:
            res.fail('network-not-enclosing', 'get_network does not contain the range', {'ts': tok(ts)})
        ops.append('getnet %d %d %d' % (w, lo, hi))
        expect.append('%d %d' % (int(net.network_address), net.prefixlen))
    # 4. responder policy lookup and narrowing
    pool = [s for s in sels if int(s.ts_type) == 7]
    for _ in range(ctx.scale(3000, 60000)):
        tsis = [rng.choice(pool) for _ in range(rng.randrange(1, 4))]
        tsrs = [rng.choice(pool) for _ in range(rng.randrange(1, 4))]
        protect = []
        for i in range(rng.randrange(1, 4)):
            if rng.random() < 0.5:
                my, peer = rng.choice(pool), rng.choice(pool)
            else:  # policy related to the offer: wider or narrower
                my, peer = rng.choice(tsrs), rng.choice(tsis)
                if rng.random() < 0.5:
                    my = mkts(7, 0, 0, 65535, 10, 13)
                if rng.random() < 0.5:
                    peer = mkts(7, 0, 0, 65535, 10, 13)
            protect.append(Prot(my, peer, rng.choice([0, 1]), i))
        me = Self(Conf(protect))
        res.evaluations += 1
        try:
            conf, ctsr, ctsi = I.IkeSa._get_ipsec_configuration(me, M.PayloadTSi(tsis), M.PayloadTSr(tsrs))
            got = '%d %s %s' % (protect.index(conf), tok(ctsr), tok(ctsi))
            res.count('lookup:found')
            ok = (any(ctsi.is_subset(x) for x in tsis) and any(ctsr.is_subset(x) for x in tsrs)
                  and ctsi.is_subset(conf.peer_ts) and ctsr.is_subset(conf.my_ts))
            if not ok:
                res.fail('not-narrowed', 'chosen selectors are not inside both the offer and the policy entry',
                         {'tsi': [tok(x) for x in tsis], 'tsr': [tok(x) for x in tsrs], 'chosen': got})
        except M.TsUnacceptable:
            got = 'none'
            res.count('lookup:TS_UNACCEPTABLE')
        line = 'ipsecconf %d %s %d %s %d %s' % (
            len(tsis), ' '.join(tok(x) for x in tsis), len(tsrs), ' '.join(tok(x) for x in tsrs), len(protect),
            ' '.join('%s %s %d' % (tok(p.my_ts), tok(p.peer_ts), p.mode) for p in protect))
        ops.append(line)
        expect.append(got)
        res.sample({'op': line[:240], 'result': got[:120]}, cap=3)
    if ctx.driver is not None:
        outs = ctx.driver.run(ops)
        for op, want, out in zip(ops, expect, outs):
            if out != want:
                res.mismatch(op[:300], want[:200], out[:200])
        res.extra['model_evaluations'] = len(ops)
    return res


def replay(rep):
    return True, 'see replay file: selectors as tokens (type proto startport endport startaddr endaddr)'
