"""Running the real codec under observation: outcome classification, crafted SK datagrams, key contexts."""
import os
import struct
import traceback

import message as M
from common import Timeout, with_watchdog, REPO
from toycrypto import ToyCrypto


def repo_site(tb):
    """innermost frame of the traceback that lies in the repository: 'file.py:qualname'"""
    site = None
    while tb is not None:
        code = tb.tb_frame.f_code
        fn = code.co_filename
        if os.path.dirname(os.path.abspath(fn)) == os.path.abspath(REPO):
            site = '%s:%s' % (os.path.basename(fn), getattr(code, 'co_qualname', code.co_name))
        tb = tb.tb_next
    return site or '?'


def classify(fn, seconds=3.0):
    """returns (tag, value_or_None, site)"""
    try:
        r = with_watchdog(fn, seconds)
        return 'ok', r, None
    except M.InvalidSyntax:
        return 'InvalidSyntax', None, None
    except M.UnsupportedCriticalPayload:
        return 'UnsupportedCriticalPayload', None, None
    except Timeout as ex:
        return 'hang', None, repo_site(ex.__traceback__)
    except struct.error as ex:
        return 'py:struct.error', None, repo_site(ex.__traceback__)
    except Exception as ex:  # noqa
        return 'py:' + type(ex).__name__, None, repo_site(ex.__traceback__)


def real_crypto(keybits=128, integ='sha256', rng=None):
    import crypto as C
    enc = C.Cipher(M.Transform(M.Transform.Type.ENCR, M.Transform.EncrId.ENCR_AES_CBC, keybits))
    iid = {'sha1': M.Transform.IntegId.AUTH_HMAC_SHA1_96, 'sha256': M.Transform.IntegId.AUTH_HMAC_SHA2_256_128,
           'sha512': M.Transform.IntegId.AUTH_HMAC_SHA2_512_256}[integ]
    pid = {'sha1': M.Transform.PrfId.PRF_HMAC_SHA1, 'sha256': M.Transform.PrfId.PRF_HMAC_SHA2_256,
           'sha512': M.Transform.PrfId.PRF_HMAC_SHA2_512}[integ]
    integ_o = C.Integrity(M.Transform(M.Transform.Type.INTEG, iid))
    prf = C.Prf(M.Transform(M.Transform.Type.PRF, pid))
    rb = (lambda n: rng.rbytes(n)) if rng else (lambda n: bytes(range(n)))
    c = C.Crypto(enc, rb(keybits // 8), integ_o, rb(integ_o.key_size), prf, rb(prf.key_size))
    c.spec = None
    return c


def craft_sk(crypto, inner_first, sk_body_wo_icv, first_clear=b'', first_type=46, hdr_fields=None):
    """a datagram whose last payload is SK with the given (already encrypted) body and a *correct* checksum"""
    icv = crypto.integrity.hash_size
    sk_len = 4 + len(sk_body_wo_icv) + icv
    h = hdr_fields or {}
    body = first_clear + bytes([inner_first, 0]) + sk_len.to_bytes(2, 'big') + bytes(sk_body_wo_icv)
    total = 28 + len(body) + icv
    hdr = (h.get('spi_i', bytes(8)) + h.get('spi_r', bytes(8)) +
           bytes([first_type, 0x20, h.get('exch', 37), h.get('flags', 0x08)]) +
           h.get('mid', 0).to_bytes(4, 'big') + total.to_bytes(4, 'big'))
    signed = hdr + body
    return signed + crypto.integrity.compute(crypto.sk_a, signed)


def encrypt_inner(crypto, inner, iv, padlen=None, pad_octet=None):
    """PayloadSK.generate re-implemented (independent of message.py): pad, encrypt"""
    bs = crypto.cipher.block_size
    if padlen is None:
        padlen = bs - (len(inner) % bs) - 1
    clear = bytes(inner) + bytes(padlen) + bytes([padlen if pad_octet is None else pad_octet])
    return bytes(iv) + crypto.cipher.encrypt(crypto.sk_e, bytes(iv), clear)
