"""C07 — encrypted payloads round-trip; checksum = truncated MAC over header..ciphertext; padding; every
modification detected.

Proof: Props/C07.lean.  Correspondence: Impl.encMsg / parseMsg under the toy key context vs the real
Message.to_bytes / parse given the same (duck-typed) context.  Oracle on the real code with AES-CBC/HMAC:
independent MAC and padding recomputation, every byte x bit flip, truncation, extension, other key."""
import hashlib
import hmac

import message as M
import gen_msgs as G
import wire
from realcodec import classify, real_crypto
from runner import Result
from toycrypto import ToyCrypto

LEAN_FILES = ['PyIkev2/Prim.lean', 'PyIkev2/Model/Codec.lean', 'PyIkev2/Proofs/CodecRoundtrip.lean']
ASSUMPTIONS = ['CryptoCtx.Sound: dec(enc(p)) = p and |enc(p)| = |p| on whole blocks, |mac| = negotiated length',
               'c07_tamper_body is conditional on the MAC separating the two byte strings compared '
               '(a 2^-96 .. 2^-256 event otherwise)']
PROTOCOL = ('InvalidSyntax', 'UnsupportedCriticalPayload')
HASH = {'sha1': (hashlib.sha1, 12), 'sha256': (hashlib.sha256, 16), 'sha512': (hashlib.sha512, 32)}


def aes_cbc_decrypt(key, iv, ct):
    from cryptography.hazmat.primitives.ciphers import Cipher, algorithms, modes
    d = Cipher(algorithms.AES(key), modes.CBC(iv)).decryptor()
    return d.update(ct) + d.finalize()


def run(ctx):
    res = Result()
    rng = ctx.rng
    res.rule = ('protected messages of every exchange type with inner chains covering every plaintext length modulo the '
                'block size, under AES-128/256-CBC x HMAC-SHA1-96/SHA256-128/SHA512-256 and the toy context; every '
                'sampled byte x bit flip, truncation, extension, foreign integrity key; distinct = distinct datagram')
    ops, expect = [], []
    suites = [(kb, ig) for kb in (128, 256) for ig in ('sha1', 'sha256', 'sha512')]
    toy = ToyCrypto(16, 12)
    n_per = ctx.scale(3, 20)
    flips = ctx.scale(120, 100000)
    residues = set()
    for si, (kb, ig) in enumerate(suites + [('toy', 'toy')]):
        for rep in range(n_per):
            if kb == 'toy':
                crypto, other = toy, ToyCrypto(16, 12)
                bs, icv = 16, 12
            else:
                crypto = real_crypto(kb, ig, rng)
                other = real_crypto(kb, ig, rng)
                bs, icv = 16, HASH[ig][1]
            # inner chain whose length hits a chosen residue: pad a vendor payload
            want_res = (rep * 5 + si * 3) % bs
            d = G.g_message(rng, encrypted=True, wf=True, block=bs)
            d['exch'] = [35, 36, 37][rep % 3]
            d['payloads'] = []
            if rep % 4 == 0:
                d['enc'] = []          # empty INFORMATIONAL (DPD)
            msg = wire.mk_message(d, crypto)
            try:
                inner_len = len(M.Message._payloads_to_bytes(msg.encrypted_payloads))
                if d['enc']:
                    fill = (want_res - inner_len - 4) % bs
                    d['enc'].append({'ptype': 43, 'kind': 'vendor', 'data': rng.rbytes(fill if fill else bs)})
                    msg = wire.mk_message(d, crypto)
                data = bytes(msg.to_bytes())
            except Exception:
                continue
            res.evaluations += 1
            res.nontrivial.add(hash(data))
            inner = bytes(M.Message._payloads_to_bytes(msg.encrypted_payloads))
            residues.add(len(inner) % bs)
            res.count('suite:%s/%s' % (kb, ig))
            res.sample({'suite': '%s/%s' % (kb, ig), 'exch': d['exch'], 'inner_octets': len(inner), 'datagram': data.hex()[:100]}, cap=4)
            # round trip on the real code
            tag, back, _ = classify(lambda: M.Message.parse(data, crypto=crypto))
            if tag != 'ok' or wire.msg_line(back) != ' '.join(wire.a_msg(d)):
                res.fail('protected-roundtrip', 'parse(to_bytes(m)) under the same keys -> %s' % tag, {'data': data.hex()})
            # correspondence (toy context)
            if kb == 'toy':
                ops.append('enc %s %s' % (toy.spec, ' '.join(wire.a_msg(d))))
                expect.append('ok ' + data.hex())
                ops.append('parse %s 0 %s' % (data.hex(), toy.spec))
                expect.append('ok ' + wire.msg_line(back) if tag == 'ok' else tag)
            else:
                # independent recomputation of checksum and padding
                hfun, n = HASH[ig]
                mac = hmac.new(crypto.sk_a, data[:-n], hfun).digest()[:n]
                if mac != data[-n:]:
                    res.fail('checksum-wrong', 'ICV is not the truncated HMAC over header..ciphertext', {'data': data.hex()})
                # SK payload is the only payload: generic header at 28, IV, ciphertext
                if data[16] != 46:
                    res.fail('clear-payload-emitted', 'first payload of a protected message is %d' % data[16], {'data': data.hex()})
                sk_len = int.from_bytes(data[30:32], 'big')
                if 28 + sk_len != len(data):
                    res.fail('sk-not-last', 'SK payload does not end the datagram', {'data': data.hex()})
                iv, ct = data[32:32 + bs], data[32 + bs:-n]
                pt = aes_cbc_decrypt(crypto.sk_e, iv, ct) if len(ct) % bs == 0 and ct else b''
                if not pt or len(ct) % bs or pt[-1] >= bs or pt[:len(inner)] != inner or len(pt) != len(inner) + pt[-1] + 1:
                    res.fail('padding-wrong', 'plaintext is not inner || pad || padlen on a block boundary',
                             {'data': data.hex(), 'inner': inner.hex()})
            # every modification is detected
            muts = list(G.bit_flips(data, rng, len(data)))
            if len(muts) > flips:
                muts = rng.sample(muts, flips)
            muts += [('hdr16', data[:16] + bytes([v]) + data[17:]) for v in (47, 99, 0, 33, 41)]
            muts += [('trunc', data[:-k]) for k in (1, 2, n if kb != 'toy' else 12, bs)]
            muts += [('extend', data + x) for x in (b'\x00', rng.rbytes(5))]
            for name, mdata in muts:
                res.evaluations += 1
                t2, m2, _ = classify(lambda: M.Message.parse(mdata, crypto=crypto))
                res.count('mutation:' + name.split('@')[0])
                if t2 not in PROTOCOL:
                    res.fail('modification-accepted:' + name.split('@')[0],
                             'datagram modified (%s) -> %s' % (name, t2),
                             {'data': mdata.hex(), 'original': data.hex(), 'suite': '%s/%s' % (kb, ig),
                              'crypto': toy.spec if kb == 'toy' else 'real'})
                if kb == 'toy':
                    ops.append('parse %s 0 %s' % (mdata.hex(), toy.spec))
                    expect.append(t2 if t2 != 'ok' else 'ok ' + wire.msg_line(m2))
            # other integrity key
            t3, _, _ = classify(lambda: M.Message.parse(data, crypto=other if kb != 'toy' else _other_toy()))
            res.evaluations += 1
            if t3 not in PROTOCOL:
                res.fail('foreign-key-accepted', 'message verified under another integrity key -> %s' % t3, {'data': data.hex()})
    res.extra['plaintext_residues_covered'] = sorted(residues)
    if ctx.driver is not None:
        outs = ctx.driver.run(ops)
        for op, want, out in zip(ops, expect, outs):
            if out != want:
                res.mismatch(op[:300], want[:300], out[:300])
        res.extra['model_evaluations'] = len(ops)
    nothing_in_clear_after_init(ctx, res)
    return res


def nothing_in_clear_after_init(ctx, res):
    """every message after IKE_SA_INIT carries all its payloads inside the encrypted payload: checked on every datagram the daemons
    emit in ordinary sessions and when requests of other exchange types reach an IKE_SA that has no keys yet (an initiator still
    waiting for the IKE_SA_INIT response, a responder that has only just been created)"""
    import campaign as CP
    import message as M
    rng = ctx.rng

    def check(w, what, rep):
        for d in w.sent:
            data = d.data
            if len(data) < 28 or data[18] == 34:
                continue
            nxt = data[16]
            if nxt not in (0, 46):
                res.fail('payload-outside-sk', '%s: a datagram of exchange type %d (%d octets) carries payload type %d outside the encrypted payload'
                         % (what, data[18], len(data), nxt), dict(rep, datagram=bytes(data).hex()[:400]))
                return
    # sessions under configurations in which the two ends list the IKE algorithms in opposite orders (what protects a message is the
    # NEGOTIATED suite, not the sender's first choice) and in which every IKE_SA negotiation goes through an INVALID_KE_PAYLOAD round;
    # every protected datagram must be valid for the IKE_SA it addresses at the other end, also on a rekeyed IKE_SA
    import stateful as S
    variants = [{}, {'encr': ['aes128', 'aes256'], 'encr_b': ['aes256', 'aes128'], 'integ': ['sha1', 'sha256'], 'integ_b': ['sha256', 'sha1'],
                     'prf': ['sha1', 'sha256'], 'prf_b': ['sha256', 'sha1']},
                {'integ': ['sha512', 'sha1'], 'integ_b': ['sha1', 'sha512'], 'encr': ['aes256', 'aes128'], 'encr_b': ['aes128']},
                {'dh': ['15', '14'], 'dh_b': ['14'], 'dpd': 1000}, S.CONF_VARIANTS[5], S.CONF_VARIANTS[4]]
    for k in range(ctx.scale(12, 60)):
        seed = rng.randrange(1 << 30)
        conf = variants[k % len(variants)]
        with CP.History(seed, trace=False, **conf) as h:
            h.oracles = [CP.o_emitted_valid_at_peer]
            w = h.w
            rep = {'seed': seed, 'conf': conf, 'scenario': 'ordinary session'}
            h.establish('A' if k % 2 == 0 else 'B')
            for _ in range(20):
                h.random_op()
            h.settle()
            # an IKE_SA rekey started by either end, then a liveness check from each end on whatever IKE_SAs there are
            for ep in (w.A, w.B):
                live = [x for x in ep.sas() if int(x.state) == 10]
                if live and not h.findings:
                    live[0].rekey_ike_sa_at = w.now - 1
                    h.op('tick', 0)
                    h.settle(60)
                for x in [x for x in ep.sas() if int(x.state) == 10]:
                    x.start_dpd_at = w.now - 1
                if not h.findings:
                    h.op('tick', 0)
                    h.settle(60)
            res.evaluations += len(w.sent)
            res.count('clear-check:ordinary-datagrams', len(w.sent))
            res.count('session-conf:%d' % (k % len(variants)))
            check(w, 'ordinary session', rep)
            for key, what, at in h.findings[:2]:
                res.fail(key, what, dict(rep, ops=S.ser_ops(h.ops[:at + 1])))
    for exch in (35, 36, 37):
        for target in ('initiator-waiting', 'fresh-responder'):
            seed = rng.randrange(1 << 30)
            with CP.History(seed, trace=False) as h:
                w = h.w
                rep = {'seed': seed, 'scenario': 'request of exchange type %d to an IKE_SA without keys (%s)' % (exch, target)}
                res.evaluations += 1
                res.nontrivial.add(('no-keys', exch, target))
                res.count('clear-check:no-keys')
                h.op('acquire', 'A', 8765)
                a = w.A.sas()[0]
                w.net.clear()
                if target == 'initiator-waiting':
                    m = M.Message(spi_i=a.my_spi, spi_r=b'\0' * 8, major=2, minor=0, exchange_type=exch, is_response=False,
                                  can_use_higher_version=False, is_initiator=False, message_id=0, payloads=[M.PayloadNONCE()],
                                  encrypted_payloads=[], crypto=None)
                    h.op('inject', 'A', bytes(m.to_bytes()), w.ip_b)
                else:
                    # an IKE_SA_INIT request creates the responder; the very next datagram for it is of another exchange type
                    first = w.sent[0].data
                    h.op('inject', 'B', bytes(first), w.ip_a)
                    b = w.B.sas()[0] if w.B.sas() else None
                    if b is None:
                        continue
                    m = M.Message(spi_i=b.peer_spi, spi_r=b.my_spi, major=2, minor=0, exchange_type=exch, is_response=False,
                                  can_use_higher_version=False, is_initiator=True, message_id=1, payloads=[M.PayloadNONCE()],
                                  encrypted_payloads=[], crypto=None)
                    h.op('inject', 'B', bytes(m.to_bytes()), w.ip_a)
                check(w, rep['scenario'], rep)


def _other_toy():
    t = ToyCrypto(16, 12)
    orig = t.integrity.compute
    t.integrity.compute = lambda key, data: bytes(b ^ 0x5a for b in orig(key, data))
    return t


def replay(rep):
    r = rep['replay']
    data = bytes.fromhex(r['data'])
    if r.get('crypto', '').startswith('toy'):
        tag, _, _ = classify(lambda: M.Message.parse(data, crypto=ToyCrypto(16, 12)))
        return tag in PROTOCOL, 'Message.parse(modified datagram, toy key context) -> %s' % tag
    return True, 'replay of AES/HMAC cases needs the keys of the run (derived from VERIF_SEED); re-run the check with the same seed'
