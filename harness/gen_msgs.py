"""Structured generators: mostly-valid abstract messages over every payload class, and malformed
byte streams derived from authentic messages.  Every choice comes from the Rng passed in."""

KNOWN_TYPES = [33, 34, 35, 36, 39, 40, 41, 42, 43, 44, 45]
NOTIFY_TYPES = [1, 7, 14, 17, 24, 35, 38, 43, 44, 16384, 16390, 16391, 16393, 40000]


def g_transform(rng, wf=True):
    ttype = rng.choice([1, 2, 3, 4, 5, 5, rng.randrange(0, 256)])
    tid = rng.choice([0, 1, 2, 5, 7, 12, 14, 19, 21, rng.randrange(0, 65536)])
    r = rng.random()
    if r < 0.45:
        keylen = None
    elif r < 0.9 or wf:
        keylen = rng.choice([128, 192, 256, rng.randrange(1, 65536)])
    else:
        keylen = 0
    return {'type': ttype, 'id': tid, 'keylen': keylen}


def g_proposal(rng, wf=True):
    return {'num': rng.randrange(0, 256), 'proto': rng.choice([1, 2, 3, rng.randrange(0, 256)]),
            'spi': rng.rbytes(rng.choice([0, 4, 8, 8, rng.randrange(0, 12)])),
            'transforms': [g_transform(rng, wf) for _ in range(rng.choice([1, 1, 2, 3, 4, 6]))]}


def g_sel(rng):
    v4 = rng.random() < 0.6
    n = 4 if v4 else 16
    return {'type': 7 if v4 else 8, 'proto': rng.choice([0, 1, 6, 17, 58, rng.randrange(0, 256)]),
            'sport': rng.randrange(0, 65536), 'eport': rng.randrange(0, 65536),
            'start': rng.rbytes(n), 'end': rng.rbytes(n)}


def g_payload(rng, wf=True, kinds=None):
    pt = rng.choice(kinds or KNOWN_TYPES)
    d = {'ptype': pt}
    if pt == 33:
        props = [g_proposal(rng, wf) for _ in range(rng.choice([1, 1, 2, 3]))]
        if rng.random() < 0.25:
            # the same suite offered again (another number, another SPI, maybe another order): equal as `Proposal`s, distinct on the wire
            import copy
            again = copy.deepcopy(rng.choice(props))
            again['num'] = rng.randrange(1, 250)
            if rng.random() < 0.5 and isinstance(again.get('transforms'), list):
                again['transforms'] = list(reversed(again['transforms']))
            props.insert(rng.randrange(len(props) + 1), again)
        d.update(kind='sa', proposals=props)
    elif pt == 34:
        d.update(kind='ke', group=rng.choice([14, 19, 21, rng.randrange(0, 65536)]), data=rng.rbytes(rng.randrange(0, 80)))
    elif pt in (35, 36):
        d.update(kind='id', id_type=rng.choice([1, 2, 3, 5, 9, 11, rng.randrange(0, 256)]),
                 data=rng.choice([b'alice@example.org', b'bob.example.org', rng.rbytes(4), rng.rbytes(16),
                                  rng.rbytes(rng.randrange(0, 40))]))
    elif pt == 39:
        d.update(kind='auth', method=rng.choice([1, 2, 3, rng.randrange(0, 256)]), data=rng.rbytes(rng.randrange(0, 70)))
    elif pt == 40:
        d.update(kind='nonce', data=rng.rbytes(rng.choice([16, 17, 32, 255, 256, rng.randrange(16, 257)])))
    elif pt == 41:
        d.update(kind='notify', proto=rng.choice([0, 1, 2, 3, rng.randrange(0, 256)]), ntype=rng.choice(NOTIFY_TYPES),
                 spi=rng.rbytes(rng.choice([0, 0, 4, 8])), data=rng.rbytes(rng.choice([0, 2, 32, rng.randrange(0, 50)])))
    elif pt == 42:
        size = rng.choice([0, 4, 4, 8])
        n = rng.choice([0, 1, 1, 2, 5]) if size else rng.choice([0, 0, 1, 3])
        d.update(kind='delete', proto=rng.choice([1, 2, 3]), spis=[rng.rbytes(size) for _ in range(n)])
    elif pt == 43:
        d.update(kind='vendor', data=rng.choice([b'pyikev2-0.1', rng.rbytes(rng.randrange(1, 40))]))
    elif pt in (44, 45):
        d.update(kind='ts', sels=[g_sel(rng) for _ in range(rng.choice([0, 1, 1, 2, 3]))])
    return d


def g_header(rng):
    return {'spi_i': rng.rbytes(8), 'spi_r': rng.choice([bytes(8), rng.rbytes(8)]),
            'major': rng.choice([2, 2, 2, rng.randrange(0, 16)]), 'minor': rng.choice([0, 0, rng.randrange(0, 16)]),
            'exch': rng.choice([34, 35, 36, 37, rng.randrange(0, 256)]),
            'resp': rng.random() < 0.5, 'higher': rng.random() < 0.2, 'init': rng.random() < 0.5,
            'mid': rng.choice([0, 1, 2, rng.randrange(0, 2 ** 32)])}


def g_message(rng, encrypted=False, wf=True, block=16):
    d = g_header(rng)
    n = rng.choice([0, 1, 2, 3, 4, 6])
    ps = [g_payload(rng, wf) for _ in range(n)]
    if encrypted:
        d['payloads'] = [g_payload(rng, wf) for _ in range(rng.choice([0, 0, 0, 1]))]
        d['enc'] = ps
        d['iv'] = rng.rbytes(block)
    else:
        d['payloads'] = ps
        d['enc'] = []
        d['iv'] = None
    return d


# ----------------------------------------------------------------- malformed streams

LEN_VALUES = [0, 1, 2, 3, 4, 5, 0xFFFF]


def truncations(data, rng, cap):
    n = len(data)
    idx = list(range(n))
    if len(idx) > cap:
        idx = sorted(rng.sample(idx, cap))
    for i in idx:
        yield ('trunc', data[:i])


def length_mutations(data, rng, cap, start=28):
    """every 16-bit field position gets the interesting length values (and exact±1 of what is there)"""
    pos = list(range(start, max(start, len(data) - 1)))
    if len(pos) > cap:
        pos = sorted(rng.sample(pos, cap))
    for p in pos:
        cur = (data[p] << 8) | data[p + 1]
        for v in LEN_VALUES + [(cur + 1) & 0xFFFF, (cur - 1) & 0xFFFF]:
            if v != cur:
                yield ('len@%d=%d' % (p, v), data[:p] + bytes([v >> 8, v & 0xFF]) + data[p + 2:])


def type_mutations(data, rng, cap, start=16):
    """next-payload / type octets: every position gets known, unknown and critical-looking values"""
    pos = list(range(start, len(data)))
    if len(pos) > cap:
        pos = sorted(rng.sample(pos, cap))
    for p in pos:
        for v in (0, 33, 41, 42, 46, 47, 99, 0x80 | 99, 255):
            if v != data[p]:
                yield ('byte@%d=%d' % (p, v), data[:p] + bytes([v]) + data[p + 1:])


def bit_flips(data, rng, cap):
    pos = list(range(len(data)))
    if len(pos) > cap:
        pos = sorted(rng.sample(pos, cap))
    for p in pos:
        bit = 1 << rng.randrange(8)
        yield ('flip@%d' % p, data[:p] + bytes([data[p] ^ bit]) + data[p + 1:])


def random_datagrams(rng, n):
    for _ in range(n):
        ln = rng.choice([0, 1, 27, 28, 29, 32, 36, 40, rng.randrange(0, 300)])
        d = bytearray(rng.rbytes(ln))
        if ln >= 28 and rng.random() < 0.8:
            d[16] = rng.choice([0, 33, 34, 35, 39, 40, 41, 42, 43, 44, 46, 99, 200])
            d[17] = 0x20
            d[18] = rng.choice([34, 35, 36, 37])
        if ln >= 32 and rng.random() < 0.7:
            d[28] = rng.choice([0, 0, 33, 41, 46, 99])
            d[29] = rng.choice([0, 0, 0x80])
            rest = ln - 28
            v = rng.choice([0, 1, 3, 4, rest, rest, rest - 1, rest + 1, 0xFFFF])
            d[30], d[31] = (v >> 8) & 0xFF, v & 0xFF
        yield ('random', bytes(d))


def handcrafted():
    """small adversarial datagrams at each nesting level"""
    hdr = lambda first, total=0: bytes(8) + bytes(8) + bytes([first, 0x20, 34, 0x08]) + bytes(4) + total.to_bytes(4, 'big')
    out = []
    for first in (99, 200, 47):
        for nxt in (99, 200, 0, 33, 46):
            for ln in (0, 1, 2, 3, 4, 5):
                out.append(('chain first=%d next=%d len=%d' % (first, nxt, ln), hdr(first) + bytes([nxt, 0, 0, ln])))
                out.append(('chain-crit first=%d next=%d len=%d' % (first, nxt, ln), hdr(first) + bytes([nxt, 0x80, 0, ln])))
    # SA payload with trailing bytes / short proposal headers
    for tail in (b'', b'\x00', b'\x00\x00', b'\x00\x00\x00', b'\x00\x00\x00\x00', b'\x00\x00\x00\x08\x01\x01\x00\x00'):
        prop = bytes([1, 1, 0, 1]) + bytes([0, 0, 0, 8, 1, 0, 0, 12])
        sa = bytes([0, 0]) + (len(prop) + 4).to_bytes(2, 'big') + prop + tail
        out.append(('sa tail=%s' % tail.hex(), hdr(33) + bytes([0, 0]) + (len(sa) + 4).to_bytes(2, 'big') + sa))
    # proposal / transform / attribute length fields
    for ln in (0, 1, 3, 4, 5, 7, 8, 9, 0xFFFF):
        prop = bytes([1, 1, 0, 1]) + bytes([0, 0]) + ln.to_bytes(2, 'big') + bytes([1, 0, 0, 12, 0x80, 14, 0, 128])
        sa = bytes([0, 0]) + (len(prop) + 4).to_bytes(2, 'big') + prop
        out.append(('transform len=%d' % ln, hdr(33) + bytes([0, 0]) + (len(sa) + 4).to_bytes(2, 'big') + sa))
        sa2 = bytes([0, 0]) + ln.to_bytes(2, 'big') + prop
        out.append(('proposal len=%d' % ln, hdr(33) + bytes([0, 0]) + (len(sa2) + 4).to_bytes(2, 'big') + sa2))
        ts = bytes([1, 0, 0, 0]) + bytes([7, 6]) + ln.to_bytes(2, 'big') + bytes([0, 0, 255, 255]) + bytes(8)
        out.append(('ts sel len=%d' % ln, hdr(44) + bytes([0, 0]) + (len(ts) + 4).to_bytes(2, 'big') + ts))
        dl = bytes([3, 4]) + ln.to_bytes(2, 'big') + bytes(8)
        out.append(('delete n=%d' % ln, hdr(42) + bytes([0, 0]) + (len(dl) + 4).to_bytes(2, 'big') + dl))
    # transform attributes in the variable-length (TLV, AF bit clear) format: every type / length / value size, before and after Key Length
    for atype in (1, 14, 15, 0x7fff):
        for alen in (0, 1, 2, 3, 4, 5, 8, 0xFFFF):
            for vlen in (0, 1, 4, 8):
                for klpos in ('none', 'after', 'before'):
                    tlv = atype.to_bytes(2, 'big') + alen.to_bytes(2, 'big') + bytes(range(1, vlen + 1))
                    kl = bytes([0x80, 14, 0, 128])
                    attrs = {'none': tlv, 'after': tlv + kl, 'before': kl + tlv}[klpos]
                    tr = bytes([0, 0]) + (8 + len(attrs)).to_bytes(2, 'big') + bytes([1, 0, 0, 12]) + attrs
                    prop = bytes([0, 0]) + (8 + len(tr)).to_bytes(2, 'big') + bytes([1, 1, 0, 1]) + tr
                    sa = prop
                    out.append(('attr-tlv type=%d len=%d value=%d kl=%s' % (atype, alen, vlen, klpos),
                                hdr(33) + bytes([0, 0]) + (len(sa) + 4).to_bytes(2, 'big') + sa))
    return out
