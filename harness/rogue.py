"""An authentic but unusual peer.

The harness owns endpoint B of the two-endpoint world, hence its keys: after a real handshake it stops running B's daemon and
writes B's messages by hand — protected with B's real keys, with the Message ID A expects, but with whatever payloads it likes:
requests nobody sends in practice (a rekey asking for another mode, a second REKEY_SA for a CHILD_SA being deleted, an IKE_SA
rekey while something else is going on, DELETE for foreign SPIs, missing or surplus payloads, other DH groups, widened or
foreign selectors, every error notification) and answers to A's own requests with one deviation from what an honest
responder would say.  A's real handlers run on them inside the real event loop.

Two things are checked on every message:
  * the model: the DeepTracer of the History replays every handler call and every loop iteration on the Lean model
    (`hcall`, `xiter`) — a handler whose uncommon branch differs from the model shows as a correspondence mismatch;
  * the properties, directly on A: kernel SAD = tracked CHILD_SAs (C10); every SA A's kernel accepted has the mode of A's
    policy and a selector inside A's policy (C12) and a suite inside A's policy with one transform per required type (C11);
    nothing an exception could stop (C17); the reply to a colliding request is the one RFC 7296 2.25 prescribes (C09).
"""
import struct
from ipaddress import ip_address, ip_network

import crypto as C
import message as M
import xfrm as X
import campaign as CP
import stateful as S

P = M.Payload.Type
N = M.PayloadNOTIFY.Type
EX = M.Message.Exchange


def est(ep):
    return [s for s in ep.sas() if int(s.state) >= 10 and int(s.state) < 21]


def pair_of(w, a_sa):
    return next((b for b in w.B.sas() if bytes(b.my_spi) == bytes(a_sa.peer_spi)), None)


def protected(b_sa, exch, payloads, msg_id, response):
    m = M.Message(spi_i=b_sa.spi_i, spi_r=b_sa.spi_r, major=2, minor=0, exchange_type=exch, is_response=response,
                  can_use_higher_version=False, is_initiator=b_sa.is_initiator, message_id=msg_id, payloads=[],
                  encrypted_payloads=payloads, crypto=b_sa.my_crypto)
    return m.to_bytes()


class Puppet:
    follow_up = None

    def __init__(self, h, rng):
        self.h, self.w, self.rng = h, h.w, rng
        self.kinds = {}

    def count(self, k):
        self.kinds[k] = self.kinds.get(k, 0) + 1

    # ------------------------------------------------------------------ building blocks
    def a_policy(self):
        return list(self.w.A.configuration.ike_configurations.values())[0].protect[0]

    def a_conf(self):
        return list(self.w.A.configuration.ike_configurations.values())[0]

    def dh_pub(self, group, bad=False):
        if bad:
            return bytes(self.rng.getrandbits(8) for _ in range(self.rng.choice([0, 7, 32, 65])))
        try:
            return C.DiffieHellman.from_group(group).public_key
        except Exception:
            return bytes(64)

    def child_proposal(self, spi=None, variant=None):
        """a proposal in terms of A's CHILD policy, with one deviation"""
        pol = self.a_policy().proposal
        tr = list(pol.transforms)
        r = self.rng
        v = variant if variant is not None else r.choice(['same', 'same', 'same', 'no-dh', 'other-dh', 'drop-integ', 'foreign', 'first-only', 'two-proposals', 'ah'])
        proto = pol.protocol_id
        if v == 'no-dh':
            tr = [t for t in tr if t.type != M.Transform.Type.DH]
        elif v == 'other-dh':
            tr = [t for t in tr if t.type != M.Transform.Type.DH] + [M.Transform(M.Transform.Type.DH, r.choice([14, 19, 20, 21, 2]))]
        elif v == 'drop-integ':
            tr = [t for t in tr if t.type != M.Transform.Type.INTEG]
        elif v == 'foreign':
            tr = tr + [M.Transform(M.Transform.Type.ENCR, 3)]
        elif v == 'first-only':
            seen, out = set(), []
            for t in tr:
                if t.type not in seen:
                    seen.add(t.type)
                    out.append(t)
            tr = out
        elif v == 'ah':
            proto = M.Proposal.Protocol.AH if proto == M.Proposal.Protocol.ESP else M.Proposal.Protocol.ESP
        spi = spi if spi is not None else bytes(r.getrandbits(8) for _ in range(4))
        props = [M.Proposal(1, proto, spi, tr)]
        if v == 'two-proposals':
            props = [M.Proposal(1, proto, spi, [M.Transform(M.Transform.Type.ENCR, 3), M.Transform(M.Transform.Type.INTEG, 1)]),
                     M.Proposal(2, proto, spi, tr)]
        return props, v

    def ts_pair(self, a_sa, kid=None):
        """(TSi, TSr) as B would send them to A (B's view: TSi = B's side = A's peer_ts), with one deviation"""
        pol = self.a_policy()
        r = self.rng
        tsi, tsr = [pol.peer_ts], [pol.my_ts]
        if kid is not None:
            tsi, tsr = [kid.tsr], [kid.tsi]
        v = r.choice(['same', 'same', 'same', 'wider', 'narrow-port', 'other-proto', 'swapped', 'foreign', 'two', 'empty'])
        T = M.TrafficSelector

        def widen(t):
            return T(t.ts_type, T.IpProtocol.ANY, 0, 65535, ip_address(int(t.start_addr) & ~0xffff), ip_address(int(t.start_addr) | 0xffff))
        if v == 'wider':
            which = r.choice(['i', 'r', 'both'])
            if which in ('i', 'both'):
                tsi = [widen(tsi[0])]
            if which in ('r', 'both'):
                tsr = [widen(tsr[0])]
        elif v == 'narrow-port':
            t = tsr[0]
            tsr = [T(t.ts_type, t.ip_proto, 4444, 4444, t.start_addr, t.end_addr)]
        elif v == 'other-proto':
            t = tsi[0]
            tsi = [T(t.ts_type, T.IpProtocol.UDP if int(t.ip_proto) != 17 else T.IpProtocol.TCP, t.start_port, t.end_port, t.start_addr, t.end_addr)]
        elif v == 'swapped':
            tsi, tsr = tsr, tsi
        elif v == 'foreign':
            tsi = [T.from_network(ip_network('172.16.%d.0/24' % r.randrange(200)), 0, T.IpProtocol.ANY)]
        elif v == 'two':
            tsi = [widen(tsi[0])] + tsi
            tsr = tsr + [widen(tsr[0])]
        elif v == 'empty':
            if r.random() < 0.5:
                tsi = []
            else:
                tsr = []
        return tsi, tsr, v

    # ------------------------------------------------------------------ requests to A
    def request_to_a(self, a_sa, b_sa, force=None):
        r = self.rng
        self.last_rekey = None
        if force in ('delete-ike', 'delete-kids'):
            # the follow-up to an answer with an unusual SPI: whatever A tracked because of it must also come out of the kernel again
            if force == 'delete-ike' or not a_sa.child_sas:
                payloads = [M.PayloadDELETE(M.Proposal.Protocol.IKE, [])]
            else:
                payloads = [M.PayloadDELETE(k.proposal.protocol_id, [k.outbound_spi]) for k in a_sa.child_sas]
            self.count('req:follow-up %s' % force)
            try:
                return protected(b_sa, EX.INFORMATIONAL, payloads, a_sa.peer_msg_id, False)
            except Exception:
                return None
        kind = r.choice(['create-child', 'create-child', 'rekey-child', 'rekey-child', 'rekey-ike', 'delete', 'delete', 'dpd', 'garbage-exchange'])
        payloads = []
        exch = EX.CREATE_CHILD_SA
        pol = self.a_policy()
        if kind in ('create-child', 'rekey-child'):
            kid = None
            if kind == 'rekey-child':
                kid = r.choice(a_sa.child_sas) if a_sa.child_sas and r.random() < 0.8 else None
                spi = kid.outbound_spi if kid is not None else bytes(r.getrandbits(8) for _ in range(4))
                if kid is not None and r.random() < 0.15:
                    spi = kid.inbound_spi                   # the wrong one of the pair (A accepts either)
                proto = kid.proposal.protocol_id if kid is not None else pol.proposal.protocol_id
                payloads.append(M.PayloadNOTIFY(proto, N.REKEY_SA, spi, b''))
            props, pv = self.child_proposal()
            tsi, tsr, tv = self.ts_pair(a_sa, kid if (kid is not None and r.random() < 0.8) else None)
            # what a rekey must reproduce: the selectors of the CHILD_SA it names
            self.last_rekey = None if kid is None else {'old': (ts_key(kid.tsi), ts_key(kid.tsr)), 'before': [id(x) for x in a_sa.child_sas]}
            payloads += [M.PayloadTSi(tsi), M.PayloadTSr(tsr), M.PayloadSA(props)]
            dh = next((t.id for t in props[-1].transforms if t.type == M.Transform.Type.DH), None)
            kv = r.choice(['match', 'match', 'match', 'none', 'other-group', 'bad-data'])
            if dh is not None or kv == 'other-group':
                if kv == 'match' and dh is not None:
                    payloads.append(M.PayloadKE(dh, self.dh_pub(dh)))
                elif kv == 'other-group':
                    g = r.choice([14, 19, 20, 21])
                    payloads.append(M.PayloadKE(g, self.dh_pub(g)))
                elif kv == 'bad-data' and dh is not None:
                    payloads.append(M.PayloadKE(dh, self.dh_pub(dh, bad=True)))
            mode_policy = int(pol.mode) == int(X.Mode.TRANSPORT)
            mv = r.choice(['policy', 'policy', 'policy', 'flipped'])
            if (mode_policy and mv == 'policy') or (not mode_policy and mv == 'flipped'):
                payloads.append(M.PayloadNOTIFY(M.Proposal.Protocol.NONE, N.USE_TRANSPORT_MODE))
            if r.random() < 0.9:
                payloads.append(M.PayloadNONCE())
            self.count('req:%s sa=%s ts=%s ke=%s mode=%s' % (kind, pv, tv, kv, mv))
        elif kind == 'rekey-ike':
            conf = self.a_conf()
            tr = list(conf.proposal.transforms)
            v = r.choice(['same', 'same', 'other-dh', 'no-ke', 'no-nonce', 'foreign'])
            if v == 'other-dh':
                tr = [t for t in tr if t.type != M.Transform.Type.DH] + [M.Transform(M.Transform.Type.DH, r.choice([14, 20, 21]))]
            if v == 'foreign':
                tr = [M.Transform(M.Transform.Type.ENCR, 3), M.Transform(M.Transform.Type.PRF, 1)]
            payloads.append(M.PayloadSA([M.Proposal(1, M.Proposal.Protocol.IKE, bytes(r.getrandbits(8) for _ in range(8)), tr)]))
            if v != 'no-nonce':
                payloads.append(M.PayloadNONCE())
            dh = next((t.id for t in tr if t.type == M.Transform.Type.DH), 19)
            if v != 'no-ke':
                payloads.append(M.PayloadKE(dh, self.dh_pub(dh)))
            self.count('req:rekey-ike %s' % v)
        elif kind == 'delete':
            exch = EX.INFORMATIONAL
            v = r.choice(['kid', 'kid', 'kid-wrong-proto', 'unknown', 'ike', 'several', 'other-proto', 'inbound-of-a'])
            kids = list(a_sa.child_sas)
            k = r.choice(kids) if kids else None
            rnd = bytes(r.getrandbits(8) for _ in range(4))
            if v == 'ike':
                payloads.append(M.PayloadDELETE(M.Proposal.Protocol.IKE, []))
            elif v == 'unknown' or k is None:
                payloads.append(M.PayloadDELETE(M.Proposal.Protocol.ESP, [rnd]))
            elif v == 'kid':
                payloads.append(M.PayloadDELETE(k.proposal.protocol_id, [k.outbound_spi]))
            elif v == 'inbound-of-a':
                payloads.append(M.PayloadDELETE(k.proposal.protocol_id, [k.inbound_spi]))
            elif v == 'kid-wrong-proto':
                other = M.Proposal.Protocol.AH if k.proposal.protocol_id == M.Proposal.Protocol.ESP else M.Proposal.Protocol.ESP
                payloads.append(M.PayloadDELETE(other, [k.outbound_spi]))
            elif v == 'several':
                payloads.append(M.PayloadDELETE(k.proposal.protocol_id, [x.outbound_spi for x in kids] + [rnd, k.outbound_spi]))
                payloads.append(M.PayloadDELETE(k.proposal.protocol_id, [k.outbound_spi]))
            else:
                payloads.append(M.PayloadDELETE(M.Proposal.Protocol.NONE, [k.outbound_spi]))
            self.count('req:delete %s' % v)
        elif kind == 'dpd':
            exch = EX.INFORMATIONAL
            self.count('req:dpd')
        else:
            exch = r.choice([EX.IKE_AUTH, EX.IKE_SA_INIT, 38])
            payloads = [M.PayloadNONCE()]
            self.count('req:exchange-%s' % int(exch))
        try:
            return protected(b_sa, exch, payloads, a_sa.peer_msg_id, False)
        except Exception:
            return None

    # ------------------------------------------------------------------ answers to A's outstanding request
    def response_to_a(self, a_sa, b_sa):
        r = self.rng
        req = a_sa.request
        if req is None:
            return None
        exch = req.exchange_type
        st = int(a_sa.state)
        payloads = []
        v = 'plain'
        if exch == EX.INFORMATIONAL:
            v = r.choice(['empty', 'empty', 'echo-delete', 'error', 'foreign-delete'])
            if v == 'echo-delete':
                for p in req.encrypted_payloads:
                    if p.type == P.DELETE and a_sa.deleting_child_sa is not None:
                        payloads.append(M.PayloadDELETE(p.protocol_id, [a_sa.deleting_child_sa.outbound_spi]))
            elif v == 'error':
                payloads.append(M.PayloadNOTIFY(M.Proposal.Protocol.NONE, r.choice([N.INVALID_SYNTAX, N.TEMPORARY_FAILURE, N.CHILD_SA_NOT_FOUND, N.INVALID_SPI])))
            elif v == 'foreign-delete':
                payloads.append(M.PayloadDELETE(M.Proposal.Protocol.ESP, [bytes(r.getrandbits(8) for _ in range(4))]))
        elif exch == EX.CREATE_CHILD_SA:
            sa = next((p for p in req.encrypted_payloads if p.type == P.SA), None)
            is_ike = sa is not None and sa.proposals[0].protocol_id == M.Proposal.Protocol.IKE
            v = r.choice(['honest', 'honest', 'honest', 'error', 'error', 'invalid-ke', 'widen-ts', 'flip-mode', 'bad-sa', 'drop-payload', 'extra-ke'])
            forced_which = None
            if getattr(self, 'forced', None) and not is_ike:
                # answers a check wants to see in every run, whatever the random stream does: (variant, sub-variant)
                v, forced_which = self.forced.pop(0)
            if v == 'error':
                t = r.choice([N.NO_PROPOSAL_CHOSEN, N.TS_UNACCEPTABLE, N.CHILD_SA_NOT_FOUND, N.TEMPORARY_FAILURE, N.NO_ADDITIONAL_SAS,
                              N.INVALID_SYNTAX, N.SINGLE_PAIR_REQUIRED, N.AUTHENTICATION_FAILED])
                payloads.append(M.PayloadNOTIFY(M.Proposal.Protocol.NONE, t))
                v = 'error-%s' % t.name
            elif v == 'invalid-ke':
                g = r.choice([14, 19, 20, 21, 2, 12])
                data = struct.pack('>H', g) if r.random() < 0.85 else b'\x00'
                payloads.append(M.PayloadNOTIFY(M.Proposal.Protocol.NONE, N.INVALID_KE_PAYLOAD, b'', data))
                v = 'invalid-ke-%d' % g
            elif sa is not None:
                offered = sa.proposals[0]
                tr, seen = [], set()
                for t in offered.transforms:
                    if t.type not in seen:
                        seen.add(t.type)
                        tr.append(t)
                if v == 'bad-sa':
                    bv = r.choice(['foreign', 'drop-dh', 'drop-integ', 'two-encr'])
                    if bv == 'foreign':
                        tr = [t for t in tr if t.type != M.Transform.Type.ENCR] + [M.Transform(M.Transform.Type.ENCR, 3)]
                    elif bv == 'drop-dh':
                        tr = [t for t in tr if t.type != M.Transform.Type.DH]
                    elif bv == 'drop-integ':
                        tr = [t for t in tr if t.type != M.Transform.Type.INTEG]
                    else:
                        tr = tr + [t for t in offered.transforms if t.type == M.Transform.Type.ENCR][-1:]
                    v = 'bad-sa-' + bv
                spi_len = 8 if is_ike else 4
                spi = None
                fw = forced_which if (v == 'honest' and isinstance(forced_which, str)) else None
                if fw is not None and fw.startswith('spi-len-'):
                    spi_len = int(fw.split(':')[0][8:])                                           # forced: an SPI of the wrong size ...
                    v = 'spi-len-%d' % spi_len
                    self.follow_up = fw.split(':')[1]                                             # ... followed by that deletion
                elif fw is not None and fw.startswith('spi-same'):
                    spi = bytes(offered.spi)
                    v = 'spi-same-as-yours'
                    self.follow_up = fw.split(':')[1]
                elif v == 'honest' and r.random() < 0.12:
                    spi_len = r.choice([0, 1, 3, 5, 8, 16] if not is_ike else [0, 4, 7, 9])      # an SPI of the wrong size in an otherwise valid answer
                    v = 'spi-len-%d' % spi_len
                    self.follow_up = r.choice(['delete-ike', 'delete-kids'])
                elif v == 'honest' and not is_ike and r.random() < 0.15:
                    spi = bytes(offered.spi)           # the responder picks, for its own direction, the very value the initiator picked for the other
                    v = 'spi-same-as-yours'
                    self.follow_up = r.choice(['delete-ike', 'delete-kids'])
                if spi is None:
                    spi = bytes(r.getrandbits(8) for _ in range(spi_len))
                payloads.append(M.PayloadSA([M.Proposal(offered.num, offered.protocol_id, spi, tr)]))
                payloads.append(M.PayloadNONCE())
                dh = next((t.id for t in tr if t.type == M.Transform.Type.DH), None)
                if dh is not None or v == 'extra-ke':
                    payloads.append(M.PayloadKE(dh or 19, self.dh_pub(dh or 19)))
                if not is_ike:
                    tsi = next((p for p in req.encrypted_payloads if p.type == P.TSi), None)
                    tsr = next((p for p in req.encrypted_payloads if p.type == P.TSr), None)
                    ci, cr = tsi.traffic_selectors[-1], tsr.traffic_selectors[-1]
                    if v == 'widen-ts':
                        T = M.TrafficSelector
                        wide = lambda t: T(t.ts_type, T.IpProtocol.ANY, 0, 65535, ip_address(int(t.start_addr) & ~0xffff), ip_address(int(t.start_addr) | 0xffff))
                        which = forced_which or r.choice(['i', 'r', 'r', 'both', 'first-of-two-i', 'first-of-two-r'])
                        li, lr = [ci], [cr]
                        if which in ('i', 'both'):
                            li = [wide(ci)]
                        if which in ('r', 'both'):
                            lr = [wide(cr)]
                        if which == 'first-of-two-i':          # a wide selector first, an acceptable one after it
                            li = [wide(ci), ci]
                        if which == 'first-of-two-r':
                            lr = [wide(cr), cr]
                        v = 'widen-ts-' + which
                        payloads += [M.PayloadTSi(li), M.PayloadTSr(lr)]
                    else:
                        payloads += [M.PayloadTSi([ci]), M.PayloadTSr([cr])]
                    creating = a_sa.creating_child_sa
                    transport = creating is not None and int(creating.mode) == int(X.Mode.TRANSPORT)
                    if (transport and v != 'flip-mode') or (not transport and v == 'flip-mode'):
                        payloads.append(M.PayloadNOTIFY(M.Proposal.Protocol.NONE, N.USE_TRANSPORT_MODE))
                    rk = next((p for p in req.encrypted_payloads if p.type == P.NOTIFY and p.notification_type == N.REKEY_SA), None)
                    if rk is not None and a_sa.rekeying_child_sa is not None:
                        payloads.insert(0, M.PayloadNOTIFY(rk.protocol_id, N.REKEY_SA, a_sa.rekeying_child_sa.outbound_spi))
                if v == 'drop-payload' and payloads:
                    payloads.pop(r.randrange(len(payloads)))
        else:
            return None
        self.count('resp:%s/%d %s' % (exch.name if hasattr(exch, 'name') else exch, st, v))
        try:
            return protected(b_sa, exch, payloads, a_sa.my_msg_id, True)
        except Exception:
            return None


# ---------------------------------------------------------------------- property oracles on A

def sel_within(sel, src_ts, dst_ts):
    fam, saddr, pls, daddr, pld, sport, smask, dport, dmask, proto = sel

    def side(addr, pl, port, mask, ts):
        net = ip_network('%s/%d' % (addr, pl), strict=False)
        if int(ts.ts_type) != (7 if net.version == 4 else 8):
            return False
        if not (int(ts.start_addr) <= int(net.network_address) and int(net.broadcast_address) <= int(ts.end_addr)):
            return False
        if mask == 0:
            if not (ts.start_port == 0 and ts.end_port == 65535):
                return False
        elif not (ts.start_port <= port <= ts.end_port):
            return False
        return int(ts.ip_proto) == 0 or int(ts.ip_proto) == proto
    return side(saddr, pls, sport, smask, src_ts) and side(daddr, pld, dport, dmask, dst_ts)


def o_installed_within_policy(h):
    """C12 / C11 on A: every SA the kernel accepted since the last call has the policy's mode, a selector inside the policy
    and (looked up through the CHILD_SA that tracks it) a suite inside the policy with one transform per required type"""
    out = []
    w = h.w
    ep = w.A
    pol = list(ep.configuration.ike_configurations.values())[0].protect[0]
    n0 = getattr(h, '_rogue_seen', 0)
    h._rogue_seen = len(ep.kernel.log)
    for rec in ep.kernel.log[n0:]:
        if rec['op'] != 'NEWSA' or rec['err']:
            continue
        outb = rec['saddr'] == str(ep.addrs[0])
        if rec['mode'] != int(pol.mode):
            out.append(('installed-mode-not-policy', 'A installed an SA in mode %d, its policy says %s' % (rec['mode'], pol.mode.name)))
        a, b = (pol.my_ts, pol.peer_ts) if outb else (pol.peer_ts, pol.my_ts)
        if not sel_within(rec['sel'], a, b):
            out.append(('installed-selector-outside-policy', 'A installed selector %s outside its policy' % (rec['sel'],)))
    for s in ep.sas():
        for c in s.child_sas:
            mine = pol.proposal
            have = sorted(set((int(t.type), int(t.id), t.keylen) for t in c.proposal.transforms), key=str)
            allowed = [(int(t.type), int(t.id), t.keylen) for t in mine.transforms]
            if any(t not in allowed for t in have):
                out.append(('installed-suite-outside-policy', 'CHILD_SA suite %s has a transform that is not in the policy %s' % (have, allowed)))
            types = [t[0] for t in have]
            if len(types) != len(set(types)):
                out.append(('installed-suite-two-of-a-type', 'CHILD_SA suite %s has two transforms of one type' % (have,)))
            need = set(t[0] for t in allowed) - {4}
            if not need <= set(types):
                out.append(('installed-suite-incomplete', 'CHILD_SA suite %s lacks a transform type the policy requires' % (have,)))
    return out


def ts_key(t):
    return (int(t.ts_type), int(t.ip_proto), t.start_port, t.end_port, int(t.start_addr), int(t.end_addr))


def o_rekey_keeps_selectors(h):
    """C12 on A as responder: a CHILD_SA created by a CREATE_CHILD_SA request that rekeys an existing CHILD_SA has exactly the
    selectors of the CHILD_SA it replaces (a request that asks for other selectors is refused with TS_UNACCEPTABLE)"""
    rk = getattr(h, '_rogue_rekey', None)
    h._rogue_rekey = None
    if rk is None or h.ops[-1][0] != 'inject':
        return []
    out = []
    for s in h.w.A.sas():
        for c in s.child_sas:
            if id(c) not in rk['before'] and (ts_key(c.tsi), ts_key(c.tsr)) != rk['old']:
                out.append(('rekey-selectors-changed', 'A answered a rekey of a CHILD_SA with selectors %s by installing one with %s'
                            % (rk['old'], (ts_key(c.tsi), ts_key(c.tsr)))))
    return out


def o_ike_suite_complete(h):
    """C11 for IKE_SAs: whoever holds an established IKE_SA chose exactly one transform of each type its own IKE policy requires,
    each of them from that policy"""
    out = []
    for ep in (h.w.A, h.w.B):
        conf = list(ep.configuration.ike_configurations.values())[0]
        allowed = [(int(t.type), int(t.id), t.keylen) for t in conf.proposal.transforms]
        need = sorted(set(t[0] for t in allowed))
        for s in ep.sas():
            if not (10 <= int(s.state) < 21) or s.chosen_proposal is None:
                continue
            # (a suite is a set of transforms, as Proposal.__eq__ has it: the same transform listed twice is one transform)
            have = sorted(set((int(t.type), int(t.id), t.keylen) for t in s.chosen_proposal.transforms), key=str)
            if sorted(t[0] for t in have) != need or any(t not in allowed for t in have):
                out.append(('ike-suite-not-one-per-required-type', '%s holds an established IKE_SA (%s) whose suite %s is not one transform of each '
                            'type of its policy %s' % (ep.name, 'initiator' if s.is_initiator else 'responder', have, allowed)))
    return out


ORACLES = [CP.o_no_escape, CP.o_sad_equals_tracked, o_installed_within_policy, o_rekey_keeps_selectors, o_ike_suite_complete]

VARIANTS = [
    {},
    {'mode': 'tunnel', 'ip_proto': 'any', 'child_dh': ['19']},
    {'child_dh': ['20', '19'], 'dh': ['19', '20']},
    {'ipsec_proto': 'ah', 'child_integ': ['sha1', 'sha256']},
    {'mode': 'tunnel', 'subnets': ('10.1.0.0/16', '10.2.0.0/16')},
]


def campaign(ctx, res, n_hist, n_msgs, oracles=None, deep=True, forced=None):
    """`n_hist` sessions with the puppet; `n_msgs` messages each"""
    rng = ctx.rng
    oracles = oracles or ORACLES
    for k in range(n_hist):
        conf = dict(VARIANTS[k % len(VARIANTS)])
        conf.setdefault('dpd', 3000)
        seed = rng.randrange(1 << 30)
        h = CP.History(seed, trace=ctx.driver is not None, deep=deep, **conf)
        try:
            h.oracles = list(oracles)
            w = h.w
            if not h.establish(rng.choice('AB')):
                continue
            pup = Puppet(h, rng)
            pup.forced = list(forced[k % len(forced)]) if forced else []
            for i in range(n_msgs):
                a_list = est(w.A)
                if not a_list:
                    # the session is gone (most protocol errors end the IKE_SA): start another one with the honest B
                    w.net.clear()
                    for b in list(w.B.controller.ike_sas):
                        w.B.controller.ike_sas.remove(b)
                    w.B.kernel.sad.clear()
                    if h.findings:
                        break                      # something is already wrong: do not paper over it with a fresh session
                    for a in list(w.A.controller.ike_sas):
                        w.A.controller.ike_sas.remove(a)
                    w.A.kernel.sad.clear()
                    if not h.establish('A' if rng.random() < 0.5 else 'B'):
                        break
                    continue
                a_sa = rng.choice(a_list)
                b_sa = pair_of(w, a_sa)
                if b_sa is None or b_sa.my_crypto is None:
                    break
                w.net.clear()
                waiting = int(a_sa.state) in CP.WAITING
                t = rng.random()
                if not waiting and pup.follow_up:
                    force, pup.follow_up = pup.follow_up, None
                    data = pup.request_to_a(a_sa, b_sa, force=force)
                    h._rogue_rekey = None
                elif waiting and t < 0.75:
                    data = pup.response_to_a(a_sa, b_sa)
                elif not waiting and t < 0.3:
                    # make A start something, then answer it
                    kids = list(a_sa.child_sas)
                    c = rng.random()
                    if c < 0.4 or not kids:
                        h.op('acquire', 'A', 4000 + i)
                    elif c < 0.65:
                        h.op('expire', 'A', rng.choice(kids).inbound_spi, False)
                    elif c < 0.75:
                        h.op('expire', 'A', rng.choice(kids).inbound_spi, True)
                    else:
                        h.op('tick', rng.choice([1, 3, 905, 905]))
                    continue
                else:
                    data = pup.request_to_a(a_sa, b_sa)
                    h._rogue_rekey = pup.last_rekey if data is not None else None
                if data is None:
                    continue
                h.op('inject', 'A', bytes(data), w.ip_b)
                res.evaluations += 1
                if rng.random() < 0.3:
                    w.net.clear()
                    h.op('tick', 0.25)
            for kk, n in pup.kinds.items():
                res.count('rogue:' + kk.split(' ')[0], n)
                res.nontrivial.add(('rogue', kk))
            for key, what, at in h.findings[:3]:
                res.fail(key, what, {'seed': seed, 'conf': conf, 'ops': S.ser_ops(h.ops[:at + 1]), 'oracle': key, 'rogue': True})
            if h.tr is not None and deep:
                h.tr.close()
                S.deep_check(ctx, res, h.tr)
        finally:
            h.close()
    return res
