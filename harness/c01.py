"""C01 — peers derive the same keys and install mirror-image IPsec SAs; keys per RFC direction.

Proof: Props/C01.lean (symbolic interpretation of the extracted data flow of create_child_sa / ChildSa(...) for both roles:
mirror images and key direction for ALL agreed values) + C04 (key schedule).  Oracle on the real code: for pairs of
compatible configurations (ENCR key lengths, INTEG, PRF, DH groups with mismatching preference orders, ESP/AH, transport /
tunnel, IPv4/IPv6, PSK/RSA, COOKIE and INVALID_KE_PAYLOAD retries) and sequences of negotiations (initial, additional
CHILD_SA from either end, CHILD_SA rekey with and without PFS, IKE_SA rekey by either end, CHILD_SA under the successor):
after every negotiation both ends hold identical IKE_SA key material, the two kernels hold exactly the same SAs — same
(destination, protocol, SPI), source, mode, family, selectors, algorithm names and key bytes — and every SA from the
exchange initiator to the responder carries the SK_ei / SK_ai of the KEYMAT of that exchange."""
import campaign as CP
import ikesa as IKESA
import stateful as S
from runner import Result

LEAN_FILES = ['PyIkev2/Model/Mirror.lean', 'PyIkev2/Model/Keys.lean']
ASSUMPTIONS = ['DH agreement for ECP groups is OpenSSL\'s (proved for MODP in C04)', 'KEYMAT split = RFC (C04 theorem c04_child_keymat)']


def strip(rec):
    r = dict(rec)
    for k in ('soft', 'hard', 'idx', 'flags', 'err', 'op'):
        r.pop(k, None)
    return r


class KeymatLog:
    """records, per CHILD_SA negotiation, the labelled KEYMAT each role derived (observation only)"""

    def __init__(self):
        self.records = []
        self.role = None
        cls = IKESA.IkeSa
        self.saved = {n: cls.__dict__[n] for n in ('_process_create_child_sa_negotiation_req', '_process_create_child_sa_negotiation_res',
                                                   'generate_child_sa_key_material')}
        me = self

        def wrap_role(name, role):
            fn = self.saved[name]

            def w(sa, *a, **kw):
                old = me.role
                me.role = role
                try:
                    return fn(sa, *a, **kw)
                finally:
                    me.role = old
            setattr(cls, name, w)
        wrap_role('_process_create_child_sa_negotiation_req', 'responder')
        wrap_role('_process_create_child_sa_negotiation_res', 'initiator')
        gk = self.saved['generate_child_sa_key_material']

        def gkw(sa, *a, **kw):
            k = gk(sa, *a, **kw)
            me.records.append((me.role, sa, k))
            return k
        cls.generate_child_sa_key_material = gkw

    def close(self):
        for n, fn in self.saved.items():
            setattr(IKESA.IkeSa, n, fn)


def oracle(h, res, phase, rep, klog):
    w = h.w
    out = []
    # (a) identical IKE_SA key material on both ends of every established IKE_SA
    for a in w.A.sas():
        for b in w.B.sas():
            if bytes(a.my_spi) == bytes(b.peer_spi) and bytes(b.my_spi) == bytes(a.peer_spi) and int(a.state) == 10 and int(b.state) == 10:
                if tuple(a.ike_sa_keyring) != tuple(b.ike_sa_keyring):
                    out.append(('ike-keys-differ:' + phase, 'the two ends of IKE_SA %s hold different SK_* after %s' % (a.my_spi.hex(), phase)))
                ca, cb = a.my_crypto, b.peer_crypto
                if (ca.sk_e, ca.sk_a, ca.sk_p) != (cb.sk_e, cb.sk_a, cb.sk_p):
                    out.append(('ike-direction-keys:' + phase, 'A protects with keys B does not verify with'))
    # (b) the two kernels hold the same SAs
    sa_a = {k: strip(v) for k, v in w.A.kernel.sad.items()}
    sa_b = {k: strip(v) for k, v in w.B.kernel.sad.items()}
    if sa_a != sa_b:
        keys = sorted(set(sa_a) | set(sa_b))
        diffs = []
        for k in keys:
            if k not in sa_a or k not in sa_b:
                diffs.append('%s/%s only in %s' % (k[0], k[2].hex(), 'A' if k in sa_a else 'B'))
            elif sa_a[k] != sa_b[k]:
                fields = [f for f in sa_a[k] if sa_a[k][f] != sa_b[k].get(f)]
                diffs.append('%s/%s differs in %s' % (k[0], k[2].hex(), fields))
        out.append(('not-mirror-images:' + phase, 'after %s the kernels do not hold mirror-image SAs: %s' % (phase, diffs[:4])))
    # (c) direction: the SA from the exchange initiator to the responder carries SK_ei / SK_ai of that exchange's KEYMAT
    for role, sa, k in klog.records:
        ep = w.A if sa in w.A.sas() or any(x.new_ike_sa is sa for x in w.A.sas()) or sa in getattr(h, 'seen_a', []) else w.B
        child = next((c for c in sa.child_sas if True), None)
    for ep in (w.A, w.B):
        for s in ep.sas():
            for c in s.child_sas:
                recs = [(role, k) for role, sa2, k in klog.records if sa2 is s or sa2.new_ike_sa is s or getattr(sa2, 'my_spi', None) == s.my_spi]
                proto = 50 if int(c.proposal.protocol_id) == 3 else 51
                outk = ep.kernel.sad.get((str(s.peer_addr), proto, bytes(c.outbound_spi)))
                ink = ep.kernel.sad.get((str(s.my_addr), proto, bytes(c.inbound_spi)))
                if outk is None or ink is None:
                    continue
                oa, ia = outk['algs'].get(1, (None, None))[1], ink['algs'].get(1, (None, None))[1]
                match = None
                for role, sa2, k in klog.records:
                    if (oa, ia) in ((k.sk_ai, k.sk_ar), (k.sk_ar, k.sk_ai)):
                        match = (role, sa2, k)
                        # the record of THIS endpoint for this child: its role decides the direction
                        if (sa2 is s) or any(sa2 is x for x in getattr(h, 'lineage', {}).get(id(s), [])):
                            break
                if match is None:
                    out.append(('keys-not-from-keymat:' + phase, '%s: CHILD_SA %s carries integrity keys that are no KEYMAT of any negotiation' % (ep.name, c.inbound_spi.hex())))
                    continue
                role, sa2, k = match
                mine = [(r_, k_) for r_, s_, k_ in klog.records if (k_.sk_ai, k_.sk_ar) == (k.sk_ai, k.sk_ar) and owner(h, s_) is ep]
                if not mine:
                    continue
                role = mine[0][0]
                want_out = (k.sk_ei, k.sk_ai) if role == 'initiator' else (k.sk_er, k.sk_ar)
                want_in = (k.sk_er, k.sk_ar) if role == 'initiator' else (k.sk_ei, k.sk_ai)
                got_out = (outk['algs'].get(2, (None, b''))[1] if proto == 50 else b'', oa)
                got_in = (ink['algs'].get(2, (None, b''))[1] if proto == 50 else b'', ia)
                if proto == 51:
                    want_out, want_in = (b'', want_out[1]), (b'', want_in[1])
                if got_out != want_out or got_in != want_in:
                    out.append(('key-direction:' + phase, '%s (%s of the exchange): the outbound SA of CHILD_SA %s does not carry the %s keys of KEYMAT'
                                % (ep.name, role, c.inbound_spi.hex(), 'SK_ei/SK_ai' if role == 'initiator' else 'SK_er/SK_ar')))
    for key, what in out[:3]:
        res.fail(key, what, dict(rep, phase=phase, ops=S.ser_ops(h.ops)))
    return out


def owner(h, sa):
    for ep in (h.w.A, h.w.B):
        if sa.my_addr == ep.addrs[0]:
            return ep
    return None


def scenario(ctx, res, seed, conf, order, label):
    klog = KeymatLog()
    try:
        with CP.History(seed, trace=False, **conf) as h:
            h.oracles = [CP.o_no_escape, CP.o_sad_equals_tracked]
            w = h.w
            rep = {'seed': seed, 'conf': {k: str(v) for k, v in conf.items()}, 'order': order}
            res.evaluations += 1
            res.nontrivial.add((label, tuple(order)))
            first = order[0][1]
            if conf.get('cookie'):
                (w.B if first == 'A' else w.A).controller.cookie_threshold = 0
            h.op('acquire', first, 8765)
            h.settle(60)
            ok = [s for s in w.A.sas() if int(s.state) == 10 and s.child_sas] and [s for s in w.B.sas() if int(s.state) == 10 and s.child_sas]
            if not ok:
                res.fail('negotiation-failed:initial', 'compatible configurations did not establish: A %s B %s (%s)'
                         % ([s.state.name for s in w.A.sas()], [s.state.name for s in w.B.sas()], label), dict(rep, ops=S.ser_ops(h.ops)))
                return
            res.count('negotiation:initial')
            if oracle(h, res, 'initial exchanges', rep, klog):
                return
            for what, who in order[1:]:
                ep = w.A if who == 'A' else w.B
                n_children = sum(len(s.child_sas) for s in ep.sas())
                if what == 'crossing':
                    # both ends start a CREATE_CHILD_SA (new CHILD_SA here, CHILD_SA rekey there) before either is delivered
                    other = w.B if ep is w.A else w.A
                    h.op('acquire', who, 4000 + len(h.ops))
                    kids = [c for s_ in other.sas() if int(s_.state) == 10 for c in s_.child_sas]
                    if kids and len(h.ops) % 2:
                        h.op('expire', other.name, kids[0].inbound_spi, False)
                    else:
                        h.op('acquire', other.name, 4000 + len(h.ops))
                elif what == 'child':
                    h.op('acquire', who, 4000 + len(h.ops))
                elif what == 'rekey-child':
                    kids = [c for s in ep.sas() if int(s.state) == 10 for c in s.child_sas]
                    if not kids:
                        continue
                    h.op('expire', who, kids[-1].inbound_spi, False)
                elif what == 'rekey-ike':
                    sas = [s for s in ep.sas() if int(s.state) == 10]
                    if not sas:
                        continue
                    sas[0].rekey_ike_sa_at = w.now - 1
                    h.op('tick', 0)
                h.settle(60)
                res.count('negotiation:' + what)
                if oracle(h, res, '%s by %s' % (what, who), rep, klog):
                    return
                if what == 'child' and sum(len(s.child_sas) for s in ep.sas()) != n_children + 1:
                    res.fail('negotiation-failed:child', 'additional CHILD_SA requested by %s was not created (%s)' % (who, label),
                             dict(rep, ops=S.ser_ops(h.ops)))
                    return
            for key, what_, at in h.findings[:2]:
                res.fail(key, what_, dict(rep, ops=S.ser_ops(h.ops[:at + 1])))
    finally:
        klog.close()


def asymmetric_policies(ctx, res):
    """the two ends' policies are compatible but not mirror images of each other (one end protects any protocol between hosts, the other TCP
    to one port between wider networks, ...): whatever is negotiated, the two kernels must be given the SAME selector for each SA"""
    rng = ctx.rng
    cases = [
        ({'mode': 'tunnel', 'ip_proto': 'any', 'ip_proto_b': 'tcp', 'port': 0, 'port_b': 23, 'subnets': ('10.1.0.5/32', '10.2.0.9/32'),
          'subnets_b': ('10.1.0.0/16', '10.2.0.9/32')}, ('A', 40000, 23, 6)),
        ({'mode': 'tunnel', 'ip_proto': 'any', 'ip_proto_b': 'udp', 'port': 0, 'port_b': 53, 'subnets': ('10.1.0.0/24', '10.2.0.0/24'),
          'subnets_b': ('10.1.0.0/16', '10.2.0.0/28')}, ('A', 40001, 53, 17)),
        ({'mode': 'tunnel', 'ip_proto': 'tcp', 'ip_proto_b': 'any', 'port': 23, 'port_b': 0, 'subnets': ('10.1.0.0/16', '10.2.0.9/32'),
          'subnets_b': ('10.1.0.5/32', '10.2.0.9/32')}, ('B', 23, 40002, 6)),
        ({'mode': 'transport', 'ip_proto': 'any', 'ip_proto_b': 'tcp', 'port': 0, 'port_b': 23}, ('A', 40003, 23, 6)),
        # host to host / any protocol at one end; TCP to one port from a wider network at the other: neither policy contains the other
        ({'mode': 'transport', 'ip_proto': 'any', 'ip_proto_b': 'tcp', 'port': 0, 'port_b': 23,
          'subnets_b': ('192.168.0.0/24', '192.168.0.2/32')}, ('A', 40005, 23, 6)),
        ({'mode': 'tunnel', 'ip_proto': 'any', 'ip_proto_b': 'tcp', 'port': 0, 'port_b': 23,
          'subnets_b': ('192.168.0.0/24', '192.168.0.2/32')}, ('A', 40006, 23, 6)),
        ({'mode': 'transport', 'ip_proto': 'tcp', 'ip_proto_b': 'any', 'port': 23, 'port_b': 0}, ('A', 40004, 23, 6)),
    ]
    for conf, (who, sport, dport, proto) in cases:
        for first_plain in (False, True):
            seed = rng.randrange(1 << 30)
            klog = KeymatLog()
            try:
                with CP.History(seed, trace=False, **conf) as h:
                    h.oracles = [CP.o_no_escape, CP.o_sad_equals_tracked]
                    rep = {'seed': seed, 'conf': {k: str(v) for k, v in conf.items()}, 'acquire': [who, sport, dport, proto]}
                    res.evaluations += 1
                    res.nontrivial.add(('asymmetric', str(sorted(conf.items())), first_plain))
                    if first_plain:
                        h.op('acquire', who, 8765)                              # the first CHILD_SA from the policy as it is
                        h.settle(60)
                    ep = h.w.A if who == 'A' else h.w.B
                    prot = list(ep.configuration.ike_configurations.values())[0].protect[0]
                    h.op('acquire', who, sport, prot.index, dport, proto)       # ... and one for a packet of one protocol and port
                    h.settle(60)
                    n = sum(len(x.child_sas) for x in h.w.A.sas())
                    res.count('asymmetric-policies:%d-child-sas' % n)
                    if oracle(h, res, 'asymmetric policies', rep, klog):
                        continue
                    for key, what_, at in h.findings[:2]:
                        res.fail(key, what_, dict(rep, ops=S.ser_ops(h.ops[:at + 1])))
            finally:
                klog.close()


def run(ctx):
    res = Result()
    rng = ctx.rng
    res.rule = ('configuration pairs over ENCR {128,256} x INTEG x PRF {sha1,sha256,sha512} x DH groups (ECP and MODP, mismatching '
                'preference orders) x ESP/AH x transport/tunnel x IPv4/IPv6 x PSK/RSA x cookie; per pair a sequence of negotiations '
                '(initial by A or B, additional CHILD_SA from either end, CHILD_SA rekey with/without PFS, IKE_SA rekey by either end, '
                'CHILD_SA under the successor); distinct = distinct (configuration, sequence)')
    encs, hashes = ['aes128', 'aes256'], ['sha1', 'sha256', 'sha512']
    ecp, modp = ['19', '20', '21'], ['14', '15'] if ctx.tier == 'quick' else ['14', '15', '16', '17', '18']
    n = ctx.scale(36, 600)
    for k in range(n):
        dh = rng.sample(ecp, rng.randrange(1, 3)) + (rng.sample(modp, 1) if k % 6 == 0 else [])
        rng.shuffle(dh)
        dh_b = list(dh)
        rng.shuffle(dh_b)
        conf = {'encr': [rng.choice(encs)], 'integ': [rng.choice(hashes)], 'prf': [rng.choice(hashes)], 'dh': dh, 'dh_b': dh_b,
                'child_encr': rng.sample(encs, rng.randrange(1, 3)), 'child_integ': [rng.choice(hashes)],
                'ipsec_proto': rng.choice(['esp', 'esp', 'ah']), 'mode': rng.choice(['transport', 'tunnel']),
                'ip_proto': rng.choice(['tcp', 'udp', 'any']), 'dpd': 5000, 'ike_lifetime': 5000}
        if k % 2:
            cd = rng.sample(ecp, rng.randrange(1, 3))
            conf['child_dh'] = cd
            conf['child_dh_b'] = list(reversed(cd))
        if k % 3 == 1:
            # the two ends list the CHILD_SA algorithms in opposite orders (and with different key lengths)
            conf['child_encr'] = ['aes128', 'aes256'] if k % 2 else ['aes256', 'aes128']
            conf['child_encr_b'] = list(reversed(conf['child_encr']))
            hs = rng.sample(hashes, 2)
            conf['child_integ'], conf['child_integ_b'] = hs, list(reversed(hs))
        if k % 5 == 0:
            conf['rsa'] = True
        if k % 7 == 0:
            conf['cookie'] = True
        if k % 4 == 3:
            conf['ip_a'], conf['ip_b'] = '2001:db8::1', '2001:db8::2'
        if conf['mode'] == 'tunnel' and k % 3 == 0:
            conf['subnets'] = ('10.1.0.0/16', '10.2.0.0/16') if 'ip_a' not in conf else ('2001:db8:a::/64', '2001:db8:b::/64')
        first = rng.choice('AB')
        other = 'B' if first == 'A' else 'A'
        order = [('initial', first)] + rng.sample([('child', first), ('child', other), ('rekey-child', first), ('rekey-child', other),
                                                    ('rekey-ike', first), ('rekey-ike', other), ('crossing', first), ('crossing', other)], rng.randrange(2, 6))
        if any(x[0] == 'rekey-ike' for x in order):
            order += [('child', rng.choice('AB')), ('rekey-child', rng.choice('AB'))]
        label = ' '.join('%s=%s' % (a, b) for a, b in sorted(conf.items()))
        for a, b in conf.items():
            if a in ('ipsec_proto', 'mode', 'rsa', 'cookie'):
                res.count('conf:%s=%s' % (a, b))
        res.count('conf:ipv6' if 'ip_a' in conf else 'conf:ipv4')
        scenario(ctx, res, rng.randrange(1 << 30), conf, order, label)
        if k < 2:
            res.sample({'conf': {a: str(b) for a, b in conf.items()}, 'order': order})
    asymmetric_policies(ctx, res)
    return res


def replay(rep):
    return True, 'see the replay file: configuration pair, negotiation sequence and executed schedule'
