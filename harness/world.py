"""A deterministic two-endpoint world for the stateful checks (C01-C03, C08-C10, C13, C15-C18, C20).

Nothing in /repo is changed: the real `IkeSaController.main_loop`, `IkeSaController`, `IkeSa`, `Xfrm` and codec run
in-process; only what lies *outside* the repository is replaced by library-level stand-ins:

  * `select` / `socket` names inside ikesacontroller  -> scripted readiness, in-memory datagram queues, control socket
  * `Xfrm.send_recv` (the netlink round trip)          -> a model kernel per endpoint (SAD, SPD, programmable refusals)
  * `Xfrm.get_socket`                                  -> queue of kernel events encoded with the ctypes structures
  * `os.urandom`, `message.SystemRandom`, `random` inside ikesa/xfrm/configuration -> one seeded PRNG
  * `time` inside ikesa                                -> a virtual clock

One call of `Endpoint.step(...)` is exactly one iteration of the real event loop (select, at most one datagram, one
kernel event, one control connection, then the three timer sweeps).  Everything the endpoints emit goes to `World.net`;
the caller decides what is delivered, duplicated, dropped or reordered.
"""
import collections
import errno
import json
import logging
import os
import random
import socket as real_socket
import struct
import types
from ipaddress import ip_address, ip_network

import configuration as CONF
import ikesa as IKESA
import ikesacontroller as CTRL
import message as M
import netlink as NL
import xfrm as X

IP_A = ip_address('192.168.0.1')
IP_B = ip_address('192.168.0.2')


class StopLoop(BaseException):
    """raised by the scripted select() to leave main_loop after one iteration"""


class Datagram:
    __slots__ = ('id', 'src', 'dst', 'data', 'sender', 'note')

    def __init__(self, id_, src, dst, data, sender, note=''):
        self.id, self.src, self.dst, self.data, self.sender, self.note = id_, src, dst, bytes(data), sender, note

    def __repr__(self):
        return 'dg#%d %s->%s %dB' % (self.id, self.src, self.dst, len(self.data))


# --------------------------------------------------------------------------- model kernel

class Kernel:
    """SAD keyed as the kernel keys it (daddr, proto, spi); SPD keyed by (selector, dir)."""

    def __init__(self):
        self.sad = {}
        self.spd = {}
        self.log = []          # every request, in order: dict(op=..., ...)
        self.calls = 0
        self.fail_at = set()   # indices of requests the kernel refuses (NetlinkError)
        self.fail_ops = set()  # or: refuse every request of this kind ('NEWSA', ...)
        self.fail_newsa = set()  # ordinals (0, 1, ...) of the NEWSA requests the kernel refuses
        self.newsa_seen = 0

    @staticmethod
    def _sel(s):
        fam = s.family
        return (fam, str(s.saddr.to_ipaddr(fam)), s.prefixlen_s, str(s.daddr.to_ipaddr(fam)), s.prefixlen_d,
                s.sport, s.sport_mask, s.dport, s.dport_mask, s.proto)

    def request(self, payload_type, flags, payload, attributes):
        idx = self.calls
        self.calls += 1
        if payload_type == X.XFRM_MSG_NEWSA:
            fam = payload.family
            key = (str(payload.id.daddr.to_ipaddr(fam)), payload.id.proto, bytes(payload.id.spi))
            rec = {'op': 'NEWSA', 'key': key, 'saddr': str(payload.saddr.to_ipaddr(fam)), 'mode': payload.mode,
                   'sel': self._sel(payload.sel), 'family': fam,
                   'soft': payload.lft.soft_add_expires_seconds, 'hard': payload.lft.hard_add_expires_seconds,
                   'algs': {}}
            for code, a in (attributes or {}).items():
                klen = a.alg_key_len // 8
                rec['algs'][code] = (bytes(a.alg_name).rstrip(b'\0').decode('latin1'), bytes(a.key)[:klen])
        elif payload_type == X.XFRM_MSG_DELSA:
            fam = payload.family
            key = (str(payload.daddr.to_ipaddr(fam)), payload.proto, bytes(payload.spi))
            rec = {'op': 'DELSA', 'key': key}
        elif payload_type == X.XFRM_MSG_NEWPOLICY:
            t = (attributes or {}).get(X.XFRMA_TMPL)
            rec = {'op': 'NEWPOLICY', 'sel': self._sel(payload.sel), 'dir': payload.dir, 'index': payload.index,
                   'action': payload.action,
                   'tmpl': None if t is None else (t.family, str(t.id.daddr.to_ipaddr(t.family)), str(t.saddr.to_ipaddr(t.family)),
                                                   t.id.proto, t.mode)}
        elif payload_type == X.XFRM_MSG_FLUSHSA:
            rec = {'op': 'FLUSHSA'}
        elif payload_type == X.XFRM_MSG_FLUSHPOLICY:
            rec = {'op': 'FLUSHPOLICY'}
        else:
            rec = {'op': 'OTHER:%d' % payload_type}
        rec['idx'] = idx
        rec['flags'] = flags
        refused = idx in self.fail_at or rec['op'] in self.fail_ops
        if rec['op'] == 'NEWSA':
            refused = refused or self.newsa_seen in self.fail_newsa
            self.newsa_seen += 1
        err = None
        if not refused:
            if rec['op'] == 'NEWSA':
                if rec['key'] in self.sad:
                    err = 'EEXIST'
                else:
                    self.sad[rec['key']] = rec
            elif rec['op'] == 'DELSA':
                if rec['key'] not in self.sad:
                    err = 'ESRCH'
                else:
                    del self.sad[rec['key']]
            elif rec['op'] == 'NEWPOLICY':
                k = (rec['sel'], rec['dir'])
                if k in self.spd:
                    err = 'EEXIST'
                else:
                    self.spd[k] = rec
            elif rec['op'] == 'FLUSHSA':
                self.sad.clear()
            elif rec['op'] == 'FLUSHPOLICY':
                self.spd.clear()
        else:
            err = 'INJECTED'
        rec['err'] = err
        self.log.append(rec)
        return err

    def sad_keys(self):
        return sorted(self.sad)


# --------------------------------------------------------------------------- fake sockets

class FakeSock:
    def __init__(self, world, family, kind):
        self.world, self.family, self.kind = world, family, kind
        self.addr = None
        self.opts = []

    def setsockopt(self, *a):
        self.opts.append(a)

    def bind(self, addr):
        self.addr = addr

    def listen(self, *a):
        pass

    def fileno(self):
        return -1

    # UDP
    def recvfrom(self, n):
        ep = self.world.current
        dg = ep.pending_datagram
        ep.pending_datagram = None
        return dg.data[:n], (str(dg.src), 500)

    def sendto(self, data, addr):
        return self.world.emit(self.world.current, ip_address(self.addr[0]), ip_address(addr[0]), data)

    # control
    def accept(self):
        return FakeConn(self.world), ('127.0.0.1', 40000)

    def close(self):
        pass


class FakeConn:
    def __init__(self, world):
        self.world = world

    def recv(self, n):
        return b'status'

    def sendall(self, data):
        self.world.current.status_replies.append(data)

    def close(self):
        pass


ERRNO = {'EEXIST': 17, 'ESRCH': 3, 'INJECTED': 12}


class FakeNlSock:
    """the request socket of NetlinkProtocol.send_recv: decodes the request the daemon really emitted (with the daemon's own
    ctypes structures; their layout is C14's business), applies it to the model kernel and answers with an ack or an error"""

    def __init__(self, world):
        self.world = world
        self.reply = b''

    def send(self, data):
        data = bytes(data)
        hdr = NL.NetlinkHeader.parse(data)
        body = data[16:hdr.length]
        payload, attrs = None, {}
        if hdr.type == X.XFRM_MSG_NEWSA:
            payload = X.XfrmUserSaInfo.parse(body)
            off = X.sizeof_sa if hasattr(X, 'sizeof_sa') else len(bytes(X.XfrmUserSaInfo()))
            while off + 4 <= len(body):
                alen, code = struct.unpack_from('<HH', body, off)
                if alen < 4:
                    break
                attrs[code] = X.XfrmAlgo.parse(body[off + 4:off + alen])
                off += alen
        elif hdr.type == X.XFRM_MSG_DELSA:
            payload = X.XfrmUserSaId.parse(body)
        elif hdr.type == X.XFRM_MSG_NEWPOLICY:
            payload = X.XfrmUserPolicyInfo.parse(body)
            off = len(bytes(X.XfrmUserPolicyInfo()))
            while off + 4 <= len(body):
                alen, code = struct.unpack_from('<HH', body, off)
                if alen < 4:
                    break
                if code == X.XFRMA_TMPL:
                    attrs[code] = X.XfrmUserTmpl.parse(body[off + 4:off + alen])
                off += alen
        elif hdr.type in (X.XFRM_MSG_FLUSHSA, X.XFRM_MSG_FLUSHPOLICY):
            payload = X.XfrmUserSaFlush.parse(body)
        err = self.world.current.kernel.request(hdr.type, hdr.flags, payload, attrs)
        code = -ERRNO.get(err, 22) if err else 0
        self.reply = struct.pack('<IHHIIi', 36, NL.NLMSG_ERROR, 0, hdr.seq, hdr.pid, code) + data[:16]
        return len(data)

    def recv(self, n):
        return self.reply

    def close(self):
        pass

    def bind(self, a):
        pass


class FakeXfrmSock:
    def __init__(self, world):
        self.world = world

    def recv(self, n):
        ep = self.world.current
        ev = ep.pending_event
        ep.pending_event = None
        return ev

    def fileno(self):
        return -2


# --------------------------------------------------------------------------- endpoint

class Endpoint:
    def __init__(self, world, name, addrs, conf_dict):
        self.world, self.name, self.addrs = world, name, list(addrs)
        self.kernel = Kernel()
        self.pending_datagram = None
        self.pending_event = None
        self.status_replies = []
        self.escaped = []        # exceptions that left an entry point
        self.contained = []      # exceptions the loop's catch-all contained (messages)
        self.steps = 0
        self.conf_dict = conf_dict
        world.current = self
        self.configuration = CONF.Configuration(self.addrs, conf_dict)
        self.controller = CTRL.IkeSaController(self.addrs, self.configuration)

    def restart(self):
        """a new incarnation of the daemon on the same (dirty) kernel"""
        self.world.current = self
        self.controller = CTRL.IkeSaController(self.addrs, self.configuration)

    # -- one iteration of the real event loop
    def step(self, datagram=None, event=None, control=False):
        w = self.world
        w.current = self
        self.pending_datagram = datagram
        self.pending_event = event
        self.steps += 1
        state = {'n': 0}

        def fake_select(rl, wl, xl, timeout=None):
            state['n'] += 1
            if state['n'] > 1:
                raise StopLoop()
            ready = []
            for s in rl:
                if isinstance(s, FakeXfrmSock):
                    if event is not None:
                        ready.append(s)
                elif s.kind == real_socket.SOCK_DGRAM:
                    if datagram is not None and s.addr and ip_address(s.addr[0]) == datagram.dst:
                        ready.append(s)
                elif control:
                    ready.append(s)
            return ready, [], []

        CTRL.select = fake_select
        try:
            self.controller.main_loop()
        except StopLoop:
            return True
        except Exception as ex:  # the loop died
            self.escaped.append((type(ex).__name__, str(ex)[:200], _site(ex)))
            return False
        finally:
            self.pending_datagram = None
            self.pending_event = None

    # -- kernel events, encoded with the daemon's own structures (their layout is C14's business)
    def acquire_event(self, index, src_sel, dst_sel, sport=0, dport=0, proto=0, peer=None, me=None, policy_dir=1,
                      raw_index=None):
        me = me or self.addrs[0]
        peer = peer or (self.world.ip_b if me == self.world.ip_a else self.world.ip_a)
        fam = real_socket.AF_INET if me.version == 4 else real_socket.AF_INET6
        sfam = real_socket.AF_INET if ip_address(src_sel).version == 4 else real_socket.AF_INET6
        acq = X.XfrmUserAcquire(
            id=X.XfrmId(daddr=X.XfrmAddress.from_ipaddr(peer)), saddr=X.XfrmAddress.from_ipaddr(me),
            sel=X.XfrmSelector(family=sfam, saddr=X.XfrmAddress.from_ipaddr(ip_address(src_sel)), sport=sport,
                               daddr=X.XfrmAddress.from_ipaddr(ip_address(dst_sel)), dport=dport, proto=proto),
            policy=X.XfrmUserPolicyInfo(index=(index << 3 | policy_dir) if raw_index is None else raw_index, dir=policy_dir))
        tmpl = X.XfrmUserTmpl(family=fam, id=X.XfrmId(daddr=X.XfrmAddress.from_ipaddr(peer)),
                              saddr=X.XfrmAddress.from_ipaddr(me))
        attr = struct.pack('<HH', 4 + len(bytes(tmpl)), X.XFRMA_TMPL) + bytes(tmpl)
        body = bytes(acq) + attr
        return struct.pack('<IHHII', 16 + len(body), X.XFRM_MSG_ACQUIRE, 0, 0, 0) + body

    def expire_event(self, spi, hard, daddr=None):
        daddr = daddr or self.addrs[0]
        fam = real_socket.AF_INET if daddr.version == 4 else real_socket.AF_INET6
        exp = X.XfrmUserExpire(state=X.XfrmUserSaInfo(id=X.XfrmId(spi=X.create_byte_array(spi),
                                                                   daddr=X.XfrmAddress.from_ipaddr(daddr)), family=fam),
                               hard=1 if hard else 0)
        body = bytes(exp)
        return struct.pack('<IHHII', 16 + len(body), X.XFRM_MSG_EXPIRE, 0, 0, 0) + body

    # -- observation
    def sas(self):
        return list(self.controller.ike_sas)

    def snapshot(self):
        return {'sas': [snap_sa(s) for s in self.controller.ike_sas], 'sad': self.kernel.sad_keys(),
                'nl': len(self.kernel.log)}

    def tracked_sad(self):
        """what the SAD should hold, from the CHILD_SAs of the IKE_SAs in the table (and of their pending successors
        are *not* counted: a successor becomes the daemon's only once it is in the table)"""
        keys = set()
        for s in self.controller.ike_sas:
            for c in s.child_sas:
                proto = 50 if int(c.proposal.protocol_id) == 3 else 51
                keys.add((str(s.peer_addr), proto, bytes(c.outbound_spi)))
                keys.add((str(s.my_addr), proto, bytes(c.inbound_spi)))
        return sorted(keys)


def _site(ex):
    tb = ex.__traceback__
    site = '?'
    while tb is not None:
        code = tb.tb_frame.f_code
        if os.path.dirname(os.path.abspath(code.co_filename)) == os.path.abspath(os.path.dirname(IKESA.__file__)):
            site = '%s:%s' % (os.path.basename(code.co_filename), getattr(code, 'co_qualname', code.co_name))
        tb = tb.tb_next
    return site


def snap_sa(s):
    return {
        'my_spi': s.my_spi.hex(), 'peer_spi': bytes(s.peer_spi).hex(), 'init': bool(s.is_initiator), 'state': int(s.state),
        'my_id': s.my_msg_id, 'peer_id': s.peer_msg_id, 'keyed': s.peer_crypto is not None,
        'children': [(c.inbound_spi.hex(), bytes(c.outbound_spi).hex(), int(c.proposal.protocol_id)) for c in s.child_sas],
        'dpd_at': s.start_dpd_at, 'rtx': s.retransmissions, 'rtx_at': s.retransmit_at,
        'rekey_at': s.rekey_ike_sa_at, 'delete_at': s.delete_ike_sa_at,
        'pending': len(s.pending_events), 'has_new': s.new_ike_sa is not None,
        'last_resp': getattr(s, 'last_sent_response_data', None) and bytes(s.last_sent_response_data).hex()[:0] or None,
    }


# --------------------------------------------------------------------------- configurations

RSA_KEYS = {}


def rsa_pair(name):
    """a PEM key pair per identity, generated once per process (1024 bit: speed; the algebra is OpenSSL's)"""
    if name not in RSA_KEYS:
        from cryptography.hazmat.primitives.asymmetric import rsa
        from cryptography.hazmat.primitives import serialization
        k = rsa.generate_private_key(public_exponent=65537, key_size=1024)
        priv = k.private_bytes(serialization.Encoding.PEM, serialization.PrivateFormat.TraditionalOpenSSL, serialization.NoEncryption()).decode()
        pub = k.public_key().public_bytes(serialization.Encoding.PEM, serialization.PublicFormat.SubjectPublicKeyInfo).decode()
        RSA_KEYS[name] = (priv, pub)
    return RSA_KEYS[name]


def default_conf(a=IP_A, b=IP_B, **kw):
    """the two-connection dictionary of the repository's own tests, parameterised; a key with suffix `_b` overrides the
    value for endpoint B only (mismatching preference orders, modes, selectors, credentials)"""

    def side(which):
        g = lambda k, d: kw.get(k + '_b', kw.get(k, d)) if which == 'b' else kw.get(k, d)
        ike = {'dh': g('dh', ['19']), 'integ': g('integ', ['sha256']), 'prf': g('prf', ['sha256']), 'encr': g('encr', ['aes256'])}
        prot = {'ip_proto': g('ip_proto', 'tcp'), 'mode': g('mode', 'transport'), 'lifetime': g('child_lifetime', 300),
                'ipsec_proto': g('ipsec_proto', 'esp'), 'encr': g('child_encr', ['aes256', 'aes128']),
                'integ': g('child_integ', ['sha256'])}
        if g('child_dh', None):
            prot['dh'] = g('child_dh', None)
        return ike, prot, g

    def conn(which, me, peer, my_id, my_psk, peer_id, peer_psk, index, my_port, peer_port, my_sub, peer_sub):
        ike, prot, g = side(which)
        p = dict(prot)
        p.update({'index': index, 'my_port': my_port, 'peer_port': peer_port})
        if my_sub:
            p['my_subnet'] = my_sub
            p['peer_subnet'] = peer_sub
        d = {'my_addr': str(me), 'peer_addr': str(peer), 'my_auth': {'id': my_id, 'psk': my_psk},
             'peer_auth': {'id': peer_id, 'psk': peer_psk}, 'lifetime': g('ike_lifetime', 900), 'dpd': g('dpd', 60),
             'protect': [p]}
        if kw.get('rsa'):
            d['my_auth'] = {'id': my_id, 'privkey': rsa_pair(my_id)[0]}
            d['peer_auth'] = {'id': peer_id, 'pubkey': rsa_pair(peer_id)[1]}
        d.update(ike)
        return d

    sa, sb = kw.get('subnets', (None, None))
    sa2, sb2 = kw.get('subnets_b', (sa, sb))
    port = kw.get('port', 23)
    ca = {'alice': conn('a', a, b, 'alice@openikev2', kw.get('psk_a', 'testing'), 'bob@openikev2', kw.get('psk_b', 'testing2'),
                        kw.get('index_a', 1), 0, port, sa, sb)}
    cb = {'bob': conn('b', b, a, 'bob@openikev2', kw.get('psk_b_own', kw.get('psk_b', 'testing2')), 'alice@openikev2',
                      kw.get('psk_a_seen_by_b', kw.get('psk_a', 'testing')), kw.get('index_b', 2), kw.get('port_b', port), 0, sb2, sa2)}
    return ca, cb


# --------------------------------------------------------------------------- world

class LogCapture(logging.Handler):
    def __init__(self):
        super().__init__(level=logging.DEBUG)
        self.records = []

    def emit(self, record):
        try:
            self.records.append((record.levelno, record.getMessage()))
        except Exception as ex:  # noqa
            self.records.append((record.levelno, 'UNFORMATTABLE %r' % (ex,)))


class World:
    def __init__(self, seed, conf_a=None, conf_b=None, capture_logs=False, **kw):
        self.rnd = random.Random(seed)
        self.now = 1_700_000_000.0
        self.net = []            # datagrams in flight (never removed automatically)
        self.sent = []           # everything ever emitted
        self.next_id = 0
        self.send_calls = 0
        self.send_fail_at = set()
        self.current = None
        self.capture = None
        self._saved = None
        self._install(capture_logs)
        self.ip_a, self.ip_b = ip_address(kw.pop('ip_a', IP_A)), ip_address(kw.pop('ip_b', IP_B))
        if conf_a is None:
            conf_a, conf_b = default_conf(a=self.ip_a, b=self.ip_b, **kw)
        try:
            self.A = Endpoint(self, 'A', [self.ip_a], conf_a)
            self.B = Endpoint(self, 'B', [self.ip_b], conf_b)
        except BaseException:
            self.close()
            raise

    # -- patches (library objects only)
    def _install(self, capture_logs):
        w = self
        self._saved = {
            'urandom': os.urandom, 'SystemRandom': M.SystemRandom, 'ikesa.random': IKESA.random, 'ikesa.time': IKESA.time, 'ikesa.traceback': IKESA.traceback,
            'xfrm.random': X.random, 'conf.random': CONF.random, '_get_socket': X.Xfrm.__dict__.get('_get_socket'),
            'get_socket': X.Xfrm.__dict__.get('get_socket'), 'ctrl.socket': CTRL.socket, 'ctrl.select': CTRL.select, 'ctrl.logging': CTRL.logging,
            'log_disable': logging.root.manager.disable, 'log_level': logging.root.level,
        }
        w.side = random.Random(12345)
        w.use_side = False
        w.forced4 = []       # values for the next 4-byte draws (CHILD_SA SPIs); None = draw as usual

        def urandom(n):
            if n == 4 and not w.use_side and w.forced4:
                v = w.forced4.pop(0)
                if v is not None:
                    return bytes(v)
            return bytes((w.side if w.use_side else w.rnd).getrandbits(8) for _ in range(n))
        os.urandom = urandom
        M.SystemRandom = lambda: w.rnd
        rshim = types.SimpleNamespace(uniform=lambda a, b: round(w.rnd.uniform(a, b) * 1024) / 1024, randint=lambda a, b: w.rnd.randint(a, b))
        IKESA.random = rshim
        X.random = rshim
        CONF.random = rshim
        IKESA.time = types.SimpleNamespace(time=lambda: w.now)
        self._install_dh()
        IKESA.traceback = types.SimpleNamespace(print_exc=lambda *a, **k: None)
        X.Xfrm._get_socket = classmethod(lambda cls, groups: FakeNlSock(w))
        X.Xfrm.get_socket = classmethod(lambda cls: FakeXfrmSock(w))
        shim = types.SimpleNamespace(
            socket=lambda fam=real_socket.AF_INET, kind=real_socket.SOCK_STREAM, *a: FakeSock(w, fam, kind),
            AF_INET=real_socket.AF_INET, AF_INET6=real_socket.AF_INET6, SOCK_DGRAM=real_socket.SOCK_DGRAM,
            SOCK_STREAM=real_socket.SOCK_STREAM, SOL_SOCKET=real_socket.SOL_SOCKET, SO_REUSEADDR=real_socket.SO_REUSEADDR,
            gaierror=real_socket.gaierror, error=real_socket.error, timeout=real_socket.timeout)
        CTRL.socket = shim
        real_logging = logging

        class LogShim:
            def __getattr__(self, name):
                return getattr(real_logging, name)

            def error(self, msg, *a, **k):
                if str(msg).startswith('Unexpected error'):
                    w.current.contained.append(str(msg)[:200])
                return real_logging.error(msg, *a, **k)
        CTRL.logging = LogShim()
        logging.indent = None
        if capture_logs:
            self.capture = LogCapture()
            logging.disable(logging.NOTSET)
            logging.root.setLevel(logging.DEBUG)
            logging.root.addHandler(self.capture)

    def _install_dh(self):
        """Diffie-Hellman private keys from the seeded PRNG (the `dh` / `ec` names inside crypto.py are replaced by proxies of the
        cryptography library objects; the arithmetic stays OpenSSL's), so that a schedule replays octet for octet"""
        import crypto as C
        w = self
        rdh, rec = C.dh, C.ec
        self._saved['crypto.dh'], self._saved['crypto.ec'] = rdh, rec

        class PN:
            def __init__(self, p, g):
                self.real = rdh.DHParameterNumbers(p, g)
                self.p, self.g = p, g

            def parameters(self, backend=None):
                pn = self

                class Params:
                    def generate_private_key(self_inner):
                        x = w.rnd.getrandbits(320) + 2
                        pub = rdh.DHPublicNumbers(pow(pn.g, x, pn.p), pn.real)
                        return rdh.DHPrivateNumbers(x, pub).private_key()
                return Params()
        C.dh = types.SimpleNamespace(DHParameterNumbers=PN, DHPublicNumbers=lambda y, pn: rdh.DHPublicNumbers(y, pn.real))
        C.ec = types.SimpleNamespace(
            generate_private_key=lambda curve, backend=None: rec.derive_private_key(w.rnd.getrandbits(curve.key_size - 2) + 1, curve),
            SECP256R1=rec.SECP256R1, SECP384R1=rec.SECP384R1, SECP521R1=rec.SECP521R1, ECDH=rec.ECDH,
            EllipticCurvePublicNumbers=rec.EllipticCurvePublicNumbers)

    def close(self):
        s = self._saved
        if not s:
            return
        if 'crypto.dh' in s:
            import crypto as C
            C.dh, C.ec = s['crypto.dh'], s['crypto.ec']
        os.urandom = s['urandom']
        M.SystemRandom = s['SystemRandom']
        IKESA.random, IKESA.time = s['ikesa.random'], s['ikesa.time']
        IKESA.traceback = s['ikesa.traceback']
        X.random, CONF.random = s['xfrm.random'], s['conf.random']
        for name, key in (('_get_socket', '_get_socket'), ('get_socket', 'get_socket')):
            if s[key] is None:
                try:
                    delattr(X.Xfrm, name)
                except AttributeError:
                    pass
            else:
                setattr(X.Xfrm, name, s[key])
        CTRL.socket, CTRL.select = s['ctrl.socket'], s['ctrl.select']
        CTRL.logging = s['ctrl.logging']
        if self.capture is not None:
            logging.root.removeHandler(self.capture)
            logging.root.setLevel(s['log_level'])
            logging.disable(s['log_disable'])
        self._saved = None

    def __enter__(self):
        return self

    def __exit__(self, *a):
        self.close()

    # -- network
    def emit(self, sender, src, dst, data):
        idx = self.send_calls
        self.send_calls += 1
        if idx in self.send_fail_at:
            raise OSError(errno.ENETUNREACH, 'Network is unreachable (injected)')
        dg = Datagram(self.next_id, src, dst, data, sender.name)
        self.next_id += 1
        self.net.append(dg)
        self.sent.append(dg)
        return len(data)

    def ep_for(self, addr):
        for ep in (self.A, self.B):
            if addr in ep.addrs:
                return ep
        return None

    def deliver(self, dg, keep=False):
        """hand a datagram to the endpoint that owns its destination address (one loop iteration there)"""
        if not keep and dg in self.net:
            self.net.remove(dg)
        ep = self.ep_for(dg.dst)
        if ep is None:
            return None
        return ep.step(datagram=dg)

    def inject(self, ep, data, src=None):
        dg = Datagram(self.next_id, src or (self.ip_b if ep is self.A else self.ip_a), ep.addrs[0], data, 'X')
        self.next_id += 1
        return ep.step(datagram=dg)

    def tick(self, dt, eps=None):
        """advance the clock and run one idle loop iteration on each endpoint"""
        self.now = round((self.now + dt) * 1024) / 1024
        for ep in (eps or (self.A, self.B)):
            ep.step()

    def drain(self, limit=200, lossless=True):
        """deliver everything in flight, FIFO, until quiet"""
        n = 0
        while self.net and n < limit:
            self.deliver(self.net[0])
            n += 1
        return n

    # -- common scenarios
    def handshake(self, initiator=None, sport=8765, dport=None):
        """ACQUIRE on `initiator` and lossless delivery until quiet; returns True when both are ESTABLISHED"""
        ini = initiator or self.A
        me = ini.addrs[0]
        peer = self.ip_b if me == self.ip_a else self.ip_a
        prot = list(ini.configuration.ike_configurations.values())[0].protect[0]
        ev = ini.acquire_event(prot.index, str(me), str(peer), sport=sport,
                               dport=prot.peer_ts.get_port() if dport is None else dport, proto=int(prot.my_ts.ip_proto))
        ini.step(event=ev)
        self.drain()
        return (len(self.A.sas()) >= 1 and len(self.B.sas()) >= 1
                and all(int(s.state) == 10 for s in self.A.sas() + self.B.sas()))


def status_of(ep):
    ep.step(control=True)
    return json.loads(ep.status_replies[-1].decode()) if ep.status_replies else None
