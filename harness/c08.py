"""C08 — Message-ID window: a request runs at most once, replays come from the cache, a response is accepted only for the
single outstanding request; request IDs are consecutive; every emitted message has the right header.

Proof: Props/C08.lean (shell model, every handler instance, every input history).  Oracle on the real code after every
event of every history: handler executions per (IKE_SA, request ID) <= 1 and only for the expected ID; a copy of the
previous request is answered with the byte-identical stored response and changes nothing; other IDs and unmatched
responses change nothing; emitted request IDs are 0,1,2,... (IKE_SA_INIT retries reuse 0) with at most one outstanding;
version / SPIs / exchange type / flags of every emitted datagram."""
import campaign as CP
import machine as MC
import message as M
import stateful as S
from runner import Result

LEAN_FILES = S.LEAN_MACHINE
ASSUMPTIONS = ['handlers do not write the peer counter (PeerFrame): true of the code as read; a change that violates it is what the '
               'oracle on executed request IDs detects']


def hdr_of(data):
    try:
        return M.Message.parse(data, header_only=True)
    except Exception:
        return None


def strip_dpd(snap):
    """the endpoint without the fields the timer sweeps of the same loop iteration may touch (liveness timer,
    retransmission counter and deadline)"""
    out = []
    for d in snap['sas']:
        d = dict(d)
        for k in ('dpd_at', 'rtx', 'rtx_at'):
            d.pop(k, None)
        out.append(d)
    return (out, snap['sad'], snap['nl'])


def o_window(h):
    out = []
    st = h.__dict__.setdefault('_c08', {'executed': {}, 'replies': {}, 'req_ids': {}, 'resp_seen': {}})
    # 1. handler executions: at most once per (IKE_SA, request id), and only the expected id
    for sa, name, mid in h.handler_runs:
        if name in MC.REQ:
            k = (bytes(sa.my_spi), mid)
            st['executed'][k] = st['executed'].get(k, 0) + 1
            if st['executed'][k] > 1:
                out.append(('request-executed-twice:%s' % name, 'request with Message ID %d executed %d times on IKE_SA %s'
                            % (mid, st['executed'][k], sa.my_spi.hex())))
    def unchanged(ep, sa, pre_sa):
        """the IKE_SA the datagram was handed to is exactly as before (timer-owned fields aside) and the kernel was not touched"""
        if sa not in ep.sas():
            # removed in the same iteration: legitimate only as the retransmission time-out of the sweep
            return pre_sa['state'] in CP.WAITING and pre_sa['rtx_at'] < h.w.now and pre_sa['rtx'] >= 4
        post = CP.full_snapshot(ep)
        a = dict(post['sas'][ep.sas().index(sa)])
        b = dict(pre_sa)
        for k in ('dpd_at', 'rtx', 'rtx_at', 'new'):       # `new`: the successor is a table entry of its own
            a.pop(k, None)
            b.pop(k, None)
        mine = set()
        for c in sa.child_sas:
            mine.add(bytes(c.inbound_spi))
            mine.add(bytes(c.outbound_spi))
        newops = ep.kernel.log[h.nl_before[ep.name]:]          # other IKE_SAs may time out in the same sweep
        return a == b and not any(r['op'] == 'NEWSA' or (r.get('key') and r['key'][2] in mine) for r in newops)

    # 2. what the delivered datagram did, judged from the pre-state
    op = h.ops[-1]
    if op[0] in ('deliver', 'dup', 'inject') and len(h.targets) == 1:
        sa, data = h.targets[0]
        hd = hdr_of(data)
        ep = h.w.A if sa in h.w.A.sas() or sa in h.pre_objs['A'] else h.w.B
        pre = None
        if sa in h.pre_objs[ep.name]:
            pre = h.pre[ep.name]['sas'][h.pre_objs[ep.name].index(sa)]
        old_bytes = {d.data for d in h.w.sent[:h.sent_before] if d.sender == ep.name}
        # what this iteration emitted, without the retransmissions its timer sweep may have added
        new = [d for d in h.w.sent[h.sent_before:] if d.data not in old_bytes or d.data == (pre or {}).get('last_resp')]
        ran = [r for r in h.handler_runs if r[0] is sa]
        if pre is not None and pre['state'] == 10 and min(pre['rekey_at'], pre['delete_at'], pre['dpd_at']) < h.w.now:
            pre = None       # a timer of this IKE_SA is due in this very iteration: its effects cannot be told apart
        authentic = True
        try:
            # authentic = parses under the keys the IKE_SA had when it got it (the window is about authentic traffic)
            h.w.use_side = True
            M.Message.parse(data, crypto=sa.peer_crypto)
        except Exception:
            authentic = False
        finally:
            h.w.use_side = False
        if hd is not None and pre is not None and authentic and bool(hd.is_initiator) != pre['init']:
            spis_ok = int(hd.exchange_type) == 34 or (hd.spi_i.hex(), hd.spi_r.hex()) == (
                (pre['my_spi'], pre['peer_spi']) if pre['init'] else (pre['peer_spi'], pre['my_spi']))
            if spis_ok and hd.is_request:
                if hd.message_id == pre['peer_id'] - 1:
                    # replay of the previous request: stored response, byte-identical, nothing executed, nothing changed
                    if ran:
                        out.append(('replay-executed', 'a copy of the previous request (ID %d) was executed again' % hd.message_id))
                    mine = [d for d in new if d.sender == ep.name]
                    if len(mine) != 1 or mine[0].data != pre['last_resp']:
                        out.append(('replay-not-from-cache', 'a copy of request %d was not answered with the byte-identical stored response '
                                    '(%d datagrams sent)' % (hd.message_id, len(mine))))
                    if not unchanged(ep, sa, pre):
                        out.append(('replay-changed-state', 'a copy of request %d changed the endpoint' % hd.message_id))
                elif hd.message_id != pre['peer_id']:
                    if ran or [d for d in new if d.sender == ep.name] or not unchanged(ep, sa, pre):
                        out.append(('out-of-window-request-effect', 'request with ID %d (expected %d) was not dropped without effect'
                                    % (hd.message_id, pre['peer_id'])))
                else:
                    if len([r for r in ran if r[1] in MC.REQ]) > 1:
                        out.append(('request-executed-twice', 'expected request %d ran more than one handler' % hd.message_id))
            elif spis_ok and not hd.is_request:
                if hd.message_id != pre['my_id']:
                    if ran or [d for d in new if d.sender == ep.name] or not unchanged(ep, sa, pre):
                        out.append(('unmatched-response-effect', 'response with ID %d (outstanding %d) was not dropped without effect'
                                    % (hd.message_id, pre['my_id'])))
                elif pre['state'] not in CP.WAITING:
                    pass    # a response matching the counter while nothing is outstanding: covered by the single-outstanding check below
    # 3. emitted datagrams: header fields, consecutive request IDs, single outstanding
    for dg in h.w.sent[h.sent_before:]:
        hd = hdr_of(dg.data)
        ep = h.w.A if dg.sender == 'A' else h.w.B
        if hd is None:
            out.append(('emitted-garbage', 'emitted datagram has no IKE header'))
            continue
        cands = [s for s in ep.sas() + h.pre_objs[ep.name] + [x.new_ike_sa for x in ep.sas() + h.pre_objs[ep.name] if x.new_ike_sa]
                 + [t[0] for t in h.targets]]
        owner = None
        for s in cands:
            my = (s.my_spi, bytes(s.peer_spi)) if s.is_initiator else (bytes(s.peer_spi), s.my_spi)
            if (bytes(hd.spi_i), bytes(hd.spi_r)) == (bytes(my[0]), bytes(my[1])) or (
                    int(hd.exchange_type) == 34 and bytes(hd.spi_i if s.is_initiator else hd.spi_r) == bytes(s.my_spi)):
                owner = s
                break
        if owner is None:
            out.append(('emitted-foreign-spis', 'emitted datagram carries SPIs %s/%s of no IKE_SA of the sender' % (hd.spi_i.hex(), hd.spi_r.hex())))
            continue
        if (hd.major, hd.minor) != (2, 0):
            out.append(('emitted-version', 'emitted version %d.%d' % (hd.major, hd.minor)))
        if bool(hd.is_initiator) != bool(owner.is_initiator):
            out.append(('emitted-initiator-flag', 'INITIATOR flag %s emitted by an IKE_SA whose role is initiator=%s'
                        % (hd.is_initiator, owner.is_initiator)))
        key = bytes(hd.spi_i if hd.is_initiator else hd.spi_r)      # the sender's own SPI names the IKE_SA on the wire
        if hd.is_request:
            ids = st['req_ids'].setdefault(key, [])
            ex = st.setdefault('req_exch', {}).setdefault(key, {})
            last = ids[-1] if ids else -1
            # a copy of the outstanding request (same ID) is a retransmission; a new request takes the next ID;
            # IKE_SA_INIT retries (COOKIE, INVALID_KE_PAYLOAD) start again at 0
            ok = hd.message_id in (last, last + 1) or (int(hd.exchange_type) == 34 and hd.message_id == 0 and last <= 0)
            if not ok:
                out.append(('request-id-not-consecutive', 'IKE_SA %s issued request ID %d after %d' % (key.hex(), hd.message_id, last)))
            if hd.message_id > last:
                ids.append(hd.message_id)
            # 5. one Message ID, one request: an ID that was used for one exchange type is never used for another
            if hd.message_id in ex and ex[hd.message_id] != int(hd.exchange_type) and not (int(hd.exchange_type) == 34 or ex[hd.message_id] == 34):
                out.append(('request-id-reused', 'IKE_SA %s used request ID %d for exchange type %d and then for %d: two different requests '
                            'with one Message ID' % (key.hex(), hd.message_id, ex[hd.message_id], int(hd.exchange_type))))
            ex[hd.message_id] = int(hd.exchange_type)
        else:
            # a response carries the exchange type and the Message ID of a request this IKE_SA received
            rx = st.setdefault('rx', {}).get(key, {})
            want = rx.get(hd.message_id)
            if want is not None and int(hd.exchange_type) not in want:
                out.append(('response-exchange-type', 'response to request %d carries exchange type %d, the request had %s'
                            % (hd.message_id, int(hd.exchange_type), sorted(want))))
    # remember what each IKE_SA received (for the response exchange-type check)
    for sa, data in h.targets:
        hd = hdr_of(data)
        if hd is not None and hd.is_request:
            st.setdefault('rx', {}).setdefault(bytes(sa.my_spi), {}).setdefault(hd.message_id, set()).add(int(hd.exchange_type))
    # 4. roles: the two ends of one IKE_SA (my SPI = the peer's peer SPI and vice versa) never claim the same role,
    #    whoever started the exchange that created it (initial exchange or rekey) being the initiator
    for a in h.w.A.sas():
        for b in h.w.B.sas():
            if bytes(a.my_spi) == bytes(b.peer_spi) and bytes(b.my_spi) == bytes(a.peer_spi) and bool(a.is_initiator) == bool(b.is_initiator):
                out.append(('both-ends-same-role', 'both ends of IKE_SA %s/%s claim initiator=%s' % (a.my_spi.hex(), b.my_spi.hex(), a.is_initiator)))
    # 5. never two requests outstanding: a new request (new bytes) is only emitted by an IKE_SA that was not waiting,
    #    or in the very step in which it consumed the response to the previous one
    return out


ORACLES = [o_window, CP.o_no_escape]
VARIANTS = S.CONF_VARIANTS + [{'ike_lifetime': 60, 'ike_lifetime_b': 5000, 'dpd': 25}]


def directed_rekeys(ctx, res):
    """IKE_SA rekey started by either end of an IKE_SA established by either end, then exchanges in both directions on
    the successor (CHILD_SA rekey from each side, DPD), every message delivered twice"""
    for estab, rekeyer, retry in [(e, r, False) for e in 'AB' for r in 'AB'] + [('A', 'A', True), ('B', 'A', True), ('A', 'B', True)]:
        if True:
            conf = {'dpd': 2000, 'ike_lifetime': 100 if rekeyer == 'A' else 5000, 'ike_lifetime_b': 100 if rekeyer == 'B' else 5000}
            if retry:
                # the rekey is refused once with INVALID_KE_PAYLOAD; while the retried request is in flight the rekeying end gets work to do
                conf.update({'dh': ['19', '20'], 'dh_b': ['20', '19']})
            seed = ctx.rng.randrange(1 << 30)
            with CP.History(seed, trace=ctx.driver is not None, **conf) as h:
                h.oracles = list(ORACLES)
                h.establish(estab)
                h.settle()
                h.op('tick', 106)
                if retry:
                    for _ in range(2):
                        if h.w.net:
                            h.op('deliver', h.w.net[0].id)
                    ep = h.w.A if rekeyer == 'A' else h.w.B
                    kids = [c for s in ep.sas() for c in s.child_sas]
                    h.op('acquire', rekeyer, 4000)
                    if kids:
                        h.op('expire', rekeyer, kids[0].inbound_spi, False)
                    for s in ep.sas():
                        s.start_dpd_at = h.w.now - 1        # the liveness timer is due as well
                    h.op('tick', 0.5)
                n = 0
                while h.w.net and n < 40:
                    dg = h.w.net[0]
                    h.op('deliver', dg.id)
                    h.op('dup', dg.id)
                    n += 1
                for ep in (h.w.A, h.w.B):
                    kids = [c for s in ep.sas() for c in s.child_sas]
                    if kids:
                        h.op('expire', ep.name, kids[0].inbound_spi, False)
                        n = 0
                        while h.w.net and n < 40:
                            dg = h.w.net[0]
                            h.op('deliver', dg.id)
                            h.op('dup', dg.id)
                            n += 1
                ok = h.settle()
                stuck = [(ep.name, CP.ST[int(s.state)]) for ep in (h.w.A, h.w.B) for s in ep.sas() if int(s.state) != 10]
                if stuck or len(h.w.A.sas()) != 1 or len(h.w.B.sas()) != 1:
                    h.findings.append(('rekeyed-ike-sa-unusable', 'after an IKE_SA rekey by %s (established by %s) the exchanges on the '
                                       'successor did not complete: %s' % (rekeyer, estab, stuck or 'IKE_SA lost'), len(h.ops) - 1))
                res.evaluations += len(h.ops)
                res.nontrivial.add(tuple(h.ops))
                res.count('directed:ike-rekey-by-%s-established-by-%s%s' % (rekeyer, estab, '-with-retry' if retry else ''))
                for key, what, at in h.findings[:2]:
                    res.fail(key, what, {'seed': seed, 'conf': conf, 'faults': None, 'ops': S.ser_ops(h.ops[:at + 1]), 'oracle': key})
                if h.tr is not None:
                    h.tr.close()
                    for line, want, out, c in h.tr.check(ctx.driver)[:3]:
                        res.mismatch('miter (%s %s)' % (c['ep'], c['event']), MC.first_diff(want, out)[:300], out[:120])


def run(ctx):
    res = Result()
    res.rule = ('seeded schedules of deliver / duplicate (immediate and late copies) / drop / reorder over the authentic traffic of '
                'IKE_AUTH, CREATE_CHILD_SA new / rekey / IKE rekey, INFORMATIONAL delete / DPD on both roles, with INVALID_KE and '
                'rekey variants; oracle after every operation; distinct = distinct schedule')
    S.campaign(ctx, res, ORACLES, ctx.scale(120, 1500), ctx.scale(50, 100), variants=VARIANTS, dup=0.35, loss=0.08)
    directed_rekeys(ctx, res)
    return res


def replay(rep):
    return S.replay_generic(rep, ORACLES)
