"""C13 — retransmission, dead-peer detection and lifetimes are bounded and faithful.

Proof: Props/C13.lean (shell model: budget, schedule, time-out, silence once answered, DPD and lifetime decisions, for every
tick sequence and every handler instance).  Oracle on the real code under a virtual clock: for every request kind (incl.
COOKIE and INVALID_KE_PAYLOAD retries), every subset of lost transmissions and fine / coarse tick grains: copies are
byte-identical, at most the built-in number, gaps non-decreasing, an answered request is never retransmitted, an unanswered
one ends with the IKE_SA and its kernel SAs removed; DPD probe after the idle interval; rekey at lifetime + jitter, deletion
30 s later; peer crash after every step => everything gone within DPD interval + retransmission budget."""
import campaign as CP
import ikesa as IKESA
import machine as MC
import message as M
import stateful as S
from runner import Result

LEAN_FILES = S.LEAN_MACHINE
ASSUMPTIONS = ['the event loop sweeps at least once per second (select timeout 1 s); coarser grains only delay, never add, transmissions']
ORACLES = [CP.o_no_escape, CP.o_sad_equals_tracked]
MAXTX = IKESA.IkeSa.MAX_RETRANSMISSIONS
KINDS = ['init', 'auth', 'child', 'rekey-child', 'del-child', 'dpd', 'rekey-ike', 'init-invalid-ke', 'child-invalid-ke',
         'rekey-ike-invalid-ke', 'init-cookie']


def hdr(data):
    try:
        return M.Message.parse(data, header_only=True)
    except Exception:
        return None


def deliver_all(h, limit=40):
    n = 0
    while h.w.net and n < limit:
        h.op('deliver', h.w.net[0].id)
        n += 1


def outstanding(h, ep):
    """(datagram bytes, header) of the newest request emitted by ep"""
    for dg in reversed(h.w.sent):
        if dg.sender == ep.name:
            x = hdr(dg.data)
            if x is not None and x.is_request:
                return dg, x
    return None, None


def setup(h, kind):
    """brings endpoint A to the point where a request of the given kind has just been sent; returns True if reached"""
    w = h.w
    if kind == 'init':
        h.op('acquire', 'A', 8765)
        return True
    if kind in ('init-invalid-ke', 'init-cookie'):
        if kind == 'init-cookie':
            w.B.controller.cookie_threshold = 0
        h.op('acquire', 'A', 8765)
        deliver_all(h, 1)          # request -> B
        deliver_all(h, 1)          # INVALID_KE / COOKIE -> A, which retries
        return True
    if kind == 'auth':
        h.op('acquire', 'A', 8765)
        deliver_all(h, 2)
        return True
    if not h.establish('A'):
        return False
    if kind == 'child' or kind == 'child-invalid-ke':
        h.op('acquire', 'A', 4001)
        if kind == 'child-invalid-ke':
            deliver_all(h, 2)
        return True
    if kind == 'rekey-child':
        h.op('expire', 'A', w.A.sas()[0].child_sas[0].inbound_spi, False)
        return True
    if kind == 'del-child':
        h.op('expire', 'A', w.A.sas()[0].child_sas[0].inbound_spi, True)
        return True
    if kind == 'dpd':
        h.op('tick', w.A.sas()[0].configuration.dpd + 1)
        return True
    if kind in ('rekey-ike', 'rekey-ike-invalid-ke'):
        h.op('tick', w.A.sas()[0].configuration.lifetime + 6)
        if kind == 'rekey-ike-invalid-ke':
            deliver_all(h, 2)
        return True
    return False


CONF = {
    'init-invalid-ke': {'dh': ['19', '20'], 'dh_b': ['20', '19']},
    'child-invalid-ke': {'child_dh': ['20', '19'], 'child_dh_b': ['19', '20']},
    'rekey-ike-invalid-ke': {'dh': ['19', '20'], 'dh_b': ['20', '19'], 'ike_lifetime': 100, 'ike_lifetime_b': 5000, 'dpd': 2000},
    'rekey-ike': {'ike_lifetime': 100, 'ike_lifetime_b': 5000, 'dpd': 2000},
    'dpd': {'dpd': 30, 'dpd_b': 5000},
}


def one(ctx, res, kind, deliver_set, grain, seed):
    conf = dict(CONF.get(kind, {}))
    if 'dpd' not in conf:
        conf['dpd'] = 2000
    with CP.History(seed, trace=ctx.driver is not None and grain == 1, **conf) as h:
        h.oracles = list(ORACLES)
        if not setup(h, kind):
            res.count('setup-failed:' + kind)
            return
        w = h.w
        first, x0 = outstanding(h, w.A)
        if first is None:
            res.count('no-request:' + kind)
            return
        sa = next((s for s in w.A.sas() if bytes(s.my_spi) == bytes(x0.spi_i if x0.is_initiator else x0.spi_r)), None)
        t0 = w.now
        times = [t0]
        copies = [first.data]
        answered_at = None
        seen = len(w.sent)
        # everything else in flight is lost (we study this request only)
        for dg in list(w.net):
            if dg is not first:
                w.net.remove(dg)
        if 1 in deliver_set:
            h.op('deliver', first.id)
            deliver_all(h, 3)
            answered_at = 1
        else:
            if first in w.net:
                w.net.remove(first)
        horizon = 40
        t = 0.0
        late = []
        while t < horizon:
            h.op('tick', grain)
            t += grain
            for dg in w.sent[seen:]:
                x = hdr(dg.data)
                if dg.sender == 'A' and x is not None and x.is_request and x.message_id == x0.message_id and \
                        bytes(x.spi_i) == bytes(x0.spi_i) and int(x.exchange_type) == int(x0.exchange_type):
                    if answered_at is not None:
                        late.append(w.now - t0)
                    copies.append(dg.data)
                    times.append(w.now)
                    j = len(copies)
                    if j in deliver_set and answered_at is None:
                        h.op('deliver', dg.id)
                        deliver_all(h, 3)
                        answered_at = j
                    elif dg in w.net:
                        w.net.remove(dg)
                elif dg in w.net and answered_at is None:
                    w.net.remove(dg)
            seen = len(w.sent)
        key = 'kind=%s' % kind
        replay = {'seed': seed, 'conf': conf, 'kind': kind, 'deliver': sorted(deliver_set), 'grain': grain, 'ops': S.ser_ops(h.ops)}
        res.evaluations += 1
        res.nontrivial.add((kind, tuple(sorted(deliver_set)), grain))
        res.count('kind:' + kind)
        res.count('transmissions:%d' % len(copies))
        if any(c != copies[0] for c in copies):
            res.fail('retransmission-differs:' + kind, 'a retransmission of the %s request is not byte-identical to the request sent' % kind, replay)
        if len(copies) > MAXTX:
            res.fail('too-many-transmissions:' + kind, '%d transmissions of one request (built-in maximum %d)' % (len(copies), MAXTX), replay)
        gaps = [round(b - a, 3) for a, b in zip(times, times[1:])]
        if grain <= 1 and any(g2 < g1 - grain for g1, g2 in zip(gaps, gaps[1:])):
            res.fail('intervals-decrease:' + kind, 'retransmission intervals %s are not non-decreasing' % gaps, replay)
        if grain <= 1 and gaps and not all(abs(g - want) <= grain + 0.001 for g, want in zip(gaps, [2, 4, 6])):
            res.fail('schedule-off:' + kind, 'retransmission intervals %s, expected 2, 4, 6 s (+ sweep grain)' % gaps, replay)
        if late:
            res.fail('retransmitted-after-answer:' + kind, 'request answered at transmission %d but sent again %s s after t0' % (answered_at, late), replay)
        if answered_at is None:
            if len(copies) < MAXTX and grain <= 1:
                res.fail('budget-not-used:' + kind, 'only %d transmissions before giving up (built-in %d)' % (len(copies), MAXTX), replay)
            if sa is not None and sa in w.A.sas():
                res.fail('no-timeout:' + kind, 'unanswered %s request: IKE_SA still held %.0f s later in state %s' % (kind, horizon, sa.state.name), replay)
            if w.A.kernel.sad and not [s for s in w.A.sas() if s is not sa and s.child_sas]:
                res.fail('kernel-sas-left:' + kind, 'kernel SAs remain after the IKE_SA timed out', replay)
        for k2, what, at in h.findings[:2]:
            res.fail(k2, what, replay)
        if h.tr is not None:
            h.tr.close()
            for line, want, out, c in h.tr.check(ctx.driver)[:2]:
                res.mismatch('miter (%s %s)' % (c['ep'], c['event']), MC.first_diff(want, out)[:300], out[:120])
            res.extra['shell_iterations_replayed_on_model'] = res.extra.get('shell_iterations_replayed_on_model', 0) + len(h.tr.lines)


def liveness(ctx, res, seed, grain, crash_after):
    """DPD after the idle interval, rekey at lifetime + jitter, delete 30 s later; peer crash after `crash_after` deliveries"""
    conf = {'dpd': 20, 'ike_lifetime': 70, 'child_lifetime': 1000}
    with CP.History(seed, trace=False, **conf) as h:
        h.oracles = list(ORACLES)
        w = h.w
        h.op('acquire', 'A', 8765)
        n = 0
        while w.net and n < crash_after:
            h.op('deliver', w.net[0].id)
            n += 1
        replay = {'seed': seed, 'conf': conf, 'grain': grain, 'crash_after': crash_after}
        res.evaluations += 1
        res.nontrivial.add(('crash', crash_after, grain))
        res.count('crash-after:%d' % crash_after)
        # B crashes: nothing is delivered any more
        t_crash = w.now
        last_rx = w.now
        probe_at = None
        had_children = bool([c for s in w.A.sas() for c in s.child_sas])
        bound = 20 + 2 + 20 + 6 * grain + 2
        t = 0
        while t < bound + 5:
            w.net.clear()
            seen = len(w.sent)
            h.op('tick', grain)
            t += grain
            for dg in w.sent[seen:]:
                x = hdr(dg.data)
                if dg.sender == 'A' and x is not None and int(x.exchange_type) == 37 and x.is_request and probe_at is None:
                    probe_at = w.now - t_crash
            if not w.A.sas() and not w.A.kernel.sad:
                break
        if w.A.sas() or w.A.kernel.sad:
            res.fail('crash-bound', 'peer crashed after %d deliveries: %.0f s later A still holds %s and %d kernel SAs'
                     % (crash_after, t, [s.state.name for s in w.A.sas()], len(w.A.kernel.sad)), replay)
        if had_children and crash_after >= 4 and (probe_at is None or probe_at > 20 + 2 * grain + 0.01 or probe_at < 20 - 0.01):
            res.fail('dpd-time', 'established and idle: DPD probe at %s s after the last authentic message (interval 20 s)' % probe_at, replay)
        for k2, what, at in h.findings[:2]:
            res.fail(k2, what, replay)


def lifetimes(ctx, res, seed, grain):
    conf = {'dpd': 5000, 'ike_lifetime': 50, 'child_lifetime': 1000}
    with CP.History(seed, trace=False, **conf) as h:
        h.oracles = list(ORACLES)
        w = h.w
        if not h.establish('A'):
            return
        sa = w.A.sas()[0]
        created = w.now
        jitter = sa.rekey_ike_sa_at - created - 50
        replay = {'seed': seed, 'conf': conf, 'grain': grain}
        res.evaluations += 1
        res.count('lifetime')
        if not (-0.001 <= jitter <= 5.001):
            res.fail('rekey-jitter', 'rekey scheduled %.3f s after the lifetime (allowed 0..5)' % jitter, replay)
        if abs(sa.delete_ike_sa_at - sa.rekey_ike_sa_at - 30) > 0.001:
            res.fail('delete-after-rekey', 'hard expiry %.3f s after the rekey time (30 s)' % (sa.delete_ike_sa_at - sa.rekey_ike_sa_at), replay)
        rekey_seen = None
        t = 0
        while t < 120 and sa in w.A.sas():
            w.net.clear()
            seen = len(w.sent)
            h.op('tick', grain)
            t += grain
            for dg in w.sent[seen:]:
                x = hdr(dg.data)
                if dg.sender == 'A' and x is not None and int(x.exchange_type) == 36 and rekey_seen is None:
                    rekey_seen = w.now - created
        if rekey_seen is None or not (50 + jitter - 0.001 <= rekey_seen <= 50 + jitter + grain + 0.001):
            res.fail('rekey-time', 'IKE_SA rekey started %s s after creation (lifetime 50 s + jitter %.3f)' % (rekey_seen, jitter), replay)
        if sa in w.A.sas():
            res.fail('lifetime-no-end', 'IKE_SA whose rekey is never answered is still held 120 s later', replay)
        for k2, what, at in h.findings[:2]:
            res.fail(k2, what, replay)


def busy_peer(ctx, res, seed, grain):
    """the peer is alive and authentic but answers every IKE_SA rekey with TEMPORARY_FAILURE (it is made to look busy while
    the request is delivered): the IKE_SA must still end 30 s after its rekey time"""
    conf = {'dpd': 5000, 'ike_lifetime': 40, 'ike_lifetime_b': 5000, 'child_lifetime': 1000}
    with CP.History(seed, trace=False, **conf) as h:
        h.oracles = list(ORACLES)
        w = h.w
        if not h.establish('A'):
            return
        sa = w.A.sas()[0]
        due = sa.rekey_ike_sa_at
        replay = {'seed': seed, 'conf': conf, 'grain': grain, 'scenario': 'busy-peer'}
        res.evaluations += 1
        res.nontrivial.add(('busy-peer', grain))
        res.count('busy-peer')
        refused = 0
        t = 0
        while w.now < due + 30 + 25 and sa in w.A.sas():
            h.op('tick', grain)
            n = 0
            while w.net and n < 10:
                dg = w.net[0]
                x = hdr(dg.data)
                bsas = w.B.sas()
                if dg.dst == W_IP_B and x is not None and int(x.exchange_type) == 36 and x.is_request and bsas and int(bsas[0].state) == 10:
                    bsas[0].state = IKESA.IkeSa.State.DPD_REQ_SENT        # busy
                    bsas[0].retransmit_at = w.now + 100000                # ... and not about to retransmit anything
                    h.op('deliver', dg.id)
                    if int(bsas[0].state) == 17:
                        bsas[0].state = IKESA.IkeSa.State.ESTABLISHED
                    refused += 1
                else:
                    h.op('deliver', dg.id)
                n += 1
        if sa in w.A.sas():
            res.fail('lifetime-pushed-back', 'IKE_SA rekey refused %d times with TEMPORARY_FAILURE: %.0f s after its rekey time the IKE_SA is '
                     'still held in state %s (hard expiry is 30 s after the rekey time)' % (refused, w.now - due, sa.state.name), replay)
        for k2, what, at in h.findings[:2]:
            res.fail(k2, what, replay)


import world as _W
W_IP_B = _W.IP_B


def two_ike_sas_one_connection(ctx, res, seed):
    """simultaneous initiations leave an endpoint with two IKE_SAs of one connection; while the IKE_AUTH request of one is
    outstanding the other starts a CHILD_SA rekey: the retransmitted IKE_AUTH request must still be the one that was sent"""
    with CP.History(seed, trace=False, dpd=2000) as h:
        h.oracles = list(ORACLES)
        w = h.w
        h.op('acquire', 'A', 8765)                     # A -> B  IKE_SA_INIT request (#0)
        h.op('acquire', 'B', 8765)                     # B -> A  IKE_SA_INIT request (#1)
        # complete B's initiation (A is responder there), keep A's own exchange half way
        for _ in range(12):
            dg = next((d for d in w.net if d.sender == 'B' or (d.sender == 'A' and hdr(d.data) is not None and hdr(d.data).is_response)), None)
            if dg is None:
                break
            h.op('deliver', dg.id)
        a_init = next((s for s in w.A.sas() if s.is_initiator), None)
        a_resp = next((s for s in w.A.sas() if not s.is_initiator and s.child_sas), None)
        replay = {'seed': seed, 'scenario': 'two IKE_SAs of one connection', 'ops': S.ser_ops(h.ops)}
        res.evaluations += 1
        res.nontrivial.add(('two-ike-sas', seed))
        res.count('two-ike-sas')
        if a_init is None or a_resp is None:
            res.count('two-ike-sas:not-reached')
            return
        # bring A's own exchange to AUTH_REQ_SENT and lose the IKE_AUTH request
        for _ in range(4):
            dg = next((d for d in w.net if d.sender == 'A' and int(hdr(d.data).exchange_type) == 34), None)
            if dg:
                h.op('deliver', dg.id)
            dg = next((d for d in w.net if d.sender == 'B' and hdr(d.data).is_response and int(hdr(d.data).exchange_type) == 34), None)
            if dg:
                h.op('deliver', dg.id)
        if int(a_init.state) != 3:
            res.count('two-ike-sas:not-reached')
            return
        first = bytes(a_init.request.to_bytes())
        w.net.clear()
        h.op('expire', 'A', a_resp.child_sas[0].inbound_spi, False)      # the other IKE_SA builds a request from the same policy
        w.net.clear()
        again = bytes(a_init.request.to_bytes())
        seen = len(w.sent)
        h.op('tick', 3)
        rtx = [d.data for d in w.sent[seen:] if d.sender == 'A' and hdr(d.data) is not None and int(hdr(d.data).exchange_type) == 35]
        if again != first or any(x != first for x in rtx):
            res.fail('retransmission-differs:auth-after-other-ike-sa-request',
                     'the IKE_AUTH request retransmitted after another IKE_SA of the same connection built a CHILD_SA request is not the '
                     'request that was sent (the SA payload carries the other request\'s SPI)', replay)


def dead_peer_with_noise(ctx, res, seed, grain):
    """the peer is gone, but datagrams that merely carry the IKE_SA's SPIs keep arriving (a replayed IKE_SA_INIT response, forged
    cleartext of any exchange type): nothing that is not authenticated is a sign of life, so the liveness probe still starts
    when its deadline comes, is retransmitted within the budget and the IKE_SA and its kernel SAs are removed in bounded time"""
    dpd = 20
    with CP.History(seed, trace=False, dpd=dpd, ike_lifetime=5000) as h:
        h.oracles = list(ORACLES)
        w = h.w
        if not h.establish('A'):
            return
        sa = next(iter(w.A.sas()), None)
        if sa is None:
            return
        init_res = next((d.data for d in w.sent if d.sender == 'B' and hdr(d.data) is not None and int(hdr(d.data).exchange_type) == 34
                         and hdr(d.data).is_response), None)
        w.net.clear()
        t0 = w.now
        noise = []
        if init_res:
            noise.append(bytes(init_res))
        for exch in (34, 35, 36, 37):
            for resp in (False, True):
                m = M.Message(spi_i=sa.spi_i, spi_r=sa.spi_r, major=2, minor=0, exchange_type=exch, is_response=resp,
                              can_use_higher_version=False, is_initiator=not sa.is_initiator, message_id=ctx.rng.choice([0, 1, 2, sa.my_msg_id, sa.peer_msg_id]),
                              payloads=[M.PayloadNONCE()], encrypted_payloads=[], crypto=None)
                noise.append(bytes(m.to_bytes()))
        replay = {'seed': seed, 'scenario': 'dead peer, unauthenticated datagrams with the SPIs every 5 s', 'grain': grain, 'dpd': dpd}
        res.evaluations += 1
        res.nontrivial.add(('dead-peer-noise', grain, seed))
        res.count('dead-peer-noise')
        probe_at = None
        bound = dpd + 2 + sum((k + 1) * 2 for k in range(1, 5)) + 2 + 3 * grain + 5
        k = 0
        while w.now - t0 < bound + 20:
            h.op('tick', grain)
            for d in list(w.net):
                if d.sender == 'A' and probe_at is None and hdr(d.data) is not None and int(hdr(d.data).exchange_type) == 37:
                    probe_at = w.now - t0
            w.net.clear()                                   # the peer is dead: nothing A sends arrives
            if int((w.now - t0) / 5) > k:
                k = int((w.now - t0) / 5)
                h.op('inject', 'A', noise[k % len(noise)], w.ip_b)
                w.net.clear()
            if sa not in w.A.sas():
                break
        if probe_at is None or probe_at > dpd + grain + 1.5:
            res.fail('dpd-postponed-by-unauthenticated-datagrams', 'with unauthenticated datagrams for the IKE_SA arriving every 5 s the liveness '
                     'probe %s (dead-peer detection interval %d s)' % ('was never sent' if probe_at is None else 'started only after %.1f s' % probe_at, dpd), replay)
        elif sa in w.A.sas():
            res.fail('dead-peer-not-detected', 'the dead peer\'s IKE_SA is still held %.0f s after the last authentic message (bound %.0f s)'
                     % (w.now - t0, bound), replay)
        elif w.A.kernel.sad:
            res.fail('dead-peer-sas-left', 'the IKE_SA was removed but its kernel SAs remain', replay)
        for k2, what, at in h.findings[:2]:
            res.fail(k2, what, replay)


def run(ctx):
    res = Result()
    res.rule = ('request kinds %s x subsets of delivered transmissions x tick grains (0.25, 1, 3, 7 s); peer crash after every '
                'delivery of the initial exchanges x grains; lifetime runs; distinct = distinct (kind, subset, grain)' % KINDS)
    subsets = [set(), {1}, {2}, {3}, {4}, {2, 3}]
    grains = [1, 0.25] if ctx.tier == 'quick' else [1, 0.25, 3, 7]
    if ctx.tier != 'quick' or ctx.search:
        subsets = [set(s) for s in ([], [1], [2], [3], [4], [1, 2], [2, 3], [2, 4], [3, 4], [1, 4], [1, 2, 3, 4])]
    k = 0
    for kind in KINDS:
        for ds in subsets:
            for g in grains:
                if ctx.tier == 'quick' and not ctx.search and (k % 3) and ds not in (set(), {2}):
                    k += 1
                    continue
                k += 1
                one(ctx, res, kind, ds, g, ctx.rng.randrange(1 << 30))
    for crash_after in range(0, 6):
        for g in grains:
            liveness(ctx, res, ctx.rng.randrange(1 << 30), g, crash_after)
    for g in grains:
        lifetimes(ctx, res, ctx.rng.randrange(1 << 30), g)
        busy_peer(ctx, res, ctx.rng.randrange(1 << 30), g)
    for _ in range(2):
        two_ike_sas_one_connection(ctx, res, ctx.rng.randrange(1 << 30))
    for g in grains:
        dead_peer_with_noise(ctx, res, ctx.rng.randrange(1 << 30), g)
    return res


def replay(rep):
    return True, 'see the replay file: request kind, delivered transmissions, tick grain and the executed schedule'
