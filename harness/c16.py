"""C16 — datagrams reach the right IKE_SA and the IKE_SA table stays exact.

Proof: Props/C16.lean (shell model, every handler instance).  Oracle on the real code, after every event of every history:
routing by the header SPI selected by the initiator flag, fresh responder for IKE_SA_INIT requests, unknown SPIs and
swapped SPI/flag combinations change nothing, expiry notices go to the owner, no IKE_SA listed twice, none DELETED left in
the table, a successor registered exactly once, status query = table."""
import json

import campaign as CP
import message as M
import stateful as S
from runner import Result

LEAN_FILES = S.LEAN_MACHINE
ASSUMPTIONS = ['locally drawn IKE SPIs are fresh (no 2^-64 collisions)']


def o_routing(h):
    out = []
    op = h.ops[-1]
    if op[0] not in ('deliver', 'dup', 'inject'):
        return out
    for sa, data in h.targets:
        try:
            hd = M.Message.parse(data, header_only=True)
        except Exception:
            continue
        if int(hd.exchange_type) == 34 and hd.is_request:
            continue
        want = hd.spi_r if hd.is_initiator else hd.spi_i
        if bytes(sa.my_spi) != bytes(want):
            out.append(('misrouted', 'datagram with SPIs %s/%s flag I=%s handed to IKE_SA %s' % (hd.spi_i.hex(), hd.spi_r.hex(),
                                                                                                hd.is_initiator, sa.my_spi.hex())))
    return out


def o_status(h):
    out = []
    if h.ops[-1][0] != 'status':
        return out
    ep = h.w.A if h.ops[-1][1] == 'A' else h.w.B
    if not ep.status_replies:
        return [('status-no-reply', 'no reply to the status query')]
    js = json.loads(ep.status_replies[-1].decode())
    # the reply describes the table at the moment of the query, i.e. before the timer sweeps of the same loop iteration
    pre = h.pre[ep.name]['sas']
    want = [(d['my_spi'], d['peer_spi'], d['init'], CP.ST[d['state']], len(d['children'])) for d in pre]
    got = [(d['my_spi'], d['peer_spi'], d['is_initiator'], d['state'], len(d['child_sas'])) for d in js]
    if want != got:
        out.append(('status-differs', 'status query reports %s, table holds %s' % (got, want)))
    return out


def o_unknown_spi_noop(h):
    """an op tagged 'inject' with an unknown / swapped SPI must not change anything"""
    out = []
    if h.ops[-1][0] != 'inject' or getattr(h, 'expect_noop', None) is None:
        return out
    ep = h.expect_noop
    h.expect_noop = None
    post = CP.full_snapshot(ep)
    if post != h.pre[ep.name] or len(h.w.sent) != h.sent_before:
        out.append(('unknown-spi-effect', 'datagram for an unknown / wrong SPI changed the endpoint or elicited a reply: %s' % h.note))
    return out


ORACLES = [CP.o_table_exact, o_routing, CP.o_expire_to_owner, o_status, o_unknown_spi_noop, CP.o_no_escape]
VARIANTS = [{'ike_lifetime': 40, 'dpd': 500}, {'ike_lifetime': 60, 'ike_lifetime_b': 5000, 'dpd': 25, 'mode': 'tunnel', 'ip_proto': 'any'},
            {'dh': ['19', '20'], 'dh_b': ['20', '19'], 'ike_lifetime': 50, 'ike_lifetime_b': 5000, 'dpd': 1000}, {}]


def spi_games(h):
    """swapped, unknown and flag-flipped copies of authentic datagrams"""
    r = h.rng
    if not h.w.sent:
        return
    for _ in range(6):
        dg = r.choice(h.w.sent[-12:])
        ep = h.w.ep_for(dg.dst)
        data = bytearray(dg.data)
        if len(data) < 28 or data[18] == 34:
            continue
        kind = r.choice(['swap', 'unknown', 'flag'])
        if kind == 'swap':
            data[0:8], data[8:16] = data[8:16], data[0:8]
        elif kind == 'unknown':
            off = 8 if (data[19] & 0x08) else 0
            data[off:off + 8] = bytes(r.getrandbits(8) for _ in range(8))
        else:
            data[19] ^= 0x08
        # does the altered header select an IKE_SA at all?
        spi = bytes(data[8:16]) if (data[19] & 0x08) else bytes(data[0:8])
        if any(bytes(s.my_spi) == spi for s in ep.sas()):
            # it does (e.g. both ends' SPIs are in one table in swapped games): the IKE_SA must reject it on its own -> covered by C03
            continue
        h.expect_noop, h.note = ep, '%s of datagram #%d' % (kind, dg.id)
        h.op('inject', ep.name, bytes(data), dg.src)


def directed_rekey_dups(ctx, res):
    """every duplication pattern of the three messages around an IKE_SA rekey (request, response, delete request)"""
    for variant in ({'ike_lifetime': 100, 'ike_lifetime_b': 5000, 'dpd': 1000},
                    {'ike_lifetime': 5000, 'ike_lifetime_b': 100, 'dpd': 1000, 'dh': ['19', '20'], 'dh_b': ['20', '19']}):
        for pattern in range(8):
            seed = ctx.rng.randrange(1 << 30)
            with CP.History(seed, trace=False, **variant) as h:
                h.oracles = list(ORACLES)
                h.establish('A')
                h.op('tick', 106)
                k = 0
                while h.w.net and k < 12:
                    dg = h.w.net[0]
                    h.op('deliver', dg.id)
                    if pattern & (1 << (k % 3)):
                        h.op('dup', dg.id)
                        h.op('dup', dg.id)
                    k += 1
                h.settle()
                res.evaluations += len(h.ops)
                res.nontrivial.add(tuple(h.ops))
                res.count('directed:rekey-dups')
                for key, what, at in h.findings[:2]:
                    res.fail(key, what, {'seed': seed, 'conf': variant, 'faults': None, 'ops': S.ser_ops(h.ops[:at + 1]), 'oracle': key})


def successor_gone_first(ctx, res):
    """the successor of a rekeyed IKE_SA ends before the old IKE_SA does (its delete exchange is lost, the new IKE_SA is deleted), and
    the old IKE_SA then sees traffic again: a late copy of the rekey request, a liveness check — the table must list neither a
    deleted IKE_SA nor anything twice, and the status query must agree with it"""
    for rekeyer in 'AB':
        for late in ('dup-rekey-request', 'dup-rekey-request+status', 'tick'):
            conf = {'dpd': 5000, 'ike_lifetime': 100 if rekeyer == 'A' else 5000, 'ike_lifetime_b': 100 if rekeyer == 'B' else 5000}
            seed = ctx.rng.randrange(1 << 30)
            with CP.History(seed, trace=ctx.driver is not None, deep=True, **conf) as h:
                h.oracles = list(ORACLES)
                w = h.w
                if not h.establish('A'):
                    continue
                h.settle()
                h.op('tick', 106)
                first = w.net[0].id if w.net else None       # the rekey request
                n = 0
                while w.net and n < 2:                        # request and response; the DELETE of the old IKE_SA is lost
                    h.op('deliver', w.net[0].id)
                    n += 1
                for dg in list(w.net):
                    h.op('drop', dg.id)
                ini = w.A if rekeyer == 'A' else w.B
                new = [x for x in ini.sas() if int(x.state) == 10]
                if not new or first is None:
                    continue
                new[0].delete_ike_sa_at = w.now - 1           # the new IKE_SA reaches its hard lifetime: delete exchange on it
                h.op('tick', 0)
                for _ in range(6):
                    for dg in list(w.net):
                        try:
                            hd = M.Message.parse(dg.data, header_only=True)
                        except Exception:
                            continue
                        if bytes(new[0].my_spi) in (hd.spi_i, hd.spi_r):
                            h.op('deliver', dg.id)
                if late.startswith('dup'):
                    h.op('dup', first)                        # a late copy of the rekey request reaches the REKEYED IKE_SA
                    if late.endswith('status'):
                        h.op('status', 'B' if rekeyer == 'A' else 'A')
                else:
                    h.op('tick', 1)
                h.op('tick', 1)
                res.evaluations += len(h.ops)
                res.nontrivial.add(('successor-gone-first', rekeyer, late))
                res.count('directed:successor-gone-first')
                for key, what, at in h.findings[:2]:
                    res.fail(key, what, {'seed': seed, 'conf': conf, 'faults': None, 'ops': S.ser_ops(h.ops[:at + 1]), 'oracle': key})
                if h.tr is not None:
                    h.tr.close()
                    S.deep_check(ctx, res, h.tr)


def run(ctx):
    res = Result()
    res.rule = ('seeded histories with short IKE_SA lifetimes (initial, rekeyed and simultaneously rekeyed IKE_SAs, INVALID_KE retries, '
                'simultaneous initiations), duplication of every message kind incl. rekey and delete messages, status queries, '
                'swapped / unknown / flag-flipped SPI games; oracle after every operation; distinct = distinct schedule')

    def prepare(h):
        h.establish(ctx.rng.choice('AB'))
        if ctx.rng.random() < 0.3:
            h.op('acquire', 'B' if h.w.A.sas() and h.w.A.sas()[0].is_initiator else 'A', 0)     # simultaneous initiation

    S.campaign(ctx, res, ORACLES, ctx.scale(80, 1000), ctx.scale(45, 90), variants=VARIANTS, dup=0.3, prepare=prepare,
               per_history=spi_games)
    directed_rekey_dups(ctx, res)
    successor_gone_first(ctx, res)
    # an authentic peer that says unusual things (failing answers to an IKE_SA rekey, DELETE games): the table stays exact and
    # everything the kernel holds has an owner in it
    import rogue
    rogue.campaign(ctx, res, ctx.scale(10, 150), 50, oracles=[CP.o_table_exact, CP.o_no_escape, CP.o_sad_equals_tracked])
    return res


def replay(rep):
    return S.replay_generic(rep, ORACLES)
