"""Shell correspondence: every iteration of the real event loop is replayed on the Lean shell model
(lean/PyIkev2/Model/Machine.lean, driver command `miter`) with the delegated handlers instantiated by the outcomes
recorded from the real handlers, and the complete post-state (table with every IKE_SA field the shell owns, datagrams
sent, netlink requests attempted, loop survival) is compared.

Usage:   tr = Tracer(world)          # installs the recorder (wraps IkeSa methods; nothing in /repo changes)
         ... drive the world ...
         tr.close();  mismatches = tr.check(driver)
"""
import ikesa as IKESA
import message as M
import wire
from ipaddress import ip_address

REQ = ('process_ike_sa_init_request', 'process_ike_auth_request', 'process_informational_request',
       'process_create_child_sa_request')
RESP = ('process_ike_sa_init_response', 'process_ike_auth_response', 'process_create_child_sa_response',
        'process_informational_response')
GEN = ('generate_ike_sa_init_request', 'generate_create_child_sa_request', 'generate_delete_child_sa_request',
       'generate_dead_peer_detection_request', 'generate_delete_ike_sa_request', 'generate_rekey_ike_sa_request')


def ticks(x):
    return int(round(x * 1024))


def hx(b):
    b = bytes(b)
    return b.hex() if b else '-'


def opt(tokens):
    return ['0'] if tokens is None else ['1'] + tokens


class Tracer:
    def __init__(self, world):
        self.w = world
        self.depth = 0
        self.records = []
        self.parsed = None          # (sa, data) seen by process_message in this step
        self.lines = []             # (line, expected, context)
        self.saved = {}
        self._cache = {}
        self.enabled = True
        self._install()
        for ep in (world.A, world.B):
            self._wrap_step(ep)

    # ------------------------------------------------------------- recorder
    def _install(self):
        tr = self
        cls = IKESA.IkeSa

        def wrap(name, kind):
            fn = cls.__dict__[name]
            self.saved[name] = fn

            def wrapper(sa, *a, **kw):
                if tr.depth > 0 or not tr.enabled:
                    return fn(sa, *a, **kw)
                tr.depth += 1
                k = tr.w.current.kernel
                n0 = len(k.log)
                res = None
                token = tr.pre_call(kind, name, sa, a, kw)
                try:
                    try:
                        r = fn(sa, *a, **kw)
                        res = ('ok', r)
                        return r
                    except Exception as ex:
                        res = ('raise', ex)
                        raise
                finally:
                    tr.depth -= 1
                    if res is not None:
                        tr.records.append(('call', kind, sa, tr.r_res(kind, res), tr.r_sa(sa, tr.w.current.controller.ike_sas), tr.r_nl(k.log[n0:])))
                        tr.post_call(token, kind, name, sa, res, k.log[n0:])
            setattr(cls, name, wrapper)
        for n in REQ:
            wrap(n, 'req')
        for n in RESP:
            wrap(n, 'resp')
        for n in GEN:
            wrap(n, 'gen')
        init = cls.__init__
        self.saved['__init__'] = init

        def init_wrapper(sa, *a, **kw):
            init(sa, *a, **kw)
            if tr.depth == 0 and tr.enabled:
                tr.records.append(('new', tr.r_core(sa)))
        cls.__init__ = init_wrapper
        pm = cls.process_message
        self.saved['process_message'] = pm

        def pm_wrapper(sa, data):
            if tr.enabled:
                tr.parsed = (sa, bytes(data), sa.peer_crypto)
            return pm(sa, data)
        cls.process_message = pm_wrapper

    # hooks for the handler-level recorder (harness/handlers.py)
    def pre_call(self, kind, name, sa, a, kw):
        return None

    def post_call(self, token, kind, name, sa, res, nl):
        pass

    def step_begin(self, ep, pre_objs):
        pass

    def step_end(self, ep, info):
        pass

    def close(self):
        """stop recording.  When a History owns this tracer its own wrappers sit on top of ours: the class attributes are
        restored by the owner (History.close -> restore), innermost last, so that no wrapper is ever left installed"""
        self.enabled = False
        if getattr(self, 'owner', None) is None:
            self.restore()

    def restore(self):
        for name, fn in self.saved.items():
            setattr(IKESA.IkeSa, name, fn)
        self.saved = {}
        self.enabled = False

    # ------------------------------------------------------------- rendering
    def side(self, fn):
        self.w.use_side = True
        try:
            return fn()
        finally:
            self.w.use_side = False

    def r_bytes_msg(self, data, cryptos):
        """tokens of a datagram, parsed under the first key context that accepts it"""
        key = bytes(data)
        for c in cryptos:
            ck = (key, id(c))
            if ck in self._cache:
                if self._cache[ck] is not None:
                    return self._cache[ck]
                continue
            try:
                m = self.side(lambda: M.Message.parse(key, crypto=c))
                if c is not None and m.payloads and m.payloads[-1].type == M.Payload.Type.SK:
                    raise M.InvalidSyntax('undecrypted')
                t = (wire.r_msg(m, with_iv=False) + ['none'])
            except Exception:
                t = None
            self._cache[ck] = t
            if t is not None:
                return t
        return None

    def r_msgobj(self, m):
        return None if m is None else (wire.r_msg(m, with_iv=False) + ['none'])

    def r_core(self, s):
        last = getattr(s, 'last_sent_response_data', None)
        lt = None if last is None else self.r_bytes_msg(last, [s.my_crypto, None])
        if last is not None and lt is None:
            lt = ['-', '-', '0', '0', '0', '0', '0', '0', '0', '0', '0', 'none']       # unparsable: opaque marker
        out = [str(int(s.state)), '1' if s.is_initiator else '0', hx(s.my_spi), hx(s.peer_spi), str(s.my_msg_id), str(s.peer_msg_id),
               '1' if s.peer_crypto is not None else '0']
        out += opt(lt) + opt(self.r_msgobj(s.request))
        out += [str(ticks(s.retransmit_at)), str(s.retransmissions), str(ticks(s.start_dpd_at)), str(ticks(s.rekey_ike_sa_at)),
                str(ticks(s.delete_ike_sa_at)), str(ticks(s.configuration.dpd))]
        out.append(str(len(s.child_sas)))
        for c in s.child_sas:
            out += [hx(c.inbound_spi), hx(c.outbound_spi), str(int(c.proposal.protocol_id))]
        out.append(str(len(s.pending_events)))
        for ev in s.pending_events:
            name = ev[0].__name__ if hasattr(ev[0], '__name__') else getattr(ev[0], '__func__', ev[0]).__name__
            if 'acquire' in name:
                out += ['a'] + wire.r_sel(ev[1]) + wire.r_sel(ev[2]) + [str(ev[3])]
            else:
                out += ['e', hx(ev[1]), '1' if (ev[2] if len(ev) > 2 else False) else '0']
        idx = [p.index for p in s.configuration.protect]
        out += [str(len(idx))] + [str(i) for i in idx]
        out += [hx(s.my_addr.packed), hx(s.peer_addr.packed), '1' if s.cookie_secret is not None else '0']
        return out

    def r_sa(self, s, table=None):
        """`table`: the successor of an IKE_SA that is already a table entry is the same object as that entry (it is
        rendered once, as the entry)"""
        n = s.new_ike_sa
        if n is not None and table is not None and (any(x is n for x in table) or int(n.state) == 21):
            n = None          # (a successor that has meanwhile ended is of no further consequence either)
        return self.r_core(s) + opt(None if n is None else self.r_core(n))

    def r_nl(self, recs):
        out = []
        for r in recs:
            if r['op'] == 'NEWSA':
                out.append(['N', ip_address(r['key'][0]).packed.hex(), str(r['key'][1]), hx(r['key'][2])])
            elif r['op'] == 'DELSA':
                out.append(['D', ip_address(r['key'][0]).packed.hex(), str(r['key'][1]), hx(r['key'][2])])
        return out

    def r_res(self, kind, res):
        if res[0] == 'ok':
            if res[1] is None:
                return ['nothing']
            return ['reply' if kind == 'req' else 'request'] + wire.r_msg(res[1], with_iv=False) + ['none']
        ex = res[1]
        n = M.PayloadNOTIFY.from_exception(ex)
        return ['ikeerr' if isinstance(ex, M.IkeSaError) else 'othererr'] + wire.r_payload(n)

    # ------------------------------------------------------------- one step
    def _wrap_step(self, ep):
        tr = self
        orig = ep.step

        def step(datagram=None, event=None, control=False):
            if not tr.enabled:
                return orig(datagram=datagram, event=event, control=control)
            w = tr.w
            pre_objs = list(ep.controller.ike_sas)
            pre = [tr.r_sa(s, pre_objs) for s in pre_objs]
            thr = ep.controller.cookie_threshold
            tr.records, tr.parsed = [], None
            tr.step_begin(ep, pre_objs)
            nl0 = len(ep.kernel.log)
            sent0 = len(w.sent)
            nstat = len(ep.status_replies)
            ncont = len(ep.contained)
            send_fail = any(i in w.send_fail_at for i in range(w.send_calls, w.send_calls + 8))
            ok = orig(datagram=datagram, event=event, control=control)
            post_objs = list(ep.controller.ike_sas)
            # ---- the line
            toks = ['miter', str(ticks(w.now)), str(thr), str(len(pre))]
            for t in pre:
                toks += t
            # event
            ev_start = len(toks)
            if datagram is not None:
                try:
                    h = tr.side(lambda: M.Message.parse(datagram.data, header_only=True))
                    ht = [hx(h.spi_i), hx(h.spi_r), str(h.major), str(h.minor), str(int(h.exchange_type)), '1' if h.is_response else '0',
                          '1' if h.can_use_higher_version else '0', '1' if h.is_initiator else '0', str(h.message_id)]
                except Exception:
                    ht = None
                mt = None
                if tr.parsed is not None:
                    sa, data, crypto = tr.parsed
                    try:
                        m = tr.side(lambda: M.Message.parse(data, crypto=crypto))
                        mt = (wire.r_msg(m, with_iv=False) + ['none'])
                    except M.IkeSaError:
                        mt = None
                toks += ['1'] + opt(ht) + opt(mt) + [hx(datagram.dst.packed), hx(datagram.src.packed)]
            else:
                toks += ['0']
            acq = exp = None
            if event is not None:
                import xfrm as X
                hdr, msg, attrs = X.Xfrm.parse_message(event)
                if hdr.type == X.XFRM_MSG_ACQUIRE:
                    from ipaddress import ip_network
                    fam = attrs[X.XFRMA_TMPL].family
                    sf = msg.sel.family
                    tsi = M.TrafficSelector.from_network(ip_network(msg.sel.saddr.to_ipaddr(sf)), msg.sel.sport, msg.sel.proto)
                    tsr = M.TrafficSelector.from_network(ip_network(msg.sel.daddr.to_ipaddr(sf)), msg.sel.dport, msg.sel.proto)
                    acq = [hx(msg.saddr.to_ipaddr(fam).packed), hx(msg.id.daddr.to_ipaddr(fam).packed)] + wire.r_sel(tsi) + wire.r_sel(tsr) + \
                          [str(msg.policy.index >> 3)]
                elif hdr.type == X.XFRM_MSG_EXPIRE:
                    exp = [hx(bytes(msg.state.id.spi)), '1' if msg.hard else '0']
            toks += opt(acq) + opt(exp) + ['1' if control else '0', '1' if send_fail else '0']
            ev_toks = toks[ev_start:]
            # tape
            toks.append(str(len(tr.records)))
            ran = 0
            for r in tr.records:
                if r[0] == 'new':
                    toks += ['new'] + r[1]
                else:
                    ran += 1
                    _, kind, sa, res, post, nl = r
                    toks += [kind] + post + res + [str(len(nl))] + [x for op in nl for x in op]
            line = ' '.join(toks)
            # ---- expected
            interrupted = (not ok) or len(ep.contained) > ncont
            exp_t = ['1' if interrupted else '0', str(ran), str(len(post_objs))]
            for s in post_objs:
                exp_t += tr.r_sa(s, post_objs)
            sent = w.sent[sent0:]
            cands = []
            for s in pre_objs + post_objs:
                for x in (s, s.new_ike_sa):
                    if x is not None and x.my_crypto is not None and x.my_crypto not in cands:
                        cands.append(x.my_crypto)
            st = [str(len(sent))]
            for dg in sent:
                mt = tr.r_bytes_msg(dg.data, cands + [None]) or ['?unparsable']
                st += [hx(dg.src.packed), hx(dg.dst.packed)] + mt
            exp_t += st
            nl = tr.r_nl(ep.kernel.log[nl0:])
            exp_t += [str(len(nl))] + [x for op in nl for x in op]
            exp_t += ['0', '0']
            tail = st + [str(len(nl))] + [x for op in nl for x in op] + ['0', '0']
            if control and len(ep.status_replies) > nstat:
                import json
                js = json.loads(ep.status_replies[-1].decode())
                stat_t = ['1', str(len(js))]
                for d in js:
                    stat_t += [d['my_spi'] or '-', str(int(IKESA.IkeSa.State[d['state']]))]
            else:
                stat_t = ['0']
            exp_t += stat_t
            tr.step_end(ep, {'now': w.now, 'thr': thr, 'pre_objs': pre_objs, 'post_objs': post_objs, 'event': ev_toks, 'interrupted': interrupted,
                             'ran': ran, 'tail': tail + stat_t,
                             'kind': 'dg' if datagram is not None else ('xfrm' if event is not None else ('ctl' if control else 'tick'))})
            tr.lines.append((line, ' '.join(exp_t), {'ep': ep.name, 'ok': not interrupted, 'now': w.now, 'event': 'dg' if datagram is not None else
                                                     ('xfrm' if event is not None else ('ctl' if control else 'tick'))}))
            return ok
        ep.step = step

    # ------------------------------------------------------------- comparison
    def check(self, driver, limit=20):
        """returns the list of disagreements (op, impl, model)"""
        if not self.lines:
            return []
        outs = driver.run([l for l, _, _ in self.lines])
        bad = []
        for (line, want, ctx), out in zip(self.lines, outs):
            if not ctx['ok']:
                # the loop died: only the verdict is compared (the model stops at stage boundaries)
                if not out.startswith('1 '):
                    bad.append((line, 'loop died', out[:200], ctx))
                continue
            if out != want:
                bad.append((line, want, out, ctx))
            if len(bad) >= limit:
                break
        return bad


def first_diff(a, b):
    ta, tb = a.split(' '), b.split(' ')
    for i, (x, y) in enumerate(zip(ta, tb)):
        if x != y:
            return 'token %d: impl %s model %s (context impl: %s | model: %s)' % (i, x, y, ' '.join(ta[max(0, i - 6):i + 4]), ' '.join(tb[max(0, i - 6):i + 4]))
    return 'length %d vs %d' % (len(ta), len(tb))
