"""C03 — unprotected or forged messages cannot affect an IKE_SA that has keys.

Proof: Props/C03.lean (shell model: a datagram the parser rejects changes nothing and elicits nothing, for every state and
every handler instance; composed with C07: under a key context the parser accepts only messages with a valid checksum, or
cleartext IKE_SA_INIT, for which the shell allows exactly the cached-response case).  Oracle on the real code: in every
state with keys reached by seeded histories (both roles, request-outstanding states, REKEYED and successors) forged
cleartext of every exchange type x request/response x Message ID around both windows, byte corruptions and truncations of
authentic datagrams, messages under another IKE_SA's keys, reflections — complete endpoint snapshot, kernel log and
emitted datagrams compared before / after."""
import campaign as CP
import message as M
import stateful as S
from runner import Result

LEAN_FILES = S.LEAN_MACHINE + ['PyIkev2/Model/Codec.lean']
ASSUMPTIONS = ['MAC separation for corrupted authentic datagrams (a forged checksum matches with probability 2^-96..2^-256)']


def forged_cleartext(sa, exch, is_response, mid, payloads):
    spi_i = sa.my_spi if sa.is_initiator else bytes(sa.peer_spi)
    spi_r = bytes(sa.peer_spi) if sa.is_initiator else sa.my_spi
    m = M.Message(spi_i=spi_i, spi_r=spi_r, major=2, minor=0, exchange_type=exch, is_response=is_response,
                  can_use_higher_version=False, is_initiator=not sa.is_initiator, message_id=mid, payloads=payloads,
                  encrypted_payloads=[], crypto=None)
    return bytes(m.to_bytes())


def payload_sets():
    return [[], [M.PayloadNOTIFY(M.Proposal.Protocol.NONE, M.PayloadNOTIFY.Type.INVALID_SYNTAX, b'', b'')],
            [M.PayloadDELETE(M.Proposal.Protocol.IKE, [])],
            [M.PayloadNONCE(b'\x11' * 32), M.PayloadVENDOR(b'forged')]]


def attack(h, res, budget):
    """throws forgeries at every IKE_SA with keys of both endpoints; returns findings [(key, what, replay)]"""
    w, r = h.w, h.rng
    out = []
    # let every timer that is already due fire first, so that the sweeps of the iterations below have nothing to do
    for ep in (w.A, w.B):
        for _ in range(8):
            n0, t0 = len(w.sent), [id(x) for x in ep.sas()]
            ep.step()
            if len(w.sent) == n0 and [id(x) for x in ep.sas()] == t0:
                break
    for ep in (w.A, w.B):
        for sa in list(ep.sas()):
            if sa.peer_crypto is None:
                continue
            peer = w.B if ep is w.A else w.A
            state = CP.ST[int(sa.state)]
            role = 'I' if sa.is_initiator else 'R'
            res.count('victim:%s/%s' % (state, role))
            spis = (sa.my_spi, bytes(sa.peer_spi))
            forgeries = []
            ids = sorted({max(0, sa.peer_msg_id - 1), sa.peer_msg_id, sa.peer_msg_id + 1, max(0, sa.my_msg_id - 1), sa.my_msg_id,
                          sa.my_msg_id + 1, 0, 2 ** 31})
            ps = payload_sets()
            for exch in (34, 35, 36, 37, 38, 99, 0, 1, 33, 255):
                for resp in (False, True):
                    for mid in ids:
                        if r.random() < budget:
                            forgeries.append(('cleartext exch=%d %s id=%d (expected peer %d / own %d)' % (
                                exch, 'response' if resp else 'request', mid, sa.peer_msg_id, sa.my_msg_id),
                                forged_cleartext(sa, exch, resp, mid, r.choice(ps)), exch, resp, mid))
            # corruptions / truncations of authentic datagrams addressed to this IKE_SA
            auth = [d for d in w.sent if d.sender == peer.name and len(d.data) > 28 and (
                bytes(d.data[0:8]) in spis or bytes(d.data[8:16]) in spis) and d.data[18] != 34]
            for d in auth[-3:]:
                n = len(d.data)
                pos = list(range(16, 28)) + r.sample(range(28, n), min(10, n - 28)) + [n - 1, n - 2]
                for p in pos:
                    if r.random() < budget * 2:
                        b = bytearray(d.data)
                        b[p] ^= 1 << r.randrange(8)
                        forgeries.append(('flip@%d of datagram #%d' % (p, d.id), bytes(b), None, None, None))
                for cut in (n - 1, n - 4, n - 16, n - 17, 29, 28):
                    if 28 <= cut < n and r.random() < budget * 2:
                        forgeries.append(('truncate to %d of %d, datagram #%d' % (cut, n, d.id), d.data[:cut], None, None, None))
                if r.random() < budget * 2:
                    forgeries.append(('extend datagram #%d' % d.id, d.data + b'\0', None, None, None))
            # the victim's own messages reflected back
            mine = [d for d in w.sent if d.sender == ep.name and len(d.data) > 28 and (bytes(d.data[0:8]) in spis or bytes(d.data[8:16]) in spis)]
            for d in mine[-2:]:
                forgeries.append(('reflection of own datagram #%d' % d.id, d.data, None, None, None))
            # protected under other keys: the victim's own sending keys, and another IKE_SA's
            others = [x for e in (w.A, w.B) for x in e.sas() if x is not sa and x.my_crypto is not None
                      and bytes(x.my_spi) != bytes(sa.peer_spi)]          # not the legitimate peer end of this IKE_SA
            for other in [sa] + others[:2]:
                for exch, resp, mid in ((37, False, sa.peer_msg_id), (36, False, sa.peer_msg_id), (37, True, sa.my_msg_id)):
                    spi_i = sa.my_spi if sa.is_initiator else bytes(sa.peer_spi)
                    spi_r = bytes(sa.peer_spi) if sa.is_initiator else sa.my_spi
                    w.use_side = True
                    try:
                        m = M.Message(spi_i=spi_i, spi_r=spi_r, major=2, minor=0, exchange_type=exch, is_response=resp,
                                      can_use_higher_version=False, is_initiator=not sa.is_initiator, message_id=mid, payloads=[],
                                      encrypted_payloads=[M.PayloadDELETE(M.Proposal.Protocol.IKE, [])], crypto=other.my_crypto)
                        data = bytes(m.to_bytes())
                    finally:
                        w.use_side = False
                    forgeries.append(('protected with %s keys exch=%d %s id=%d' % ('its own sending' if other is sa else "another IKE_SA's",
                                                                                   exch, 'response' if resp else 'request', mid),
                                      data, None, None, None))
            for what, data, exch, resp, mid in forgeries:
                if len(data) >= 28 and data[18] == 34 and not (data[19] & 0x20):
                    # IKE_SA_INIT requests never reach an existing IKE_SA through the controller (it creates a fresh responder:
                    # C16, C18), so the guard of IkeSa.process_message for them is exercised by calling it directly: nothing may
                    # change — liveness timer included — and the only reply allowed is the stored response for ID peer_msg_id - 1
                    if sa not in ep.sas():
                        break
                    pre = CP.full_snapshot(ep)
                    last = bytes(getattr(sa, 'last_sent_response_data', b'') or b'')
                    pid = sa.peer_msg_id
                    nl0 = len(ep.kernel.log)
                    w.current = ep
                    try:
                        ret = sa.process_message(data)
                    except Exception as ex:  # noqa
                        ret = ('raised', type(ex).__name__)
                    res.evaluations += 1
                    res.count('direct:ike-sa-init-request')
                    post = CP.full_snapshot(ep)
                    i = ep.sas().index(sa) if sa in ep.sas() else None
                    diff = [] if i is None else [(k, pre['sas'][i][k], post['sas'][i][k]) for k in pre['sas'][i]
                                                  if pre['sas'][i][k] != post['sas'][i][k] and k not in ('last_resp',)][:4]
                    allowed = (mid == pid - 1 and last and ret is not None and not isinstance(ret, tuple) and bytes(ret) == last)
                    if diff or len(ep.kernel.log) != nl0 or (ret is not None and not allowed):
                        eff = ('timer-only' if diff and all(d[0] == 'dpd_at' for d in diff) else 'state') if diff else 'reply'
                        out.append(('forgery-effect:cleartext-exch34-request-to-keyed-ike-sa:%s' % eff,
                                    '%s in state %s (%s): IkeSa.process_message(%s) -> %s, returned %s' % (
                                        ep.name, state, role, what, diff or 'nothing changed',
                                        'nothing' if ret is None else ('the stored response' if allowed else repr(ret)[:60])),
                                    {'victim': ep.name, 'state': state, 'forgery': what, 'data': data.hex(), 'direct': True}))
                        if len(out) > 30:
                            return out
                    continue
                if sa not in ep.sas():
                    break
                pre = CP.full_snapshot(ep)
                pre_objs = list(ep.sas())
                sent0, nl0 = len(w.sent), len(ep.kernel.log)
                last = bytes(getattr(sa, 'last_sent_response_data', b'') or b'')
                pid = sa.peer_msg_id
                w.inject(ep, data, src=sa.peer_addr)
                res.evaluations += 1
                post = CP.full_snapshot(ep)
                new = w.sent[sent0:]
                # an IKE_SA_INIT request never reaches an existing IKE_SA: the controller answers it from a fresh responder
                # IKE_SA (C16); that new table entry and its reply are not an effect on the victim
                fresh = [x for x in ep.sas() if x not in pre_objs]
                if fresh and exch in (34, None):
                    new = [d for d in new if not any(bytes(d.data[8:16]) == bytes(x.my_spi) for x in fresh)]
                    for x in fresh:
                        i = ep.sas().index(x)
                        post['sas'].pop(i)
                        post['ids'].pop(i)
                        ep.controller.ike_sas.remove(x)
                allowed_reply = exch == 34 and resp is False and mid == pid - 1 and last
                changed = post != pre or len(ep.kernel.log) != nl0
                bad_reply = bool(new) and not (allowed_reply and len(new) == 1 and new[0].data == last)
                if changed or bad_reply:
                    diff = []
                    if sa in ep.sas() and len(post['sas']) == len(pre['sas']):
                        i = ep.sas().index(sa)
                        diff = [(k, pre['sas'][i][k], post['sas'][i][k]) for k in pre['sas'][i] if pre['sas'][i][k] != post['sas'][i][k]
                                and k not in ('last_resp',)][:4]
                    elif sa not in ep.sas():
                        diff = ['IKE_SA removed']
                    kind = what.split(' ')[0] if exch is None else 'cleartext-exch%d-%s' % (exch, 'response' if resp else 'request')
                    eff = 'reply' if (bad_reply and not changed) else ('removed' if diff == ['IKE_SA removed'] else
                                                                         ('timer-only' if diff and all(d[0] == 'dpd_at' for d in diff) else 'state'))
                    out.append(('forgery-effect:%s:%s' % (kind, eff),
                                '%s in state %s (%s): %s -> %s%s' % (ep.name, state, role, what, diff or 'changed',
                                                                     ', %d datagram(s) emitted' % len(new) if new else ''),
                                {'victim': ep.name, 'state': state, 'forgery': what, 'data': data.hex()}))
                    if diff == ['IKE_SA removed'] or len(out) > 30:
                        return out
    return out


def run(ctx):
    res = Result()
    res.rule = ('seeded histories; at several points every IKE_SA with keys on both endpoints receives forged cleartext (exchange types '
                '34..38, 99 x request/response x IDs around both windows), bit flips and truncations of authentic datagrams, '
                'reflections, messages under other keys; distinct = distinct (schedule, forgery); non-trivial = victim has keys')
    n_hist = ctx.scale(60, 600)
    for k in range(n_hist):
        conf = (S.CONF_VARIANTS + [{'ike_lifetime': 50, 'ike_lifetime_b': 5000, 'dpd': 1000}])[k % (len(S.CONF_VARIANTS) + 1)]
        seed = ctx.rng.randrange(1 << 30)
        with CP.History(seed, trace=False, **conf) as h:
            h.oracles = [CP.o_no_escape]
            if k % 3 == 0:
                h.op('acquire', 'A', 8765)          # attack during the initial exchanges too
                for _ in range(k % 4):
                    if h.w.net:
                        h.op('deliver', h.w.net[0].id)
            else:
                h.establish(ctx.rng.choice('AB'))
            found = []
            for round_ in range(ctx.scale(4, 8)):
                for _ in range(ctx.rng.randrange(1, 9)):
                    h.random_op(loss=0.1, dup=0.1)
                found = attack(h, res, 0.25 if ctx.tier == 'quick' and not ctx.search else 0.8)
                if found:
                    break
            res.nontrivial.add(tuple(h.ops))
            for v in h.visited:
                res.count('state:%s/%s/%s' % (v[0], CP.ST.get(v[1], v[1]), 'I' if v[2] else 'R'))
            for key, what, rep in found[:4]:
                rep.update({'seed': seed, 'conf': conf, 'ops': S.ser_ops(h.ops)})
                res.fail(key, what, rep)
            for key, what, at in h.findings[:2]:
                res.fail(key, what, {'seed': seed, 'conf': conf, 'ops': S.ser_ops(h.ops[:at + 1])})
    res.sample({'forgery kinds': ['cleartext exch x req/resp x id', 'flip@pos', 'truncate', 'extend', 'reflection', 'protected with other keys']})
    return res


def replay(rep):
    return True, 'see the replay file: schedule, victim state and the forged datagram (hex)'
