"""C06 — parsing any byte string terminates (linearly) and fails only with a protocol error.

Proof: Props/C06.lean (all byte strings, all lawful key contexts, no size bound).
Correspondence: Impl.parseMsg (compiled driver) vs Message.parse on every generated input
(outcome class and parsed content).  Oracle: outcome class of the real parser under a watchdog,
executed-line count against the linear bound."""
import json
import os

import message as M
import gen_msgs as G
import wire
from common import count_lines, Timeout, VERIF
from realcodec import classify, real_crypto, craft_sk, encrypt_inner
from runner import Result
from toycrypto import ToyCrypto

LEAN_FILES = ['PyIkev2/Prim.lean', 'PyIkev2/Model/Codec.lean', 'PyIkev2/Proofs/CodecTotal.lean']
ASSUMPTIONS = [
    'cipher law (CryptoCtx.Lawful): CBC decryption raises ValueError exactly on a wrong IV size or a ciphertext that '
    'is not a whole number of blocks, else returns as many octets as given (checked against cryptography/OpenSSL here)',
    'remaining-data formulation of the offset loops (validated by the correspondence on every input)',
]
ALLOWED = ('ok', 'InvalidSyntax', 'UnsupportedCriticalPayload')
# executed-line bound: A per input octet + B per SPI slot announced by DELETE payloads + D
LINE_A, LINE_B, LINE_D = 60, 4, 1500


def delete_slots(data):
    """upper bound of the DELETE loop iterations: sum of every 16-bit value that could be a num_spis field is too
    coarse; we use what the real parser reports when it succeeds, else 65535 per 8 octets"""
    return (len(data) // 8 + 1) * 65535


def inputs(ctx, res):
    rng = ctx.rng
    toy = [ToyCrypto(16, 12), ToyCrypto(16, 16), ToyCrypto(8, 32)]
    reals = [real_crypto(128, 'sha1', rng), real_crypto(256, 'sha256', rng), real_crypto(256, 'sha512', rng)]
    # 0. corpus of past failures
    cdir = os.path.join(VERIF, 'corpus', 'C06')
    if os.path.isdir(cdir):
        for fn in sorted(os.listdir(cdir)):
            with open(os.path.join(cdir, fn)) as fh:
                c = json.load(fh)
            crypto = None
            if c.get('crypto', '-').startswith('toy'):
                _, b, i = c['crypto'].split(':')
                crypto = ToyCrypto(int(b), int(i))
            yield 'corpus:' + fn, bytes.fromhex(c['data']), bool(c.get('header_only')), crypto
    # 1. handcrafted adversarial datagrams at every nesting level
    for name, d in G.handcrafted():
        yield 'hand:' + name.split(' ')[0], d, False, None
    # 2. random datagrams
    for name, d in G.random_datagrams(rng, ctx.scale(1500, 60000)):
        yield name, d, rng.random() < 0.1, rng.choice([None, None, toy[0]])
    # 3. authentic messages, in clear and protected; truncations and mutations of them
    n_auth = ctx.scale(12, 150)
    cap = ctx.scale(40, 400)
    for k in range(n_auth):
        enc = k % 2 == 1
        crypto = rng.choice(toy + reals) if enc else None
        bs = crypto.cipher.block_size if crypto else 16
        d = G.g_message(rng, encrypted=enc, block=bs)
        try:
            msg = wire.mk_message(d, crypto)
            data = bytes(msg.to_bytes())
        except Exception:
            continue
        yield 'authentic', data, False, crypto
        yield 'authentic-hdr', data, True, crypto
        for name, m in G.truncations(data, rng, cap):
            yield 'trunc', m, False, crypto
        for name, m in G.length_mutations(data, rng, cap // 4):
            yield 'lenmut', m, False, crypto
        for name, m in G.type_mutations(data, rng, cap // 4):
            yield 'typemut', m, False, crypto
        for name, m in G.bit_flips(data, rng, cap // 2):
            yield 'bitflip', m, False, crypto
        if enc:
            # 4. bodies re-encrypted and re-MACed with the right keys after mutation
            inner = bytes(M.Message._payloads_to_bytes(msg.encrypted_payloads))
            first = int(msg.encrypted_payloads[0].type) if msg.encrypted_payloads else 0
            iv = bytes(d['iv'])
            muts = [('exact', inner)]
            muts += list(G.truncations(inner, rng, cap // 4))
            muts += list(G.length_mutations(inner, rng, cap // 8, start=0))
            muts += list(G.type_mutations(inner, rng, cap // 8, start=0))
            for name, mi in muts:
                for f in (first, 99, 0):
                    yield 'reenc', craft_sk(crypto, f, encrypt_inner(crypto, mi, iv)), False, crypto
                    if f != first and rng.random() < 0.7:
                        break
            # wrong pad octets
            for po in (0, 1, bs - 1, bs, 200, 255):
                yield 'reenc-pad', craft_sk(crypto, first, encrypt_inner(crypto, inner, iv, pad_octet=po)), False, crypto
    # 4b. cleartext (no SK payload) of every exchange-type class under a key context: only IKE_SA_INIT may pass
    for exch in (0, 1, 33, 34, 35, 36, 37, 38, 99, 255):
        for first, body in ((0, b''), (41, bytes([0, 0, 0, 8, 0, 0, 0x40, 0x07]))):
            d = bytes(8) + rng.rbytes(8) + bytes([first, 0x20, exch, rng.choice([0, 8, 0x20, 0x28])]) + bytes(4) + \
                (28 + len(body)).to_bytes(4, 'big') + body
            yield 'keyed-cleartext', d, False, toy[0]
    # 5. correctly MACed SK payloads with malformed sizes
    for crypto in toy + reals:
        bs = crypto.cipher.block_size
        for ivlen in (0, 1, bs - 1, bs):
            for ctlen in (0, 1, bs - 1, bs, bs + 1, 2 * bs):
                body = rng.rbytes(ivlen + ctlen)
                yield 'sk-sizes', craft_sk(crypto, rng.choice([0, 41, 99]), body), False, crypto
        # SK body shorter than the checksum itself
        for short in range(0, 6):
            d = bytes(8) + bytes(8) + bytes([46, 0x20, 37, 8]) + bytes(4) + (32 + short).to_bytes(4, 'big') + \
                bytes([0, 0]) + (4 + short).to_bytes(2, 'big') + bytes(short)
            yield 'sk-short', d, False, crypto


def run(ctx):
    res = Result()
    res.rule = ('inputs: corpus, handcrafted length/next-payload fields at each nesting level, random datagrams, '
                'authentic messages of every payload class (clear / toy / AES+HMAC) with every sampled truncation, '
                '16-bit length mutation, type-octet mutation and bit flip, inner bodies re-encrypted and re-MACed '
                'after mutation, SK payloads with malformed sizes; distinct = distinct byte string x key context; '
                'non-trivial = at least a complete 28-octet header')
    ops, keep = [], []
    seen = set()
    line_budget = ctx.scale(400, 6000)
    for kind, data, ho, crypto in inputs(ctx, res):
        key = (data, ho, getattr(crypto, 'spec', 'real') if crypto else None)
        if key in seen:
            continue
        seen.add(key)
        res.evaluations += 1
        tag, msg, site = classify(lambda: M.Message.parse(data, header_only=ho, crypto=crypto))
        res.count('kind:' + kind)
        res.count('outcome:' + tag)
        if len(data) >= 28:
            res.nontrivial.add(hash(key))
        if tag not in ALLOWED:
            res.fail('%s@%s' % (tag, site), 'Message.parse %s on a %d-octet datagram (%s)' % (tag, len(data), kind),
                     {'data': data.hex(), 'header_only': ho,
                      'crypto': (getattr(crypto, 'spec', None) or 'real') if crypto else '-', 'kind': kind})
        # linear bound on executed lines (sampled: tracing is slow)
        if line_budget > 0 and tag != 'hang' and (kind.startswith('hand') or ctx.rng.random() < 0.05):
            line_budget -= 1
            limit = LINE_A * len(data) + LINE_B * delete_slots(data) + LINE_D
            try:
                _, n = count_lines(lambda: M.Message.parse(data, header_only=ho, crypto=crypto), limit=limit)
                nd = 0
                if tag == 'ok':
                    for p in msg.payloads + msg.encrypted_payloads:
                        if isinstance(p, M.PayloadDELETE):
                            nd += len(p.spis)
                tight = LINE_A * len(data) + LINE_B * nd + LINE_D
                res.count('lines-checked')
                if tag == 'ok' and n > tight:
                    res.fail('superlinear@Message.parse', '%d lines for %d octets (bound %d)' % (n, len(data), tight),
                             {'data': data.hex(), 'header_only': ho, 'crypto': '-', 'lines': n})
            except Timeout:
                res.fail('superlinear@Message.parse', 'more than %d lines for %d octets' % (limit, len(data)),
                         {'data': data.hex(), 'header_only': ho, 'crypto': '-'})
        # correspondence with the model (toy or no key context only: the model is parametric in the cipher)
        if ctx.driver is not None and (crypto is None or getattr(crypto, 'spec', None)):
            spec = crypto.spec if crypto else '-'
            ops.append('parse %s %d %s' % (data.hex() or '-', 1 if ho else 0, spec))
            keep.append((kind, data, ho, spec, tag, msg))
        if kind == 'authentic' and len(res.samples) < 4:
            res.sample({'kind': kind, 'octets': len(data), 'outcome': tag, 'data': data.hex()[:160]})
        elif tag not in ALLOWED and len(res.samples) < 6:
            res.sample({'kind': kind, 'octets': len(data), 'outcome': tag, 'data': data.hex()[:160]})
    if ctx.driver is not None:
        outs = ctx.driver.run(ops)
        for (kind, data, ho, spec, tag, msg), out in zip(keep, outs):
            impl = tag if tag != 'ok' else 'ok ' + wire.msg_line(msg)
            if impl != out:
                res.mismatch('parse %s ho=%s crypto=%s' % (data.hex(), ho, spec), impl[:300], out[:300])
        res.extra['model_evaluations'] = len(ops)
    return res


def replay(rep):
    r = rep['replay']
    crypto = None
    if r.get('crypto', '-').startswith('toy'):
        _, b, i = r['crypto'].split(':')
        crypto = ToyCrypto(int(b), int(i))
    elif r.get('crypto') == 'real':
        return True, 'replay needs the key context of the run (real AES/HMAC keys are derived from the seed)'
    data = bytes.fromhex(r['data'])
    tag, _, site = classify(lambda: M.Message.parse(data, header_only=r.get('header_only', False), crypto=crypto))
    ok = tag in ALLOWED
    return ok, 'Message.parse -> %s%s' % (tag, '' if ok else ' at ' + str(site))
