"""C04 — key material is derived exactly as RFC 7296 prescribes.

Proof: Props/C04.lean (parametric in the prf; tables and data flow regenerated from the source).
Correspondence / oracle: the Lean driver — Impl (interpreting the extracted data flow) *and* Spec (RFC text) instantiated
with the Lean HMAC-SHA1/256/512 — against crypto.Prf / IkeSa.generate_*_key_material / MODPDH / ECDH."""
import hashlib
import hmac as pyhmac
from collections import namedtuple

import crypto as C
import ikesa as I
import message as M
from runner import Result

LEAN_FILES = ['PyIkev2/Model/Keys.lean', 'PyIkev2/Proofs/Keys.lean', 'PyIkev2/Spec/Groups.lean']
ASSUMPTIONS = ['the prf has a fixed non-zero output length (HMAC)', 'primality / safe-primality of the MODP constants is not proved',
               'ECP groups: curve arithmetic is OpenSSL\'s; only the group-number table, widths, encoding and commutativity are checked',
               'piBits literal = floor(2^8062 * pi) (recomputed with mpmath on thorough runs when available)']
TRUSTED = ['Lean SHA-1/SHA-256/SHA-512/HMAC of the driver (validated against hashlib on every run; no theorem depends on them)']

PRFS = {'sha1': (2, hashlib.sha1, 20), 'sha256': (5, hashlib.sha256, 32), 'sha512': (7, hashlib.sha512, 64)}
INTEGS = {'sha1': (2, 20), 'sha256': (12, 32), 'sha512': (14, 64)}
T = M.Transform


def hx(b):
    return bytes(b).hex() or '-'


def kr(k):
    return ' '.join('None' if x is None else hx(x) for x in (k.sk_d, k.sk_ai, k.sk_ar, k.sk_ei, k.sk_er, k.sk_pi, k.sk_pr))


def proposal(prf, integ, keybits, proto=1):
    tr = [T(1, 12, keybits), T(3, INTEGS[integ][0]), T(2, PRFS[prf][0])]
    return M.Proposal(1, proto, b'', tr)


def stub_sa(is_initiator):
    sa = object.__new__(I.IkeSa)
    sa.is_initiator = is_initiator
    sa.my_spi = b'\x11' * 8
    sa.my_crypto = sa.peer_crypto = None
    return sa


def ref_prfplus(h, key, seed, size):
    out, t, i = b'', b'', 1
    while len(out) < size:
        t = pyhmac.new(key, t + seed + bytes([i]), h).digest()
        out += t
        i += 1
    return out[:size]


def ref_ike_keys(prf, integ, keybits, ni, nr, spi_i, spi_r, secret, old):
    """RFC 7296 2.14 / 2.18, written from the RFC text with hmac/hashlib only"""
    h, hl = PRFS[prf][1], PRFS[prf][2]
    skeyseed = pyhmac.new(ni + nr, secret, h).digest() if not old else pyhmac.new(old, secret + ni + nr, h).digest()
    il, el = INTEGS[integ][1], keybits // 8
    km = ref_prfplus(h, skeyseed, ni + nr + spi_i + spi_r, 3 * hl + 2 * il + 2 * el)
    out, off = [], 0
    for n in (hl, il, il, el, el, hl, hl):        # SK_d | SK_ai | SK_ar | SK_ei | SK_er | SK_pi | SK_pr
        out.append(km[off:off + n]); off += n
    return out


def ref_child_keys(prf, integ, encr_len, sk_d, seed):
    """RFC 7296 2.17: KEYMAT = prf+(SK_d, [g^ir |] Ni | Nr); encryption before integrity, initiator first"""
    h = PRFS[prf][1]
    il = INTEGS[integ][1]
    km = ref_prfplus(h, sk_d, seed, 2 * il + 2 * encr_len)
    ei, ai, er, ar = km[:encr_len], km[encr_len:encr_len + il], km[encr_len + il:2 * encr_len + il], km[2 * encr_len + il:]
    return ei, ai, er, ar


class ChosenKeys:
    """makes crypto.MODPDH / crypto.ECDH draw a private key of our choosing (library objects only are replaced)"""

    def __init__(self):
        self.x = None
        self.real_dh, self.real_ec = C.dh, C.ec

    def __enter__(self):
        import types
        me = self
        rdh, rec = self.real_dh, self.real_ec

        class PN:
            def __init__(self, p, g):
                self.real = rdh.DHParameterNumbers(p, g)
                self.p, self.g = p, g

            def parameters(self, backend=None):
                pn = self

                class Params:
                    def generate_private_key(self_inner):
                        x = me.x
                        pub = rdh.DHPublicNumbers(pow(pn.g, x, pn.p), pn.real)
                        return rdh.DHPrivateNumbers(x, pub).private_key()
                return Params()
        C.dh = types.SimpleNamespace(DHParameterNumbers=PN, DHPublicNumbers=lambda y, pn: rdh.DHPublicNumbers(y, pn.real))
        C.ec = types.SimpleNamespace(
            generate_private_key=lambda curve, backend=None: rec.derive_private_key(me.x, curve),
            SECP256R1=rec.SECP256R1, SECP384R1=rec.SECP384R1, SECP521R1=rec.SECP521R1, ECDH=rec.ECDH,
            EllipticCurvePublicNumbers=rec.EllipticCurvePublicNumbers)
        return self

    def __exit__(self, *a):
        C.dh, C.ec = self.real_dh, self.real_ec


def run(ctx):
    res = Result()
    rng = ctx.rng
    res.rule = ('every combination of 3 PRFs x 3 integrity algorithms x 2 AES key lengths (x ESP/AH for CHILD keys), nonces of '
                '16..256 octets, SPIs, secrets incl. leading zero octets, with and without old SK_d / fresh g^ir; prf+ for '
                'every output length class; MODP exponentiation for all five groups; ECP encoding; distinct = distinct input tuple')
    ops, expect = [], []

    def both(op_impl, op_spec, want):
        ops.append(op_impl); expect.append(want)
        ops.append(op_spec); expect.append(want)

    # 0. Lean hashes vs hashlib
    for _ in range(ctx.scale(60, 600)):
        a = rng.choice(list(PRFS))
        d = rng.rbytes(rng.choice([0, 1, 55, 56, 63, 64, 65, 111, 112, 127, 128, 129, rng.randrange(0, 400)]))
        k = rng.rbytes(rng.choice([0, 1, 20, 32, 64, 65, 128, 129, 200]))
        ops.append('hash %s %s' % (a, hx(d))); expect.append(hx(PRFS[a][1](d).digest()))
        ops.append('hmac %s %s %s' % (a, hx(k), hx(d))); expect.append(hx(pyhmac.new(k, d, PRFS[a][1]).digest()))
        res.evaluations += 2
    # 1. prf+ for every output length class
    for a in PRFS:
        prf = C.Prf(T(2, PRFS[a][0]))
        hl = PRFS[a][2]
        for size in [0, 1, hl - 1, hl, hl + 1, 2 * hl, 7 * hl + 3, 255 * hl - 1, 255 * hl, 255 * hl + 1] + \
                [rng.randrange(0, 600) for _ in range(ctx.scale(6, 80))]:
            key, seed = rng.rbytes(rng.choice([0, 16, hl, 100])), rng.rbytes(rng.randrange(0, 80))
            res.evaluations += 1
            res.nontrivial.add(('prfplus', a, size, key, seed))
            try:
                out = 'ok ' + hx(prf.prfplus(key, seed, size))
            except OverflowError:
                out = 'py:OverflowError'
            res.count('prfplus:' + out.split(' ')[0])
            ops.append('prfplus %s %s %s %d' % (a, hx(key), hx(seed), size)); expect.append(out)
            if size <= 255 * hl:
                ops.append('specprfplus %s %s %s %d' % (a, hx(key), hx(seed), size)); expect.append(out)
            # independent reference right here as well
            ref, t, i = b'', b'', 1
            while len(ref) < size and i < 256:
                t = pyhmac.new(key, t + seed + bytes([i]), PRFS[a][1]).digest()
                ref += t
                i += 1
            if size <= 255 * hl and out != 'ok ' + hx(ref[:size]):
                res.fail('prfplus-differs', 'prf+ != RFC 7296 2.13 for %s size %d' % (a, size), {'alg': a, 'size': size})
    # 2. SK_* for all suites, initial and rekey
    for prf in PRFS:
        for integ in INTEGS:
            for keybits in (128, 256):
                for rep in range(ctx.scale(2, 12)):
                    ni = rng.rbytes(rng.choice([16, 32, 255, 256, rng.randrange(16, 257)]))
                    nr = rng.rbytes(rng.choice([16, 32, 256, rng.randrange(16, 257)]))
                    spi_i, spi_r = rng.rbytes(8), rng.rbytes(8)
                    secret = rng.choice([rng.rbytes(32), b'\x00' + rng.rbytes(31), b'\x00\x00' + rng.rbytes(254), rng.rbytes(66)])
                    old = rng.choice([None, None, rng.rbytes(PRFS[prf][2])]) if rep % 2 else None
                    sa = stub_sa(bool(rep % 2))
                    res.evaluations += 1
                    res.nontrivial.add(('ike', prf, integ, keybits, ni, nr, secret, old))
                    k = I.IkeSa.generate_ike_sa_key_material(sa, proposal(prf, integ, keybits), ni, nr, spi_i, spi_r, secret, old)
                    res.count('ike-keys:%s/%s/%d/%s' % (prf, integ, keybits, 'rekey' if old else 'initial'))
                    args = '%s %d %d %d %s %s %s %s %s %s' % (prf, PRFS[prf][2], INTEGS[integ][1], keybits // 8, hx(ni), hx(nr),
                                                             hx(spi_i), hx(spi_r), hx(secret), hx(old) if old else 'none')
                    both('ikekeys ' + args, 'speckeys ' + args, 'ok ' + kr(k))
                    if list(k) != ref_ike_keys(prf, integ, keybits, ni, nr, spi_i, spi_r, secret, old):
                        res.fail('sk-keys-differ:%s' % ('rekey' if old else 'initial'),
                                 'SKEYSEED / SK_* differ from RFC 7296 2.14%s computed independently' % (' / 2.18' if old else ''),
                                 {'args': 'prf hl il el Ni Nr SPIi SPIr g^ir SK_d(old): ' + args, 'implementation': kr(k)})
                    res.sample({'op': ('ikekeys ' + args)[:200], 'sk_d': k.sk_d.hex()}, cap=2)
                    # role assignment
                    mine, peer = sa.my_crypto, sa.peer_crypto
                    want_me = (k.sk_ei, k.sk_ai, k.sk_pi) if sa.is_initiator else (k.sk_er, k.sk_ar, k.sk_pr)
                    want_peer = (k.sk_er, k.sk_ar, k.sk_pr) if sa.is_initiator else (k.sk_ei, k.sk_ai, k.sk_pi)
                    if (mine.sk_e, mine.sk_a, mine.sk_p) != want_me or (peer.sk_e, peer.sk_a, peer.sk_p) != want_peer:
                        res.fail('role-keys', 'my_crypto/peer_crypto do not carry the keys of their direction', {'initiator': sa.is_initiator})
                    # CHILD keys under this IKE_SA (ESP and AH, with and without g^ir)
                    for proto in (3, 2):
                        child = M.Proposal(1, proto, b'', ([T(1, 12, keybits)] if proto == 3 else []) + [T(3, INTEGS[integ][0]), T(5, 0)])
                        seed = rng.choice([b'', rng.rbytes(32), b'\x00' + rng.rbytes(47)]) + ni + nr
                        ck = I.IkeSa.generate_child_sa_key_material(sa, child, seed, k.sk_d)
                        res.evaluations += 1
                        cargs = '%s %d %d %s %s' % (prf, INTEGS[integ][1], keybits // 8 if proto == 3 else 0, hx(k.sk_d), hx(seed))
                        both('childkeys ' + cargs, 'specchildkeys ' + cargs, 'ok ' + kr(ck))
                        if (ck.sk_ei, ck.sk_ai, ck.sk_er, ck.sk_ar) != ref_child_keys(prf, integ, keybits // 8 if proto == 3 else 0, k.sk_d, seed):
                            res.fail('child-keymat-differs', 'CHILD_SA KEYMAT differs from RFC 7296 2.17 computed independently',
                                     {'args': 'prf il el SK_d seed: ' + cargs, 'implementation': kr(ck)})
    ops.append('rolekeys 1'); expect.append('03 01 05 04 02 06')
    ops.append('rolekeys 0'); expect.append('04 02 06 03 01 05')
    # 3. Diffie-Hellman: fixed-width encodings, group constants, agreement, leading zeros
    groups = [14, 15] if ctx.tier == 'quick' else [14, 15, 16, 17, 18]
    for g in groups:
        for rep in range(ctx.scale(2, 4)):
            a, b = C.MODPDH(g), C.MODPDH(g)
            p = int(C.MODPDH._group_dict[g], 16)
            xa = a._private_key.private_numbers().x
            res.evaluations += 1
            res.nontrivial.add(('modp', g, xa))
            res.count('dh:modp%d' % g)
            ops.append('modexp %d 02 %s' % (g, hx(xa.to_bytes((xa.bit_length() + 7) // 8 or 1, 'big'))))
            expect.append(hx(a.public_key))
            if len(a.public_key) != a.key_len or a.key_len * 8 != p.bit_length():
                res.fail('dh-width', 'public value is not a fixed-width encoding', {'group': g})
            a.compute_secret(b.public_key)
            b.compute_secret(a.public_key)
            ref = pow(int.from_bytes(b.public_key, 'big'), xa, p).to_bytes(a.key_len, 'big')
            if a.shared_secret != b.shared_secret or a.shared_secret != ref:
                res.fail('dh-secret', 'shared secret != fixed-width g^ab mod p', {'group': g})
            ops.append('modexp %d %s %s' % (g, hx(b.public_key), hx(xa.to_bytes((xa.bit_length() + 7) // 8 or 1, 'big'))))
            expect.append(hx(a.shared_secret))
        # leading zero octet in the secret: search a peer public value that produces one
        a = C.MODPDH(g)
        p = int(C.MODPDH._group_dict[g], 16)
        xa = a._private_key.private_numbers().x
        for _ in range(3000):
            y = rng.randrange(2, p - 2)
            s = pow(y, xa, p)
            if s >> (a.key_len * 8 - 8) == 0:
                try:
                    a.compute_secret(y.to_bytes(a.key_len, 'big'))
                except ValueError:
                    break
                res.evaluations += 1
                res.count('dh:leading-zero-secret')
                if a.shared_secret != s.to_bytes(a.key_len, 'big'):
                    res.fail('dh-leading-zeros', 'leading zero octets of the shared secret not preserved', {'group': g, 'peer': hex(y)})
                break
    # public values with leading zero octets, forced by choosing the private key (2^x < p needs no reduction)
    with ChosenKeys() as ck_:
        for g in groups:
            p = int(C.MODPDH._group_dict[g], 16)
            width = (p.bit_length() + 7) // 8
            for x in (2, 9, 1000, width * 8 - 17, rng.randrange(2, width * 8 - 8)):
                ck_.x = x
                a = C.MODPDH(g)
                res.evaluations += 1
                res.nontrivial.add(('modp-chosen', g, x))
                res.count('dh:leading-zero-public')
                if bytes(a.public_key) != pow(2, x, p).to_bytes(width, 'big'):
                    res.fail('dh-public-width', 'MODP public value with leading zero octets is not the fixed-width encoding '
                             '(%d octets for a %d-octet group)' % (len(a.public_key), width), {'group': g, 'private_key': x})
                ops.append('modexp %d 02 %s' % (g, hx(x.to_bytes((x.bit_length() + 7) // 8 or 1, 'big'))))
                expect.append(hx(pow(2, x, p).to_bytes(width, 'big')))
                # and the peer's view of it
                ck_.x = rng.randrange(2, p - 2)
                b = C.MODPDH(g)
                b.compute_secret(a.public_key)
                if b.shared_secret != pow(pow(2, x, p), ck_.x, p).to_bytes(width, 'big'):
                    res.fail('dh-secret', 'shared secret != fixed-width g^ab mod p', {'group': g, 'private_keys': [x, ck_.x]})
        for g, width in ((19, 32), (20, 48), (21, 66)):
            found = 0
            for d in range(1, 1500):
                ck_.x = d
                a = C.ECDH(g)
                pn = a._private_key.public_key().public_numbers()
                if pn.x >> (width * 8 - 8) == 0 or pn.y >> (width * 8 - 8) == 0 or (g == 21 and found < 1):
                    found += 1
                    res.evaluations += 1
                    res.count('dh:ecp-leading-zero-public')
                    if bytes(a.public_key) != pn.x.to_bytes(width, 'big') + pn.y.to_bytes(width, 'big') or a.key_len != width:
                        res.fail('ecdh-encoding', 'ECP public value with a leading zero octet is not x||y fixed width',
                                 {'group': g, 'private_key': d})
                    if found >= 2:
                        break
    for g, width in ((19, 32), (20, 48), (21, 66)):
        for rep in range(ctx.scale(2, 10)):
            a, b = C.ECDH(g), C.ECDH(g)
            pn = a._private_key.public_key().public_numbers()
            res.evaluations += 1
            res.count('dh:ecp%d' % g)
            if a.key_len != width or a.public_key != pn.x.to_bytes(width, 'big') + pn.y.to_bytes(width, 'big'):
                res.fail('ecdh-encoding', 'public value is not x||y fixed width', {'group': g})
            a.compute_secret(b.public_key)
            b.compute_secret(a.public_key)
            if a.shared_secret != b.shared_secret or len(a.shared_secret) != width:
                res.fail('ecdh-secret', 'ECDH secrets differ or have the wrong width', {'group': g})
    # 4. group constants against the independent definition (formula) — supports the theorem, and is the failing-input search
    try:
        try:
            import mpmath
            mpmath.mp.prec = 8300
            pib = int(mpmath.floor(mpmath.pi * mpmath.mpf(2) ** 8062))
        except ImportError:
            import subprocess
            out = subprocess.run(['python3-vt', '-c', 'import mpmath; mpmath.mp.prec=8300; '
                                  'print(int(mpmath.floor(mpmath.pi*mpmath.mpf(2)**8062)))'],
                                 capture_output=True, text=True, timeout=120)
            if out.returncode != 0:
                raise ImportError('mpmath unavailable')
            pib = int(out.stdout.strip())
        for g, n, c in ((14, 2048, 124476), (15, 3072, 1690314), (16, 4096, 240904), (17, 6144, 929484), (18, 8192, 4743158)):
            want = 2 ** n - 2 ** (n - 64) - 1 + 2 ** 64 * ((pib >> (8062 - (n - 130))) + c)
            res.evaluations += 1
            if int(C.MODPDH._group_dict[g], 16) != want:
                res.fail('modp-prime-%d' % g, 'prime of group %d differs from its RFC 3526 definition' % g, {'group': g})
        res.extra['pi_recomputed'] = True
    except (ImportError, OSError, ValueError):
        res.extra['pi_recomputed'] = False
    if ctx.driver is not None:
        outs = ctx.driver.run(ops)
        for op, want, out in zip(ops, expect, outs):
            if out != want:
                res.mismatch(op[:260], want[:160], out[:160])
        res.extra['model_evaluations'] = len(ops)
    end_to_end_schedule(ctx, res)
    return res


def end_to_end_schedule(ctx, res):
    """both ends of every negotiation feed the SAME inputs to the key schedule: whenever two endpoints derive IKE_SA or CHILD_SA
    keys for the same exchange (same nonces), the shared secret, the old SK_d, the SPIs and hence the keys are identical —
    through INVALID_KE_PAYLOAD retries of IKE_SA_INIT / CREATE_CHILD_SA / IKE_SA rekey and through crossing PFS exchanges,
    where a key pair kept in the wrong place is used with the wrong exchange"""
    import campaign as CP
    import ikesa as IKESA
    import stateful as S
    rng = ctx.rng
    scenarios = [
        ('ike-rekey-retry-modp', {'dh': ['15', '14'], 'dh_b': ['14', '15'], 'ike_lifetime': 100, 'ike_lifetime_b': 5000, 'dpd': 3000}),
        ('ike-rekey-retry-ecp', {'dh': ['20', '19'], 'dh_b': ['19', '20'], 'ike_lifetime': 100, 'ike_lifetime_b': 5000, 'dpd': 3000}),
        ('ike-rekey-retry-by-responder', {'dh': ['14', '15'], 'dh_b': ['15', '14'], 'ike_lifetime': 5000, 'ike_lifetime_b': 100, 'dpd': 3000}),
        ('crossing-pfs-ecp', {'child_dh': ['19'], 'dpd': 3000, 'ike_lifetime': 5000}),
        ('crossing-pfs-modp', {'child_dh': ['14'], 'dpd': 3000, 'ike_lifetime': 5000}),
        ('child-retry', {'child_dh': ['20', '19'], 'child_dh_b': ['19', '20'], 'dpd': 3000, 'ike_lifetime': 5000}),
        # the responder's first choice is not the initiator's: the keys are cut for what was CHOSEN (other key lengths), not for what was offered first
        ('child-preference-orders', {'child_encr': ['aes128', 'aes256'], 'child_encr_b': ['aes256', 'aes128'], 'child_integ': ['sha1', 'sha512'],
                                     'child_integ_b': ['sha512', 'sha1'], 'dpd': 3000, 'ike_lifetime': 5000}),
        ('child-preference-orders-pfs', {'child_encr': ['aes256', 'aes128'], 'child_encr_b': ['aes128'], 'child_integ': ['sha256', 'sha1'],
                                         'child_integ_b': ['sha1'], 'child_dh': ['14'], 'dpd': 3000, 'ike_lifetime': 5000}),
    ]
    for name, conf in scenarios:
        seed = rng.randrange(1 << 30)
        ike_log, child_log = [], []
        real_ike = IKESA.IkeSa.generate_ike_sa_key_material
        real_child = IKESA.IkeSa.generate_child_sa_key_material

        def ike_wrapper(sa, ike_proposal, nonce_i, nonce_r, spi_i, spi_r, shared_secret, old_sk_d=None):
            k = real_ike(sa, ike_proposal, nonce_i, nonce_r, spi_i, spi_r, shared_secret, old_sk_d)
            ike_log.append({'ep': cur[0].current.name, 'ni': bytes(nonce_i), 'nr': bytes(nonce_r), 'spi_i': bytes(spi_i), 'spi_r': bytes(spi_r),
                            'secret': bytes(shared_secret), 'old': bytes(old_sk_d or b''), 'keys': tuple(bytes(x) for x in k)})
            return k

        def child_wrapper(sa, child_proposal, keyseed, sk_d):
            k = real_child(sa, child_proposal, keyseed, sk_d)
            child_log.append({'ep': cur[0].current.name, 'seed': bytes(keyseed), 'sk_d': bytes(sk_d),
                              'keys': tuple(bytes(x or b'') for x in (k.sk_ei, k.sk_ai, k.sk_er, k.sk_ar))})
            return k
        cur = [None]
        IKESA.IkeSa.generate_ike_sa_key_material = ike_wrapper
        IKESA.IkeSa.generate_child_sa_key_material = child_wrapper
        try:
            with CP.History(seed, trace=False, **conf) as h:
                h.oracles = [CP.o_no_escape, CP.o_sad_equals_tracked]
                w = h.w
                cur[0] = w
                rep = {'seed': seed, 'scenario': name, 'conf': {a: str(b) for a, b in conf.items()}}
                res.evaluations += 1
                res.nontrivial.add(('e2e-schedule', name))
                res.count('e2e-schedule:' + name)
                if not h.establish('A'):
                    res.fail('e2e-not-established:' + name, 'the initial exchanges did not complete', rep)
                    continue
                h.settle(30)
                if name.startswith('ike-rekey'):
                    h.op('tick', 106)
                    h.settle(60)
                    h.op('acquire', 'A', 4001)            # and the new IKE_SA must be usable by both
                    h.settle(40)
                elif name.startswith('crossing'):
                    h.op('acquire', 'A', 4001)
                    h.settle(40)
                    ka = [c for s_ in w.A.sas() for c in s_.child_sas]
                    kb = [c for s_ in w.B.sas() for c in s_.child_sas]
                    if len(ka) >= 2 and len(kb) >= 2:
                        # the two ends rekey DIFFERENT CHILD_SAs at the same moment: each answers the other's request while its own is in flight
                        h.op('expire', 'A', ka[0].inbound_spi, False)
                        h.op('expire', 'B', kb[1].inbound_spi, False)
                    h.settle(60)
                else:
                    h.op('acquire', 'A', 4001)
                    h.settle(40)
                    h.op('acquire', 'B', 4002)
                    h.settle(40)
                # pair the derivations of the two ends by their nonces
                by = {}
                for r_ in ike_log:
                    by.setdefault(('ike', r_['ni'], r_['nr']), []).append(r_)
                for r_ in child_log:
                    by.setdefault(('child', r_['seed'][-32:]), []).append(r_)
                pairs = 0
                for key, recs in by.items():
                    eps = set(r_['ep'] for r_ in recs)
                    if len(eps) < 2:
                        continue
                    pairs += 1
                    a = next(r_ for r_ in recs if r_['ep'] == 'A')
                    b = next(r_ for r_ in recs if r_['ep'] == 'B')
                    if key[0] == 'ike':
                        for f in ('secret', 'old', 'spi_i', 'spi_r'):
                            if a[f] != b[f]:
                                res.fail('schedule-input-differs:%s' % f, '%s: the two ends derive the keys of one IKE_SA from different %s '
                                         '(%d / %d octets)' % (name, f, len(a[f]), len(b[f])), rep)
                        if a['keys'] != b['keys']:
                            res.fail('ike-keys-differ', '%s: the two ends hold different SK_* for the same IKE_SA' % name, rep)
                    else:
                        if a['seed'] != b['seed'] or a['sk_d'] != b['sk_d']:
                            res.fail('schedule-input-differs:child', '%s: the two ends derive the keys of one CHILD_SA from different g^ir | Ni | Nr '
                                     'or SK_d (%d / %d octets)' % (name, len(a['seed']), len(b['seed'])), rep)
                        elif a['keys'] != b['keys']:
                            res.fail('child-keys-differ', '%s: the two ends hold different KEYMAT for the same CHILD_SA' % name, rep)
                res.count('e2e-schedule:pairs', pairs)
                if pairs < 2:
                    res.fail('e2e-schedule-vacuous:' + name, 'fewer than two key derivations were made by both ends (%d)' % pairs, rep)
                for key, what, at in h.findings[:2]:
                    res.fail(key, what, dict(rep, ops=S.ser_ops(h.ops[:at + 1])))
        finally:
            IKESA.IkeSa.generate_ike_sa_key_material = real_ike
            IKESA.IkeSa.generate_child_sa_key_material = real_child


def replay(rep):
    return True, 'see replay file (algorithm names and hex inputs of the failing derivation)'
