"""Canonical token rendering of message.py objects (same grammar as lean/PyIkev2/Model/Wire.lean)
and construction of message.py objects from an abstract description (dicts)."""
from ipaddress import ip_address

import message as M


def hx(b):
    b = bytes(b)
    return b.hex() if b else '-'


def r_transform(t):
    return [str(int(t.type)), str(int(t.id)), str(t.keylen) if t.keylen is not None else '-1']


def r_proposal(p):
    out = [str(int(p.num)), str(int(p.protocol_id)), hx(p.spi), str(len(p.transforms))]
    for t in p.transforms:
        out += r_transform(t)
    return out


def r_sel(s):
    return [str(int(s.ts_type)), str(int(s.ip_proto)), str(s.start_port), str(s.end_port),
            hx(s.start_addr.packed), hx(s.end_addr.packed)]


def r_body(p):
    if isinstance(p, M.PayloadSA):
        out = ['sa', str(len(p.proposals))]
        for x in p.proposals:
            out += r_proposal(x)
        return out
    if isinstance(p, M.PayloadKE):
        return ['ke', str(int(p.dh_group)), hx(p.ke_data)]
    if isinstance(p, M.PayloadID):
        return ['id', str(int(p.id_type)), hx(p.id_data)]
    if isinstance(p, M.PayloadAUTH):
        return ['auth', str(int(p.method)), hx(p.auth_data)]
    if isinstance(p, M.PayloadNONCE):
        return ['nonce', hx(p.nonce)]
    if isinstance(p, M.PayloadNOTIFY):
        return ['notify', str(int(p.protocol_id)), str(int(p.notification_type)), hx(p.spi), hx(p.notification_data)]
    if isinstance(p, M.PayloadDELETE):
        return ['delete', str(int(p.protocol_id)), str(len(p.spis))] + [hx(s) for s in p.spis]
    if isinstance(p, M.PayloadVENDOR):
        return ['vendor', hx(p.vendor_id)]
    if isinstance(p, M.PayloadTS):
        out = ['ts', str(len(p.traffic_selectors))]
        for s in p.traffic_selectors:
            out += r_sel(s)
        return out
    if isinstance(p, M.PayloadSK):
        return ['sk', hx(p.ciphertext), str(int(getattr(p, 'next_payload_type', 0)))]
    raise TypeError(type(p))


def r_payload(p):
    return [str(int(p.type)), '1' if p.critical else '0'] + r_body(p)


def r_msg(m, with_iv=True):
    out = [hx(m.spi_i), hx(m.spi_r), str(m.major), str(m.minor), str(int(m.exchange_type)),
           '1' if m.is_response else '0', '1' if m.can_use_higher_version else '0',
           '1' if m.is_initiator else '0', str(m.message_id)]
    out.append(str(len(m.payloads)))
    for p in m.payloads:
        out += r_payload(p)
    out.append(str(len(m.encrypted_payloads)))
    for p in m.encrypted_payloads:
        out += r_payload(p)
    if with_iv:
        out.append(hx(m.iv) if (m.iv is not None and type(m.iv).__name__ != 'GeneratedIV') else 'none')
    return out


def msg_line(m, with_iv=True):
    return ' '.join(r_msg(m, with_iv))


# ------------------------------------------------------------- abstract -> objects

def mk_transform(t):
    return M.Transform(t['type'], t['id'], t.get('keylen'))


def mk_proposal(p):
    return M.Proposal(p['num'], p['proto'], bytes(p['spi']), [mk_transform(t) for t in p['transforms']])


def mk_sel(s):
    return M.TrafficSelector(s['type'], s['proto'], s['sport'], s['eport'],
                             ip_address(bytes(s['start'])), ip_address(bytes(s['end'])))


def mk_payload(d):
    k = d['kind']
    if k == 'sa':
        p = M.PayloadSA([mk_proposal(x) for x in d['proposals']])
    elif k == 'ke':
        p = M.PayloadKE(d['group'], bytes(d['data']))
    elif k == 'id':
        p = (M.PayloadIDi if d['ptype'] == 35 else M.PayloadIDr)(d['id_type'], bytes(d['data']))
    elif k == 'auth':
        p = M.PayloadAUTH(d['method'], bytes(d['data']))
    elif k == 'nonce':
        p = M.PayloadNONCE(bytes(d['data']))
    elif k == 'notify':
        p = M.PayloadNOTIFY(d['proto'], d['ntype'], bytes(d['spi']), bytes(d['data']))
    elif k == 'delete':
        p = M.PayloadDELETE(d['proto'], [bytes(s) for s in d['spis']])
    elif k == 'vendor':
        p = M.PayloadVENDOR(bytes(d['data']))
    elif k == 'ts':
        p = (M.PayloadTSi if d['ptype'] == 44 else M.PayloadTSr)([mk_sel(s) for s in d['sels']])
    else:
        raise ValueError(k)
    return p


def mk_message(d, crypto=None):
    return M.Message(spi_i=bytes(d['spi_i']), spi_r=bytes(d['spi_r']), major=d['major'], minor=d['minor'],
                     exchange_type=d['exch'], is_response=d['resp'], can_use_higher_version=d['higher'],
                     is_initiator=d['init'], message_id=d['mid'],
                     payloads=[mk_payload(p) for p in d['payloads']],
                     encrypted_payloads=[mk_payload(p) for p in d['enc']],
                     crypto=crypto, iv=bytes(d['iv']) if d.get('iv') is not None else None)


# ------------------------------------------------------------- abstract -> tokens (independent of message.py)

def a_body(d):
    k = d['kind']
    if k == 'sa':
        out = ['sa', str(len(d['proposals']))]
        for p in d['proposals']:
            out += [str(p['num']), str(p['proto']), hx(p['spi']), str(len(p['transforms']))]
            for t in p['transforms']:
                out += [str(t['type']), str(t['id']), str(t['keylen']) if t.get('keylen') is not None else '-1']
        return out
    if k == 'ke':
        return ['ke', str(d['group']), hx(d['data'])]
    if k == 'id':
        return ['id', str(d['id_type']), hx(d['data'])]
    if k == 'auth':
        return ['auth', str(d['method']), hx(d['data'])]
    if k == 'nonce':
        return ['nonce', hx(d['data'])]
    if k == 'notify':
        return ['notify', str(d['proto']), str(d['ntype']), hx(d['spi']), hx(d['data'])]
    if k == 'delete':
        return ['delete', str(d['proto']), str(len(d['spis']))] + [hx(s) for s in d['spis']]
    if k == 'vendor':
        return ['vendor', hx(d['data'])]
    if k == 'ts':
        out = ['ts', str(len(d['sels']))]
        for s in d['sels']:
            out += [str(s['type']), str(s['proto']), str(s['sport']), str(s['eport']), hx(s['start']), hx(s['end'])]
        return out
    raise ValueError(k)


def a_payload(d):
    return [str(d['ptype']), '0'] + a_body(d)


def a_msg(d):
    out = [hx(d['spi_i']), hx(d['spi_r']), str(d['major']), str(d['minor']), str(d['exch']),
           '1' if d['resp'] else '0', '1' if d['higher'] else '0', '1' if d['init'] else '0', str(d['mid'])]
    out.append(str(len(d['payloads'])))
    for p in d['payloads']:
        out += a_payload(p)
    out.append(str(len(d['enc'])))
    for p in d['enc']:
        out += a_payload(p)
    out.append(hx(d['iv']) if d.get('iv') is not None else 'none')
    return out
