"""C17 — no datagram, kernel event or send failure can stop or wedge the daemon.

Proof: Props/C17.lean (controller model: the iteration function is total; which events can raise past the handlers is
characterised exactly, and every such exception is contained by the loop; a datagram touches only the IKE_SA it is routed
to).  Oracle on the real code: the REAL main_loop (on a fake OS) is fed hostile datagrams (C06 streams, short datagrams,
unknown peers, unknown exchange types, IKE_SA_INIT for existing SPIs, binary vendor IDs / identities, critical unknown
payloads), hostile kernel events and transmission / netlink failures at every call, in every stage of a concurrent
legitimate session: the loop must survive every event, come back within a bounded number of executed lines, and the
legitimate session must still complete."""
import struct

import campaign as CP
import common
import gen_msgs as G
import message as M
import stateful as S
import world as W
import xfrm as X
from ipaddress import ip_address
from runner import Result

LEAN_FILES = S.LEAN_MACHINE
ASSUMPTIONS = ['real sockets, select() and signal handling are outside the model (partial)']
LINE_LIMIT = 400000


def hostile_datagrams(h, victim, rng):
    """(what, bytes, src)"""
    w = h.w
    peer_addr = W.IP_B if victim is w.A else W.IP_A
    out = []
    for n in (0, 1, 8, 27):
        out.append(('short:%d' % n, rng.randbytes(n), peer_addr))
    hc = list(G.handcrafted())
    for name, d in hc[:40] + [x for x in hc if x[0].startswith('attr-tlv') and ' len=0 ' in x[0]][:8] + rng.sample(hc[40:], 12):
        out.append(('hand:' + name.split(' ')[0], d, peer_addr))
    for _ in range(6):
        out.append(('random', rng.randbytes(rng.randrange(28, 300)), peer_addr))
    # unknown peer address: IKE_SA_INIT request and garbage
    init = next((d for d in w.sent if len(d.data) > 28 and d.data[18] == 34 and not (d.data[19] & 0x20)), None)
    if init is not None:
        out.append(('init-from-unknown-peer', init.data, ip_address('10.9.9.9')))
        out.append(('init-copy', init.data, peer_addr))
        # binary vendor ID appended, critical unknown payload, unknown exchange type for a live SPI
        b = bytearray(init.data)
        out.append(('init-garbled-tail', bytes(b[:-3]), peer_addr))
    for sa in victim.sas():
        spi_i = sa.my_spi if sa.is_initiator else bytes(sa.peer_spi)
        spi_r = bytes(sa.peer_spi) if sa.is_initiator else sa.my_spi
        flags = 0 if sa.is_initiator else 8
        for exch in (99, 0, 38):
            out.append(('unknown-exchange:%d' % exch, spi_i + spi_r + bytes([0, 0x20, exch, flags]) + bytes(4) + (28).to_bytes(4, 'big'), peer_addr))
        crit = spi_i + spi_r + bytes([200, 0x20, 37, flags]) + bytes(4) + (36).to_bytes(4, 'big') + bytes([0, 0x80, 0, 8, 1, 2, 3, 4])
        out.append(('critical-unknown-payload', crit, peer_addr))
        vend = spi_i + spi_r + bytes([43, 0x20, 37, flags | 0x20]) + bytes(4) + (40).to_bytes(4, 'big') + bytes([0, 0, 0, 12]) + bytes([0xff, 0xfe, 0x80, 0, 1, 2, 3, 0xc3])
        out.append(('binary-vendor-id', vend, peer_addr))
        # cleartext IKE_SA_INIT / INFORMATIONAL *responses* carrying exactly the Message ID this IKE_SA is waiting for or would use
        # next (a number that grows with the history of the IKE_SA): once it holds keys they are somebody else's datagrams
        for exch in (34, 37):
            for mid in sorted({max(sa.my_msg_id - 1, 0), sa.my_msg_id, sa.my_msg_id + 1}):
                out.append(('cleartext-response:%d:id%+d' % (exch, mid - sa.my_msg_id), spi_i + spi_r + bytes([0, 0x20, exch, flags | 0x20])
                            + mid.to_bytes(4, 'big') + (28).to_bytes(4, 'big'), peer_addr))
    # a well-formed IKE_SA_INIT request with a binary vendor id and identity-like garbage, from the configured peer
    try:
        m = M.Message(spi_i=rng.randbytes(8), spi_r=bytes(8), major=2, minor=0, exchange_type=34, is_response=False,
                      can_use_higher_version=False, is_initiator=True, message_id=0,
                      payloads=[M.PayloadVENDOR(bytes([0xff, 0xfe, 0, 0x80, 0xc3, 0x28])), M.PayloadNONCE(rng.randbytes(32))],
                      encrypted_payloads=[], crypto=None)
        out.append(('init-binary-vendor-no-sa', bytes(m.to_bytes()), peer_addr))
    except Exception:
        pass
    return out


def hostile_events(h, victim, rng):
    out = []
    me = victim.addrs[0]
    out.append(('acquire-unknown-index', victim.acquire_event(77777, str(me), '192.168.0.77'), None))
    out.append(('acquire-unknown-peer', victim.acquire_event(1, str(me), '10.1.1.1', peer=ip_address('10.1.1.1')), None))
    out.append(('expire-unknown-spi', victim.expire_event(rng.randbytes(4), rng.random() < 0.5), None))
    out.append(('xfrm-short', struct.pack('<IHHII', 16, X.XFRM_MSG_ACQUIRE, 0, 0, 0), None))
    out.append(('xfrm-unknown-type', struct.pack('<IHHII', 20, 0x55, 0, 0, 0) + bytes(4), None))
    out.append(('xfrm-done', struct.pack('<IHHII', 16, 3, 0, 0, 0), None))
    return out


def guarded_step(ep, **kw):
    r, lines = common.count_lines(lambda: ep.step(**kw), limit=LINE_LIMIT)
    return r, lines


def queued_events_in_every_waiting_state(ctx, res):
    """kernel events that arrive while the IKE_SA waits for an answer are queued and replayed when the answer comes — in EVERY
    request-outstanding state, the two in which the IKE_SA is about to end included: the loop must come back (watchdog in History.op)
    and the session must go on"""
    import c09
    rng = ctx.rng
    waits = [('acquire', 0), ('expire-soft', 0), ('expire-hard', 0), ('rekey-ike', 0), ('delete-ike', 0), ('dpd', 0), ('rekey-ike', 2)]
    for end in 'AB':
        for trig, deliver in waits:
            for events in (['acquire'], ['expire-soft'], ['expire-hard', 'acquire'], ['acquire', 'acquire', 'expire-soft']):
                seed = rng.randrange(1 << 30)
                with CP.History(seed, trace=False, dpd=50, ike_lifetime=400, child_lifetime=1000) as h:
                    h.oracles = [CP.o_no_escape]
                    w = h.w
                    if not h.establish('A'):
                        continue
                    h.op('acquire', 'A', 4001)
                    h.settle()
                    ep = w.A if end == 'A' else w.B
                    c09.apply_trigger(h, ep, trig)
                    for _ in range(deliver):                  # 2 deliveries after rekey-ike: the delete of the replaced IKE_SA is in flight
                        if w.net:
                            h.op('deliver', w.net[0].id)
                    waiting = sorted({CP.ST.get(int(x.state), int(x.state)) for x in ep.sas()})
                    for k, e in enumerate(events):
                        if e == 'acquire':
                            h.op('acquire', end, 4300 + k)
                        else:
                            c09.apply_trigger(h, ep, e)
                    h.settle(120)
                    res.evaluations += len(h.ops)
                    res.nontrivial.add(('queued', end, trig, deliver, tuple(events)))
                    res.count('queued-in:%s' % '/'.join(map(str, waiting)))
                    if not h.findings:
                        # the daemon keeps serving: one more ACQUIRE ends in an ESTABLISHED IKE_SA with a CHILD_SA at both ends
                        h.op('tick', 1)
                        h.op('acquire', 'A', 4400)
                        h.settle(120)
                        good = [x for x in w.A.sas() if int(x.state) == 10 and x.child_sas]
                        goodb = [x for x in w.B.sas() if int(x.state) == 10 and x.child_sas]
                        if (not good or not goodb) and not h.findings:
                            h.findings.append(('legitimate-session-lost:after-queued-events',
                                               'after %s at %s with %s queued, a new ACQUIRE is not served: A %s, B %s'
                                               % (trig, end, events, [x.state.name for x in w.A.sas()], [x.state.name for x in w.B.sas()]),
                                               len(h.ops) - 1))
                    for key, what, at in h.findings[:2]:
                        res.fail(key, what, {'seed': seed, 'scenario': 'queued events', 'end': end, 'waiting_for': trig, 'events': events,
                                             'ops': S.ser_ops(h.ops[:at + 1])})


def half_open_burst_then_legitimate_peer(ctx, res):
    """a burst of IKE_SA_INIT requests that are never completed (from a configured address: they create half-open responders and
    switch the cookie mode on), then a legitimate peer: it must get its IKE_SA and CHILD_SA (after the cookie round)"""
    rng = ctx.rng
    for n_burst in (3, 11, 12, 25):
        seed = rng.randrange(1 << 30)
        with CP.History(seed, trace=False) as h:
            h.oracles = [CP.o_no_escape]
            w = h.w
            h.op('acquire', 'A', 8765)
            first = bytes(w.sent[0].data)
            w.net.clear()
            for x in list(w.A.sas()):
                w.A.controller.ike_sas.remove(x)           # the prober gives up
            r2 = __import__('random').Random(seed)
            for k in range(n_burst):
                dg = bytearray(first)
                dg[0:8] = r2.randbytes(8)                   # another initiator SPI: another half-open IKE_SA at B
                h.op('inject', 'B', bytes(dg), w.ip_a)
            w.net.clear()                                   # the answers go nowhere
            half_open = len(w.B.sas())
            h.op('tick', 1)
            h.op('acquire', 'A', 8766)
            h.settle(120)
            res.evaluations += len(h.ops)
            res.nontrivial.add(('burst', n_burst))
            res.count('burst:%d-half-open' % half_open)
            good = [x for x in w.A.sas() if int(x.state) == 10 and x.child_sas]
            goodb = [x for x in w.B.sas() if int(x.state) == 10 and x.child_sas]
            if (not good or not goodb) and not h.findings:
                cookies = sum(1 for d in w.sent if d.sender == 'B' and len(d.data) > 28 and d.data[18] == 34 and len(d.data) < 80)
                h.findings.append(('legitimate-peer-not-served:after-half-open-burst',
                                   'after %d abandoned IKE_SA_INIT requests (%d half-open IKE_SAs at B) the legitimate peer did not get its '
                                   'IKE_SA: A %s, B established %d; B sent %d short IKE_SA_INIT replies'
                                   % (n_burst, half_open, [x.state.name for x in w.A.sas()], len(goodb), cookies), len(h.ops) - 1))
            for key, what, at in h.findings[:2]:
                res.fail(key, what, {'seed': seed, 'scenario': 'half-open burst', 'burst': n_burst, 'ops': S.ser_ops(h.ops[:at + 1])})


def run(ctx):
    res = Result()
    rng = ctx.rng
    res.rule = ('hostile datagrams (short, handcrafted malformed, random, unknown peer, unknown exchange, critical unknown payload, '
                'binary vendor IDs) and kernel events, delivered to either endpoint at every stage of a legitimate session (0..4 '
                'deliveries of the initial exchanges, established, CHILD_SA exchange in flight), plus a transmission failure at '
                'every send and a kernel refusal at every NEWSA of a complete session; distinct = distinct (stage, victim, event)')
    stages = list(range(0, 7))
    for stage in stages:
        for victim_name in 'AB':
            seed = rng.randrange(1 << 30)
            with CP.History(seed, trace=False) as h:
                h.oracles = [CP.o_no_escape]
                w = h.w
                h.op('acquire', 'A', 8765)
                for _ in range(min(stage, 4)):
                    if w.net:
                        h.op('deliver', w.net[0].id)
                if stage == 5:
                    h.op('acquire', 'A', 4001)
                if stage == 6 and w.A.sas() and w.A.sas()[0].child_sas:
                    h.op('expire', 'A', w.A.sas()[0].child_sas[0].inbound_spi, False)
                victim = w.A if victim_name == 'A' else w.B
                # a second, legitimate ACQUIRE for the same peer arrives at this very stage: it has to be served too
                extra = 0
                if victim_name == 'A':
                    h.op('acquire', 'A', 4100 + stage)
                    extra = 1
                r2 = __import__('random').Random(seed)
                events = [('dg',) + x for x in hostile_datagrams(h, victim, r2)] + [('ev',) + x for x in hostile_events(h, victim, r2)]
                worst = 0
                for kind, what, data, src in events:
                    res.evaluations += 1
                    res.nontrivial.add((stage, victim_name, what, bytes(data)[:40]))
                    res.count('event:' + what.split(':')[0])
                    n_esc = len(victim.escaped)
                    keyed = [s for s in victim.sas() if s.my_crypto is not None and int(s.state) < 20] if what.startswith('cleartext-response') else []
                    if kind == 'dg':
                        dg = W.Datagram(w.next_id, src, victim.addrs[0], data, 'X')
                        w.next_id += 1
                        ok, lines = guarded_step(victim, datagram=dg)
                    else:
                        ok, lines = guarded_step(victim, event=data)
                    worst = max(worst, lines)
                    lost = [s for s in keyed if s not in victim.sas() or int(s.state) == 21]
                    if lost:
                        res.fail('keyed-ike-sa-lost-to-cleartext:' + what.split(':id')[0],
                                 'stage %d, %s: an IKE_SA that holds keys was given up on an unprotected datagram (%s): %s'
                                 % (stage, victim_name, what, [s.state.name for s in lost]),
                                 {'seed': seed, 'stage': stage, 'victim': victim_name, 'event': what, 'data': bytes(data).hex()})
                    if isinstance(ok, common.Timeout) or lines > LINE_LIMIT:
                        res.fail('loop-wedged:' + what, 'one loop iteration did not come back within %d executed lines (%s)' % (LINE_LIMIT, what),
                                 {'seed': seed, 'stage': stage, 'victim': victim_name, 'event': what, 'data': bytes(data).hex()})
                        break
                    if len(victim.escaped) > n_esc or ok is False:
                        name, msg, site = victim.escaped[-1] if victim.escaped else ('?', '?', '?')
                        res.fail('loop-died:%s@%s' % (name, site), 'stage %d, %s: event loop of %s ended with %s on %s: %s'
                                 % (stage, victim_name, victim.name, name, what, msg[:120]),
                                 {'seed': seed, 'stage': stage, 'victim': victim_name, 'event': what, 'data': bytes(data).hex()})
                        victim.escaped.clear()
                        victim._reported = 0
                res.extra['max_lines_per_iteration'] = max(res.extra.get('max_lines_per_iteration', 0), worst)
                for ep in (w.A, w.B):            # what the hostile events made the loop contain is expected
                    ep._contained_reported = len(ep.contained)
                res.count('contained-by-loop', len(victim.contained))
                # the legitimate session must still complete, and keep serving
                # (replies to hostile IKE_SA_INIT copies etc. are in flight too: deliver everything)
                done = h.settle(120)
                good = [s for s in w.A.sas() if int(s.state) == 10 and s.child_sas]
                goodb = [s for s in w.B.sas() if int(s.state) == 10 and s.child_sas]
                fallback = False
                if not good or not goodb:
                    fallback = True
                    # a forged IKE_SA_INIT response may abort a half-open exchange (the protocol cannot prevent that before
                    # keys exist); what must hold is that the daemon keeps serving: the next attempt succeeds
                    h.op('tick', 25)
                    h.op('acquire', 'A', 8766)
                    h.settle(120)
                    good = [s for s in w.A.sas() if int(s.state) == 10 and s.child_sas]
                    goodb = [s for s in w.B.sas() if int(s.state) == 10 and s.child_sas]
                if not good or not goodb:
                    res.fail('legitimate-session-lost', 'after the hostile events of stage %d at %s the legitimate session did not complete: A %s, B %s'
                             % (stage, victim_name, [s.state.name for s in w.A.sas()], [s.state.name for s in w.B.sas()]),
                             {'seed': seed, 'stage': stage, 'victim': victim_name, 'ops': S.ser_ops(h.ops)})
                elif extra and not fallback and max(len(s.child_sas) for s in good) < 1 + extra + (1 if stage == 5 else 0):
                    res.fail('acquire-not-served', 'an ACQUIRE that arrived at stage %d of the session was never served: %d CHILD_SA(s)'
                             % (stage, max(len(s.child_sas) for s in good)), {'seed': seed, 'stage': stage, 'victim': victim_name,
                                                                              'ops': S.ser_ops(h.ops)})
                for key, what, at in h.findings[:2]:
                    res.fail(key, what, {'seed': seed, 'stage': stage, 'victim': victim_name, 'ops': S.ser_ops(h.ops[:at + 1])})
    # transmission failure at every send, kernel refusal at every NEWSA of a complete session
    probe_seed = rng.randrange(1 << 30)
    with CP.History(probe_seed, trace=False) as h0:
        h0.establish('A')
        h0.op('expire', 'A', h0.w.A.sas()[0].child_sas[0].inbound_spi, False)
        h0.settle()
        n_sends = h0.w.send_calls
    for fault in [('send', i) for i in range(n_sends)] + [('newsa', ('A', i)) for i in range(4)] + [('newsa', ('B', i)) for i in range(4)]:
        with CP.History(probe_seed, trace=False) as h:
            h.oracles = [CP.o_no_escape]
            if fault[0] == 'send':
                h.w.send_fail_at.add(fault[1])
            else:
                (h.w.A if fault[1][0] == 'A' else h.w.B).kernel.fail_newsa.add(fault[1][1])
            res.evaluations += 1
            res.nontrivial.add(('fault',) + fault)
            res.count('fault:' + fault[0])
            h.op('acquire', 'A', 8765)
            h.settle(60)
            if h.w.A.sas() and h.w.A.sas()[0].child_sas:
                h.op('expire', 'A', h.w.A.sas()[0].child_sas[0].inbound_spi, False)
            h.settle(60)
            for ep in (h.w.A, h.w.B):
                if ep.escaped:
                    name, msg, site = ep.escaped[-1]
                    res.fail('loop-died:%s@%s' % (name, site), 'with a %s failure at call %s the event loop of %s ended with %s: %s'
                             % (fault[0], fault[1], ep.name, name, msg[:120]), {'seed': probe_seed, 'fault': list(map(str, fault)), 'ops': S.ser_ops(h.ops)})
    queued_events_in_every_waiting_state(ctx, res)
    half_open_burst_then_legitimate_peer(ctx, res)
    # an authentic peer that says unusual things: whatever it says, no entry point may raise afterwards (timers keep running)
    import rogue
    import campaign as CPX
    # forced in every run (not left to the random stream): answers whose SPI has the wrong size or repeats ours, each followed by the
    # deletion of the CHILD_SAs or of the IKE_SA — whatever was tracked because of them has to come out again without an exception
    forced = [[('honest', 'spi-len-3:delete-kids')], [('honest', 'spi-len-1:delete-ike')], [('honest', 'spi-same:delete-kids')],
              [('honest', 'spi-len-5:delete-kids')], [('honest', 'spi-len-0:delete-ike')], [('honest', 'spi-same:delete-ike')]]
    rogue.campaign(ctx, res, ctx.scale(12, 200), 50, oracles=[CPX.o_no_escape], forced=forced)
    return res


def replay(rep):
    return True, 'see the replay file: stage of the legitimate session, victim, hostile event (hex)'
