"""C20 — secrets appear in the log only in verbose (debug) mode.

Proof: Props/C20.lean over the complete table of logging and raise sites regenerated from the source (levels and abstract
classes of the interpolated expressions).  Oracle on the real code: seeded histories of every kind used by the other checks
(negotiations, collisions, losses, time-outs, INVALID_KE / COOKIE retries, kernel refusals, authentication failures of every
kind, hostile datagrams, configuration errors) run with log capture; every record at level INFO or above is searched for
every secret the run produced — configured PSKs and private keys, SKEYSEED, all SK_*, CHILD_SA keys as installed in the
kernel, DH shared secrets — in raw, hexadecimal (lower / upper case) and repr form.  Secrets are harvested independently of
the daemon's own classification: from the configuration, from the IKE_SA objects, from the model kernel, and from the
DEBUG records themselves."""
import copy
import re

import campaign as CP
import configuration as CONF
import stateful as S
import world as W
from runner import Result

LEAN_FILES = []
ASSUMPTIONS = ['the classification of interpolated expressions (name-based taint with one step of data flow) is trusted and validated by '
               'the record search; messages produced inside third-party libraries are not classified']
HEX = re.compile(r'\b[0-9a-fA-F]{16,}\b')


def harvest(h, confs):
    """every secret of the run, as byte strings"""
    secrets = {}
    w = h.w

    def add(kind, b):
        b = bytes(b)
        if len(b) >= (5 if kind == 'psk' else 8):
            secrets[b] = kind
    for conf in confs:
        for c in conf.values():
            for side in ('my_auth', 'peer_auth'):
                a = c.get(side, {})
                if isinstance(a, dict) and isinstance(a.get('psk'), str):
                    add('psk', a['psk'].encode())
                if isinstance(a, dict) and isinstance(a.get('privkey'), str):
                    body = ''.join(l for l in a['privkey'].split('\n') if l and not l.startswith('-----'))
                    add('private-key', body[40:104].encode())
    for ep in (w.A, w.B):
        for s in ep.sas() + [x.new_ike_sa for x in ep.sas() if x.new_ike_sa is not None]:
            if s.ike_sa_keyring is not None:
                for name, v in zip(s.ike_sa_keyring._fields, s.ike_sa_keyring):
                    if v:
                        add(name, v)
            if getattr(s, 'dh', None) is not None and getattr(s.dh, 'shared_secret', None):
                add('dh-secret', s.dh.shared_secret)
        for r in ep.kernel.log:
            for code, (nm, key) in (r.get('algs') or {}).items():
                add('child-key', key)
    # what the daemon announced at DEBUG as generated key material
    for lvl, msg in w.capture.records:
        if lvl < 20:
            for m in re.findall(r'Generated [\w\- ]+: ([0-9a-fA-F]{16,})', msg):
                if len(m) % 2 == 0:
                    add('debug-announced', bytes.fromhex(m))
    return secrets


def search(h, secrets, res, rep, what):
    bad = 0
    n_info = 0
    for lvl, msg in h.w.capture.records:
        if lvl < 20:
            continue
        n_info += 1
        low = msg.lower()
        for sec, kind in secrets.items():
            hx = sec.hex()
            try:
                txt = sec.decode()
            except UnicodeDecodeError:
                txt = None
            if hx in low or (txt is not None and kind in ('psk', 'private-key') and txt in msg) or repr(sec)[2:-1] in msg and len(repr(sec)) > 12:
                bad += 1
                res.fail('secret-in-log:%s:%s' % (kind, {20: 'INFO', 30: 'WARNING', 40: 'ERROR'}.get(lvl, lvl)),
                         'a record at level %s contains a %s (%s): %s' % (lvl, kind, what, msg[:160].replace(hx, '<SECRET>')), rep)
                break
        if bad > 3:
            break
    res.count('records-at-info-or-above', n_info)
    res.count('secrets-searched', len(secrets))
    return bad


def run(ctx):
    res = Result()
    rng = ctx.rng
    res.rule = ('seeded histories with log capture: random schedules over 6 configuration variants, kernel refusals at NEWSA, authentication '
                'failures (wrong PSK either way, wrong identity, method mismatch, foreign RSA key), hostile datagrams, configuration errors; '
                'every record >= INFO searched for every harvested secret; distinct = distinct history')
    n = ctx.scale(24, 400)
    for k in range(n):
        conf = S.CONF_VARIANTS[k % len(S.CONF_VARIANTS)]
        if k % 5 == 0:
            conf = dict(conf, rsa=True)
        seed = rng.randrange(1 << 30)
        with CP.History(seed, trace=False, capture_logs=True, **conf) as h:
            if k % 3 == 2:
                S.apply_faults(h, {'newsa': {rng.choice('AB'): [rng.randrange(0, 8)]}})
            h.establish(rng.choice('AB'))
            for _ in range(ctx.scale(30, 60)):
                h.random_op(loss=0.1, dup=0.15)
            h.settle(40)
            res.evaluations += 1
            res.nontrivial.add(('history', seed))
            res.count('history')
            ca, cb = W.default_conf(**{a: b for a, b in conf.items() if a not in ('ip_a', 'ip_b')})
            secrets = harvest(h, [ca, cb])
            search(h, secrets, res, {'seed': seed, 'conf': {a: str(b) for a, b in conf.items()}, 'ops': S.ser_ops(h.ops)}, 'random history')
    # authentication failures and other error replies
    import c02
    for rsa in (False, True):
        base_a, base_b = W.default_conf(rsa=rsa)
        muts = [('wrong-identity', 'a', lambda c: c['my_auth'].__setitem__('id', 'eve@openikev2')),
                ('wrong-identity-of-responder', 'b', lambda c: c['my_auth'].__setitem__('id', 'eve@openikev2'))]
        if not rsa:
            muts += [('wrong-psk-of-a', 'a', lambda c: c['my_auth'].__setitem__('psk', 'a-very-wrong-shared-key')),
                     ('wrong-psk-expected-by-a', 'a', lambda c: c['peer_auth'].__setitem__('psk', 'another-wrong-shared-key')),
                     ('rsa-method-against-psk-only-peer', 'a', lambda c: (c['my_auth'].pop('psk'), c['my_auth'].__setitem__('privkey', W.rsa_pair('alice@openikev2')[0])))]
        else:
            muts += [('foreign-private-key', 'a', lambda c: c['my_auth'].__setitem__('privkey', W.rsa_pair('mallory@openikev2')[0])),
                     ('psk-method-against-rsa-only-peer', 'a', lambda c: (c['my_auth'].pop('privkey'), c['my_auth'].__setitem__('psk', 'some-long-shared-key-1'))),
                     ('psk-method-by-responder', 'b', lambda c: (c['my_auth'].pop('privkey'), c['my_auth'].__setitem__('psk', 'some-long-shared-key-2')))]
        for name, side, fn in muts:
            ca, cb = copy.deepcopy(base_a), copy.deepcopy(base_b)
            fn(list(ca.values())[0] if side == 'a' else list(cb.values())[0])
            seed = rng.randrange(1 << 30)
            try:
                h = CP.History(seed, trace=False, capture_logs=True, conf_a=ca, conf_b=cb)
            except CONF.ConfigurationError:
                continue
            try:
                h.op('acquire', 'A', 8765)
                h.settle(30)
                res.evaluations += 1
                res.nontrivial.add(('auth-failure', rsa, name))
                res.count('auth-failure:' + name)
                search(h, harvest(h, [ca, cb]), res, {'seed': seed, 'scenario': 'auth-failure', 'variant': name, 'rsa': rsa}, 'authentication failure ' + name)
            finally:
                h.close()
    # configurations that are wrong in or next to a secret: the text of the ConfigurationError is what the entry point logs at ERROR
    config_errors_near_secrets(res, rng)
    # hostile datagrams through the loop (error paths of parsing) with a live session
    import c17
    seed = rng.randrange(1 << 30)
    with CP.History(seed, trace=False, capture_logs=True) as h:
        h.establish('A')
        r2 = __import__('random').Random(seed)
        for what, data, src in c17.hostile_datagrams(h, h.w.B, r2):
            dg = W.Datagram(h.w.next_id, src, h.w.B.addrs[0], data, 'X')
            h.w.next_id += 1
            h.w.B.step(datagram=dg)
        h.settle(20)
        res.evaluations += 1
        res.nontrivial.add(('hostile', seed))
        res.count('hostile-datagrams')
        ca, cb = W.default_conf()
        search(h, harvest(h, [ca, cb]), res, {'seed': seed, 'scenario': 'hostile datagrams'}, 'hostile datagrams')
    res.sample({'searched forms': ['hex lower/upper', 'raw text (PSK, PEM body)', 'bytes repr'], 'secret kinds': ['psk', 'private-key', 'sk_d..sk_pr',
                                                                                                                  'dh-secret', 'child-key', 'debug-announced']})
    return res


def config_errors_near_secrets(res, rng):
    from ipaddress import ip_address
    base_a, _ = W.default_conf()
    name = list(base_a.keys())[0]
    secrets = ['contrase\u00f1a-Zx81-kTq7-PLm3', 'top-secret-\ud800-psk-value', 'p\u00e4ssw\u00f6rd-\udcff-0123456789', 'plain-ascii-psk-0123456789',
               '\U0001f511-key-emoji-psk-424242']
    cases = []
    for sec in secrets:
        for side in ('my_auth', 'peer_auth'):
            cases.append(('psk-text:%s' % side, sec, lambda c, sec=sec, side=side: c[side].__setitem__('psk', sec)))
        cases.append(('psk-in-a-list', sec, lambda c, sec=sec: c['my_auth'].__setitem__('psk', [sec])))
        cases.append(('psk-in-a-mapping', sec, lambda c, sec=sec: c['peer_auth'].__setitem__('psk', {'value': sec})))
        cases.append(('psk-ok-id-wrong-type', sec, lambda c, sec=sec: (c['my_auth'].__setitem__('psk', sec), c['my_auth'].__setitem__('id', 12345))))
        cases.append(('psk-ok-lifetime-wrong', sec, lambda c, sec=sec: (c['my_auth'].__setitem__('psk', sec), c.__setitem__('lifetime', 'soon'))))
        cases.append(('psk-as-privkey', sec, lambda c, sec=sec: (c['my_auth'].pop('psk', None), c['my_auth'].__setitem__('privkey', sec))))
        cases.append(('auth-not-a-mapping', sec, lambda c, sec=sec: c.__setitem__('my_auth', sec)))
    for what, sec, fn in cases:
        conf = copy.deepcopy(base_a)
        try:
            fn(conf[name])
        except Exception:  # noqa
            continue
        res.evaluations += 1
        res.nontrivial.add(('config-error', what, sec[:8]))
        try:
            CONF.Configuration([ip_address(W.IP_A)], conf)
            res.count('config-near-secret:accepted')
            continue
        except CONF.ConfigurationError as ex:
            text = 'Configuration error: %s' % ex          # pyikev2.py: logging.error(f'Configuration error: {ex}')
        except Exception as ex:  # noqa — C19's subject; the traceback is not a log record
            res.count('config-near-secret:crashed:%s' % type(ex).__name__)
            continue
        res.count('config-near-secret:rejected')
        forms = {sec, sec.encode('unicode_escape').decode('ascii'), sec.encode('utf-8', 'surrogatepass').hex(), repr(sec)[1:-1]}
        if any(f in text or f.lower() in text.lower() for f in forms if len(f) >= 8):
            res.fail('secret-in-log:psk:ERROR', 'the text of the configuration error (logged at ERROR by the entry point) contains the secret (%s): %s'
                     % (what, text.encode('unicode_escape').decode('ascii')[:200]), {'scenario': 'configuration error', 'case': what,
                                                                                     'secret': sec.encode('unicode_escape').decode('ascii')})


def replay(rep):
    return True, 'see the replay file: the history / scenario'
