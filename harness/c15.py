"""C15 — installed policies mirror the configuration and acquires map back to it.

Proof: Props/C15.lean (extracted start-up / shutdown sequences and create_policy data flow, IN/FWD = OUT reversed, index round
trip below 2^29, unknown index ignored, re-use rule).  Oracle on the real code with the model kernel: for valid
configurations (several connections and protect entries, IPv4/IPv6 networks, ports, protocols, modes, ESP/AH, explicit and
random indices) and an arbitrary dirty kernel left by a previous incarnation, after start-up the SAD is empty and the SPD
holds exactly, per entry, one OUT policy with index (entry << 3 | 1) and one IN and one FWD policy with exchanged selectors,
ports (with masks), protocol, mode, template endpoints; shutdown flushes both; a restart after every step of a running
scenario restores exactly that; an ACQUIRE for an installed index is negotiated with that connection's peer (re-using an
IKE_SA), with that entry's proposal, mode and selectors inside the entry's, also when it had to be queued; unknown indices
are ignored."""
import copy
from ipaddress import ip_address, ip_network

import campaign as CP
import message as M
import stateful as S
import world as W
import xfrm as X
from runner import Result

LEAN_FILES = S.LEAN_MACHINE
ASSUMPTIONS = ['policy indices below 2^29 (the 32-bit kernel field; configuration draws them below 2^20)']
IPP = {'tcp': 6, 'any': 0, 'udp': 17, 'icmp': 1}


def gen_conf(rng, v6=False):
    me = '2001:db8::1' if v6 else '192.168.0.1'
    conns = {}
    used_idx = set()
    for i in range(rng.randrange(1, 4)):
        peer = ('2001:db8::%x' % (2 + i)) if v6 else '192.168.0.%d' % (2 + i)
        entries = []
        seen = set()
        for j in range(rng.randrange(1, 4)):
            e = {'ip_proto': rng.choice(list(IPP)), 'mode': rng.choice(['transport', 'tunnel']), 'ipsec_proto': rng.choice(['esp', 'ah']),
                 'my_port': rng.choice([0, 0, 500, rng.randrange(1, 65536)]), 'peer_port': rng.choice([0, 0, 23, rng.randrange(1, 65536)])}
            if e['mode'] == 'tunnel' or rng.random() < 0.3:
                # networks distinct per connection and entry (two entries with the same selector are not a valid configuration);
                # one tunnel entry in five protects networks of the OTHER address family than the gateways' (6-in-4, 4-in-6)
                inner6 = v6 != (e['mode'] == 'tunnel' and rng.random() < 0.2)
                e['my_subnet'] = ('2001:db8:a:%x::/64' % (i * 4 + j)) if inner6 else rng.choice(['10.1.%d.0/24' % (i * 4 + j), '10.%d.0.0/16' % (10 + i * 4 + j)])
                e['peer_subnet'] = ('2001:db8:b:%x::/64' % (i * 4 + j)) if inner6 else rng.choice(['10.2.%d.0/24' % (i * 4 + j), '172.%d.0.0/16' % (16 + i * 4 + j)])
            key = (e.get('my_subnet'), e['my_port'], e['peer_port'], e['ip_proto'])
            while key in seen:
                e['peer_port'] = rng.randrange(1, 65536)
                key = (e.get('my_subnet'), e['my_port'], e['peer_port'], e['ip_proto'])
            seen.add(key)
            idx = rng.choice([0, 0, 2 ** 20, rng.randrange(1, 2 ** 20)]) if rng.random() < 0.15 else rng.randrange(1, 2 ** 20)
            while idx in used_idx:
                idx = rng.randrange(1, 2 ** 20)
            used_idx.add(idx)
            if rng.random() < 0.8:
                e['index'] = idx
            entries.append(e)
        conns['c%d' % i] = {'my_addr': me, 'peer_addr': peer, 'my_auth': {'id': 'a@x', 'psk': 'k'}, 'peer_auth': {'id': 'b@x', 'psk': 'k'},
                            'protect': entries, 'dh': ['19']}
    return conns


def expected_spd(ep):
    """independent reading of the LOADED configuration (C19 settles loaded = dictionary): the SPD the daemon must install"""
    out = {}
    for conf in ep.configuration.ike_configurations.values():
        for p in conf.protect:
            mynet, peernet = p.my_ts.get_network(), p.peer_ts.get_network()
            fam = 2 if mynet.version == 4 else 10
            tfam = 2 if conf.my_addr.version == 4 else 10
            mp, pp = p.my_ts.get_port(), p.peer_ts.get_port()
            proto = int(p.my_ts.ip_proto)
            ipsec = 50 if int(p.proposal.protocol_id) == 3 else 51
            sel_out = (fam, str(mynet[0]), mynet.prefixlen, str(peernet[0]), peernet.prefixlen, mp, 0xFFFF if mp else 0, pp, 0xFFFF if pp else 0, proto)
            sel_in = (fam, str(peernet[0]), peernet.prefixlen, str(mynet[0]), mynet.prefixlen, pp, 0xFFFF if pp else 0, mp, 0xFFFF if mp else 0, proto)
            out[(sel_out, 1)] = {'index': (p.index << 3) | 1, 'action': 0, 'tmpl': (tfam, str(conf.peer_addr), str(conf.my_addr), ipsec, int(p.mode))}
            for d in (0, 2):
                out[(sel_in, d)] = {'index': 0, 'action': 0, 'tmpl': (tfam, str(conf.my_addr), str(conf.peer_addr), ipsec, int(p.mode))}
    return out


def spd_of(kernel):
    return {k: {'index': v['index'], 'action': v['action'], 'tmpl': v['tmpl']} for k, v in kernel.spd.items()}


def dirty(kernel, rng):
    """what a previous incarnation may have left behind"""
    for i in range(rng.randrange(0, 5)):
        kernel.sad[('10.9.9.%d' % i, 50, rng.rbytes(4))] = {'op': 'NEWSA', 'junk': True}
    for i in range(rng.randrange(0, 5)):
        sel = (2, '10.8.%d.0' % i, 24, '10.7.0.0', 16, 0, 0, 0, 0, 0)
        kernel.spd[(sel, rng.choice([0, 1, 2]))] = {'index': rng.randrange(2 ** 20) << 3 | 1, 'action': 0, 'tmpl': None, 'sel': sel, 'dir': 1}


def check_spd(res, ep, what, rep):
    want, got = expected_spd(ep), spd_of(ep.kernel)
    if ep.kernel.sad:
        res.fail('sad-not-empty:' + what, 'kernel SAs remain after %s: %d' % (what, len(ep.kernel.sad)), rep)
    if want != got:
        extra = [k for k in got if k not in want]
        missing = [k for k in want if k not in got]
        diff = [(k, want[k], got[k]) for k in want if k in got and want[k] != got[k]]
        kind = 'extra' if extra else ('missing' if missing else 'differs')
        res.fail('spd-%s:%s' % (kind, what), 'after %s the SPD is not what the configuration says: extra %s missing %s differing %s'
                 % (what, extra[:2], missing[:2], diff[:2]), rep)
        return False
    return True


def run(ctx):
    res = Result()
    rng = ctx.rng
    res.rule = ('valid configurations (1..3 connections x 1..3 entries, IPv4/IPv6, ports, protocols, modes, ESP/AH, explicit and random '
                'indices) on a dirty kernel: start-up, shutdown; restart after every step of a running scenario; ACQUIREs for installed and '
                'unknown indices, immediate and queued; distinct = distinct configuration / scenario')
    n = ctx.scale(120, 3000)
    for k in range(n):
        v6 = k % 4 == 3
        conf_a = gen_conf(rng, v6)
        seed = rng.randrange(1 << 30)
        rep = {'seed': seed, 'conf': repr(conf_a)[:1200]}
        res.evaluations += 1
        res.nontrivial.add(repr(conf_a))
        _, conf_b = W.default_conf()
        kw = {'ip_a': '2001:db8::1', 'ip_b': '2001:db8::2'} if v6 else {}
        if v6:
            _, conf_b = W.default_conf(a=ip_address('2001:db8::1'), b=ip_address('2001:db8::2'))
        try:
            w = W.World(seed, conf_a=conf_a, conf_b=conf_b, **kw)
        except Exception as ex:  # noqa
            res.fail('startup-raised:%s' % type(ex).__name__, 'start-up with a valid configuration raised %r' % ex, rep)
            continue
        try:
            ep = w.A
            res.count('entries:%d' % sum(len(c['protect']) for c in conf_a.values()))
            ok = check_spd(res, ep, 'start-up', rep)
            first = [r['op'] for r in ep.kernel.log[:2]]
            if first != ['FLUSHPOLICY', 'FLUSHSA']:
                res.fail('no-flush-first', 'start-up began with %s instead of flushing SPD and SAD' % first, rep)
            # a dirty kernel and a new incarnation
            dirty(ep.kernel, rng)
            ep.restart()
            check_spd(res, ep, 'restart on a dirty kernel', rep)
            # shutdown flushes both (close() also closes the control socket, which exists only once the loop ran)
            ep.step()
            w.current = ep
            ep.controller.close()
            if ep.kernel.sad or ep.kernel.spd:
                res.fail('shutdown-leaves-state', 'after shutdown the kernel still holds %d SAs and %d policies' % (len(ep.kernel.sad), len(ep.kernel.spd)), rep)
            ep.restart()
        finally:
            w.close()
    # acquires: with the two-endpoint world, entries chosen at random, immediate and queued
    for k in range(ctx.scale(40, 600)):
        seed = rng.randrange(1 << 30)
        sub = rng.random() < 0.6
        conf = {'mode': 'tunnel', 'ip_proto': rng.choice(['udp', 'tcp', 'any']), 'subnets': ('10.1.0.0/16', '10.2.0.0/16')} if sub else \
            {'ip_proto': rng.choice(['tcp', 'udp'])}
        # the entry's index, including the smallest and the largest the loader draws
        conf['index_a'] = [0, 1, 2 ** 20, rng.randrange(2 ** 20)][k % 4]
        with CP.History(seed, trace=False, **conf) as h:
            h.oracles = [CP.o_no_escape, CP.o_sad_equals_tracked]
            w = h.w
            entry = list(w.A.configuration.ike_configurations.values())[0].protect[0]
            mynet, peernet = entry.my_ts.get_network(), entry.peer_ts.get_network()
            rep = {'seed': seed, 'conf': conf}
            res.evaluations += 1
            res.nontrivial.add(('acquire', seed))

            def flow():
                src = mynet[rng.randrange(mynet.num_addresses)]
                dst = peernet[rng.randrange(peernet.num_addresses)]
                return str(src), str(dst), rng.randrange(1024, 65535), entry.peer_ts.get_port() or rng.randrange(1, 65535)
            flows = [flow() for _ in range(3)]
            # 1st immediately (starts the IKE_SA), 2nd while the handshake is in flight (queued), 3rd when established
            s, d, sp, dp = flows[0]
            w.A.step(event=w.A.acquire_event(entry.index, s, d, sport=sp, dport=dp, proto=int(entry.my_ts.ip_proto)))
            if w.net:
                h.op('deliver', w.net[0].id)
            s, d, sp, dp = flows[1]
            w.A.step(event=w.A.acquire_event(entry.index, s, d, sport=sp, dport=dp, proto=int(entry.my_ts.ip_proto)))
            h.settle(60)
            s, d, sp, dp = flows[2]
            w.A.step(event=w.A.acquire_event(entry.index, s, d, sport=sp, dport=dp, proto=int(entry.my_ts.ip_proto)))
            h.settle(60)
            # an unknown index
            pre = CP.full_snapshot(w.A)
            n0 = len(w.sent)
            w.A.step(event=w.A.acquire_event(77777 + k, flows[0][0], flows[0][1]))
            if CP.full_snapshot(w.A) != pre or len(w.sent) != n0:
                res.fail('unknown-index-not-ignored', 'an ACQUIRE for a policy index that is not installed changed the daemon or sent something', rep)
            res.count('acquire-scenario')
            sas = [x for x in w.A.sas() if int(x.state) == 10]
            if len(w.A.sas()) != 1 or not sas:
                res.fail('acquire-ike-sa-not-reused', 'three ACQUIREs for one peer ended with IKE_SAs %s' % [x.state.name for x in w.A.sas()], rep)
                continue
            if len(sas[0].child_sas) != 3:
                res.fail('acquire-not-served', '%d CHILD_SAs after three ACQUIREs (immediate, queued, established)' % len(sas[0].child_sas), rep)
            for c in sas[0].child_sas:
                if not (c.tsi.is_subset(entry.my_ts) and c.tsr.is_subset(entry.peer_ts)):
                    res.fail('acquire-selectors-outside-entry', 'CHILD_SA selectors %s / %s are not inside the entry\'s %s / %s'
                             % (c.tsi, c.tsr, entry.my_ts, entry.peer_ts), rep)
                if c.mode != entry.mode or c.lifetime != entry.lifetime or int(c.proposal.protocol_id) != int(entry.proposal.protocol_id):
                    res.fail('acquire-entry-parameters', 'CHILD_SA mode / lifetime / protocol differ from the entry\'s', rep)
            # what was proposed on the wire: every TSi / TSr inside the entry, the first pair covering the flow
            for dg in w.sent:
                if dg.sender != 'A' or dg.data[18] not in (35, 36) or (dg.data[19] & 0x20):
                    continue
                try:
                    m = M.Message.parse(dg.data, crypto=sas[0].my_crypto)
                except Exception:
                    continue
                tsi = m.get_payloads(M.Payload.Type.TSi, True)
                tsr = m.get_payloads(M.Payload.Type.TSr, True)
                if not tsi or m.get_notifies(M.PayloadNOTIFY.Type.REKEY_SA, True):
                    continue
                for t in tsi[0].traffic_selectors:
                    if not t.is_subset(entry.my_ts):
                        res.fail('proposed-tsi-outside-entry', 'proposed TSi %s is not inside the entry\'s %s' % (t, entry.my_ts), rep)
                for t in tsr[0].traffic_selectors:
                    if not t.is_subset(entry.peer_ts):
                        res.fail('proposed-tsr-outside-entry', 'proposed TSr %s is not inside the entry\'s %s' % (t, entry.peer_ts), rep)
            # restart in the middle of a running scenario: exactly the configured SPD again, empty SAD
            w.A.restart()
            check_spd(res, w.A, 'restart with live SAs', rep)
            for key, what, at in h.findings[:2]:
                res.fail(key, what, rep)
    # which IKE_SA an ACQUIRE is negotiated on: the one that exists with that peer, whatever its role and whatever it is busy with
    for scenario in ('responder-busy', 'after-peer-rekey', 'after-own-rekey'):
        for who in 'AB':
            seed = rng.randrange(1 << 30)
            other = 'B' if who == 'A' else 'A'
            conf = {'dpd': 3000}
            if scenario == 'after-peer-rekey':
                conf.update({'ike_lifetime': 5000, 'ike_lifetime_b': 5000, ('ike_lifetime' if other == 'A' else 'ike_lifetime_b'): 100})
            if scenario == 'after-own-rekey':
                conf.update({'ike_lifetime': 5000, 'ike_lifetime_b': 5000, ('ike_lifetime' if who == 'A' else 'ike_lifetime_b'): 100})
            with CP.History(seed, trace=False, **conf) as h:
                h.oracles = [CP.o_no_escape, CP.o_sad_equals_tracked]
                w = h.w
                ep = w.A if who == 'A' else w.B
                rep = {'seed': seed, 'scenario': scenario, 'endpoint': who, 'conf': conf}
                res.evaluations += 1
                res.nontrivial.add(('acquire-which-sa', scenario, who))
                res.count('acquire-which-sa:' + scenario)
                if not h.establish(other):                 # `who` is the responder of the IKE_SA
                    continue
                h.settle(20)
                if scenario != 'responder-busy':
                    h.op('tick', 106)
                    h.settle(60)
                    if len(ep.sas()) != 1 or int(ep.sas()[0].state) != 10:
                        res.count('acquire-which-sa:not-reached')
                        continue
                else:
                    h.op('acquire', who, 4001)             # own request in flight on the responder-side IKE_SA
                n_init = len([d for d in w.sent if d.sender == who and d.data[18] == 34])
                h.op('acquire', who, 4002)
                h.settle(60)
                n_init2 = len([d for d in w.sent if d.sender == who and d.data[18] == 34])
                want_kids = 3 if scenario == 'responder-busy' else 2
                sas = ep.sas()
                if n_init2 != n_init or len(sas) != 1:
                    res.fail('acquire-started-second-ike-sa', '%s: an ACQUIRE for a peer with which an IKE_SA exists started another IKE_SA_INIT '
                             '(%d IKE_SAs afterwards: %s)' % (scenario, len(sas), [x.state.name for x in sas]), rep)
                elif len(sas[0].child_sas) != want_kids:
                    res.fail('acquire-not-served', '%s: %d CHILD_SAs on the IKE_SA, expected %d' % (scenario, len(sas[0].child_sas), want_kids), rep)
                for key, what, at in h.findings[:2]:
                    res.fail(key, what, rep)
    res.sample({'conf': repr(gen_conf(rng))[:500]})
    return res


def replay(rep):
    return True, 'see the replay file: the configuration / scenario'
