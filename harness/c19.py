"""C19 — configuration is loaded faithfully or rejected cleanly.

Proof: Props/C19.lean (model of the algorithm / protocol / mode / port part of the loader interpreting the tables regenerated
from configuration.py; defaults, field data flow and error mapping as extracted facts).  Correspondence: the Lean loader
(driver `cfgconn`) vs Configuration(...) on grammar-generated dictionaries.  Oracle on the real code: an independent reading
of the dictionary (written from the documented keys) compared field by field with the loaded objects — keying by (local,
peer) address, proposals, selectors, ports, protocol, mode, lifetimes, DPD, identities and their types, credentials; and on a
malformed stream (ill-typed / missing / out-of-range values at every level) the only exception allowed is the
configuration error."""
import copy
from ipaddress import ip_address, ip_network

import configuration as CONF
import message as M
import world as W
from runner import Result

LEAN_FILES = ['PyIkev2/Model/Config.lean', 'PyIkev2/Model/ConfigCmd.lean']
ASSUMPTIONS = ['hostname resolution (getaddrinfo) and PEM parsing are the libraries\'; only literal addresses are generated']
ENCR = {'aes128': (1, 12, 128), 'aes256': (1, 12, 256)}
INTEG = {'sha256': (3, 12, None), 'sha512': (3, 14, None), 'sha1': (3, 2, None)}
PRF = {'sha1': (2, 2, None), 'sha256': (2, 5, None), 'sha512': (2, 7, None)}
DH = {str(g): (4, g, None) for g in range(14, 22)}
DH.update({'modp2048': (4, 14, None), 'modp3072': (4, 15, None), 'modp4096': (4, 16, None), 'modp6144': (4, 17, None),
           'modp8192': (4, 18, None), 'ecp256': (4, 19, None), 'ecp384': (4, 20, None), 'ecp521': (4, 21, None)})
IPP = {'tcp': 6, 'any': 0, 'udp': 17, 'icmp': 1}
MODE = {'transport': 0, 'tunnel': 1}
PROTO = {'esp': 3, 'ah': 2}
MY = [ip_address('192.168.0.1'), ip_address('2001:db8::1')]


_OTHER = {}


def other_keys():
    """well-formed PEM keys that are not RSA (EC P-256, Ed25519) and an RSA key under a passphrase: (private pem, public pem)"""
    if not _OTHER:
        from cryptography.hazmat.primitives import serialization as S
        from cryptography.hazmat.primitives.asymmetric import ec, ed25519, rsa
        def pems(k, enc=S.NoEncryption()):
            return (k.private_bytes(S.Encoding.PEM, S.PrivateFormat.PKCS8, enc).decode(),
                    k.public_key().public_bytes(S.Encoding.PEM, S.PublicFormat.SubjectPublicKeyInfo).decode())
        _OTHER['ec'] = pems(ec.generate_private_key(ec.SECP256R1()))
        _OTHER['ed25519'] = pems(ed25519.Ed25519PrivateKey.generate())
        _OTHER['rsa-encrypted'] = pems(rsa.generate_private_key(65537, 1024), S.BestAvailableEncryption(b'pw'))
    return _OTHER


def trs(p):
    return [(int(t.type), int(t.id), t.keylen) for t in p.transforms]


def expected(name, d):
    """independent reading of one connection dictionary; raises ValueError('reject') where the documentation says 'refused'"""
    def algs(key, table, dflt, src):
        v = src.get(key, dflt)
        if type(v) is not list:
            raise ValueError('reject')
        out = []
        for x in v:
            if str(x) not in table:
                raise ValueError('reject')
            out.append(table[str(x)])
        return out
    for k in ('my_addr', 'peer_addr', 'my_auth', 'peer_auth', 'protect'):
        if k not in d:
            raise ValueError('reject')
    my, peer = ip_address(d['my_addr']), ip_address(d['peer_addr'])
    if my not in MY:
        raise ValueError('reject')
    ike = algs('encr', ENCR, ['aes256'], d) + algs('integ', INTEG, ['sha256'], d) + algs('prf', PRF, ['sha256'], d) + algs('dh', DH, ['14'], d)
    if not ike:
        # all four lists explicitly empty: an IKE proposal without a single transform cannot be encoded (RFC 7296 3.3.1) — it is rejected
        raise ValueError('reject')

    def auth(a):
        idt = a.get('id', 'https://github.com/alejandro-perez/pyikev2')
        try:
            ad = ip_address(idt)
            ident = (1 if ad.version == 4 else 5, ad.packed)
        except ValueError:
            ident = (3 if '@' in idt else 2, idt.encode())
        return {'psk': a['psk'].encode() if 'psk' in a else None, 'id': ident, 'has_priv': 'privkey' in a, 'has_pub': 'pubkey' in a}
    protect = []
    for e in d['protect']:
        proto = e.get('ipsec_proto', 'esp')
        if proto not in PROTO:
            raise ValueError('reject')
        enc = algs('encr', ENCR, ['aes256'], e)
        integ = algs('integ', INTEG, ['sha256'], e)
        dh = algs('dh', DH, [], e)
        if PROTO[proto] == 2:
            enc = []
        ipp = e.get('ip_proto', 'any')
        mode = e.get('mode', 'tunnel')
        if ipp not in IPP or mode not in MODE:
            raise ValueError('reject')
        try:
            mysub = ip_network(e.get('my_subnet', my))
            peersub = ip_network(e.get('peer_subnet', peer))
        except ValueError:
            raise ValueError('reject')
        protect.append({'proto': PROTO[proto], 'transforms': enc + integ + dh + [(5, 0, None)], 'ip_proto': IPP[ipp], 'mode': MODE[mode],
                        'my_net': mysub, 'peer_net': peersub, 'my_port': int(e.get('my_port', 0)), 'peer_port': int(e.get('peer_port', 0)),
                        'lifetime': int(e.get('lifetime', 300)), 'index': int(e['index']) if 'index' in e else None})
    return {'key': (my, peer), 'name': name, 'proposal': ike, 'lifetime': int(d.get('lifetime', 900)), 'dpd': int(d.get('dpd', 60)),
            'my_auth': auth(d['my_auth']), 'peer_auth': auth(d['peer_auth']), 'protect': protect}


def compare(conf, exp):
    """list of differences between the loaded IkeConfiguration and the independent reading"""
    out = []
    if conf.name != exp['name']:
        out.append('name')
    if trs(conf.proposal) != exp['proposal'] or int(conf.proposal.protocol_id) != 1:
        out.append('ike proposal %s != %s' % (trs(conf.proposal), exp['proposal']))
    if conf.lifetime != exp['lifetime'] or conf.dpd != exp['dpd']:
        out.append('lifetime/dpd')
    for side in ('my_auth', 'peer_auth'):
        a, e = getattr(conf, side), exp[side]
        if a.psk != e['psk'] or (int(a.id.id_type), bytes(a.id.id_data)) != e['id'] or (a.privkey is not None) != e['has_priv'] or (a.pubkey is not None) != e['has_pub']:
            out.append('%s: %s' % (side, (a.psk, int(a.id.id_type), bytes(a.id.id_data))))
    if len(conf.protect) != len(exp['protect']):
        out.append('number of protect entries')
        return out
    for i, (p, e) in enumerate(zip(conf.protect, exp['protect'])):
        if int(p.proposal.protocol_id) != e['proto'] or trs(p.proposal) != e['transforms']:
            out.append('protect[%d] proposal %s %s != %s' % (i, int(p.proposal.protocol_id), trs(p.proposal), e['transforms']))
        if p.my_ts.get_network() != e['my_net'] or p.peer_ts.get_network() != e['peer_net']:
            out.append('protect[%d] networks' % i)
        if p.my_ts.get_port() != e['my_port'] or p.peer_ts.get_port() != e['peer_port']:
            out.append('protect[%d] ports my %s peer %s != %s %s' % (i, p.my_ts.get_port(), p.peer_ts.get_port(), e['my_port'], e['peer_port']))
        if int(p.my_ts.ip_proto) != e['ip_proto'] or int(p.peer_ts.ip_proto) != e['ip_proto'] or int(p.mode) != e['mode'] or p.lifetime != e['lifetime']:
            out.append('protect[%d] ip_proto/mode/lifetime' % i)
        if e['index'] is not None and p.index != e['index']:
            out.append('protect[%d] index' % i)
        if e['index'] is None and not (0 <= p.index <= 2 ** 20):
            out.append('protect[%d] random index out of range' % i)
    return out


def gen_conn(rng, v6=False):
    me = '2001:db8::1' if v6 else '192.168.0.1'
    peer = ('2001:db8::%x' % rng.randrange(2, 200)) if v6 else ('192.168.0.%d' % rng.randrange(2, 250))
    d = {'my_addr': me, 'peer_addr': peer,
         'my_auth': {'id': rng.choice(['alice@example.org', 'alice.example.org', '10.0.0.1', '2001:db8::77', 'a@b', '@example.org', '@', 'alice@',
                                  '10.0.0.256', '1.2.3', '::ffff:10.0.0.1', 'x' * rng.randrange(1, 300)]), 'psk': rng.choice(['secret%d' % rng.randrange(99), 'contrase\u00f1a-%d' % rng.randrange(99), 'p\u00e4ss-\u4e2d\u6587-\U0001f511', ''])},
         'peer_auth': {'id': rng.choice(['bob@example.org', 'bob.example.org', '10.0.0.2', '@bob', 'fe80::1']), 'psk': 'other'}, 'protect': []}
    if rng.random() < 0.2:
        d['my_auth'].pop('id')
    if rng.random() < 0.3:
        d['my_auth'] = {'id': 'alice@example.org', 'privkey': W.rsa_pair('alice@example.org')[0]}
        d['peer_auth'] = {'id': 'bob@example.org', 'pubkey': W.rsa_pair('bob@example.org')[1]}
    elif rng.random() < 0.1:
        # a well-formed key of another kind is a credential like any other: loaded as given or refused, nothing else
        kind = rng.choice(['ec', 'ed25519'])
        d['my_auth'] = {'id': 'alice@example.org', 'privkey': other_keys()[kind][0]}
        d['peer_auth'] = {'id': 'bob@example.org', 'pubkey': other_keys()[rng.choice(['ec', 'ed25519'])][1]}

    def pick(table, allow_int=False):
        ks = list(table)
        l = [rng.choice(ks) for _ in range(rng.randrange(0, 4))]
        if allow_int:
            l = [int(x) if x.isdigit() and rng.random() < 0.5 else x for x in l]
        return l
    for key, table in (('encr', ENCR), ('integ', INTEG), ('prf', PRF), ('dh', DH)):
        if rng.random() < 0.6:
            d[key] = pick(table, key == 'dh')
            if key != 'dh' and not d[key] and rng.random() < 0.7:
                d[key] = [rng.choice(list(table))]
    if rng.random() < 0.5:
        d['lifetime'] = rng.choice([0, 1, 60, 900, 86400, '300', '0'])
    if rng.random() < 0.5:
        d['dpd'] = rng.choice([0, 5, 60, '30', '0'])
    for _ in range(rng.randrange(1, 4)):
        e = {}
        if rng.random() < 0.7:
            e['ipsec_proto'] = rng.choice(['esp', 'ah'])
        for key, table in (('encr', ENCR), ('integ', INTEG), ('dh', DH)):
            if rng.random() < 0.6:
                e[key] = pick(table, key == 'dh')
                if key == 'integ' and not e[key]:
                    e[key] = ['sha1']
        if rng.random() < 0.6:
            e['ip_proto'] = rng.choice(list(IPP))
        if rng.random() < 0.6:
            e['mode'] = rng.choice(list(MODE))
        if rng.random() < 0.6:
            e['my_port'] = rng.choice([0, 500, 4500, 65535, rng.randrange(65536)])
        if rng.random() < 0.6:
            e['peer_port'] = rng.choice([0, 23, 4500, rng.randrange(65536)])
        if rng.random() < 0.5:
            e['my_subnet'] = rng.choice(['2001:db8:a::/64', '2001:db8::1/128'] if v6 else ['10.1.0.0/16', '192.168.0.1/32', '10.0.0.0/8'])
            e['peer_subnet'] = rng.choice(['2001:db8:b::/48'] if v6 else ['10.2.0.0/16', '172.16.5.0/24'])
        if rng.random() < 0.6:
            e['index'] = rng.randrange(2 ** 20)
        if rng.random() < 0.5:
            e['lifetime'] = rng.choice([0, 5, 300, 3600, '0'])
        d['protect'].append(e)
    return d


def malform(rng, d):
    """one ill-typed / missing / out-of-range value somewhere"""
    d = copy.deepcopy(d)
    where = rng.choice(['conn', 'auth', 'entry', 'top'])
    bad = rng.choice([None, 5, 5.5, True, [], ['x'], {}, {'a': 1}, 'nonsense', '', -1, 2 ** 40, b'bytes', [[1]], [None]])
    if where == 'top':
        return rng.choice([bad, [d], 'string'])
    if where == 'conn':
        k = rng.choice(['my_addr', 'peer_addr', 'my_auth', 'peer_auth', 'protect', 'encr', 'integ', 'prf', 'dh', 'lifetime', 'dpd'])
        if rng.random() < 0.25 and k in d:
            d.pop(k)
        else:
            d[k] = bad
    elif where == 'auth':
        a = d.get(rng.choice(['my_auth', 'peer_auth']))
        if isinstance(a, dict):
            k = rng.choice(['id', 'psk', 'privkey', 'pubkey'])
            r = rng.random()
            if r < 0.6 or k in ('id', 'psk'):
                a[k] = bad if r < 0.5 else 'not a pem'
            else:
                # PEM that parses but is the wrong thing: public where private is expected, a passphrase-protected key, other kinds
                kind = rng.choice(list(other_keys()))
                a[k] = other_keys()[kind][rng.randrange(2)]
    else:
        if d.get('protect') and isinstance(d['protect'], list):
            e = rng.choice(d['protect'])
            k = rng.choice(['ipsec_proto', 'encr', 'integ', 'dh', 'ip_proto', 'mode', 'my_port', 'peer_port', 'my_subnet', 'peer_subnet', 'index', 'lifetime'])
            e[k] = bad
    return d


def tok_algs(v):
    if v is None:
        return '-'
    if type(v) is not list:
        return '!'
    return ','.join(str(x) for x in v) if v else ','


def conn_tokens(d):
    def o(x):
        return '-' if x is None else str(x)
    t = [tok_algs(d.get('encr')), tok_algs(d.get('integ')), tok_algs(d.get('prf')), tok_algs(d.get('dh')),
         o(None if 'lifetime' not in d else int(d['lifetime'])), o(None if 'dpd' not in d else int(d['dpd'])), str(len(d['protect']))]
    for e in d['protect']:
        t += [o(e.get('ipsec_proto')), tok_algs(e.get('encr')), tok_algs(e.get('integ')), tok_algs(e.get('dh')), o(e.get('ip_proto')),
              o(e.get('my_port')), o(e.get('peer_port')), o(e.get('index')), o(e.get('lifetime')), o(e.get('mode'))]
    return ' '.join(t)


def conn_result(conf):
    def tr(l):
        return ','.join('%d:%d:%d' % (a, b, -1 if c is None else c) for a, b, c in l) if l else ','
    out = 'ok %s %d %d' % (tr(trs(conf.proposal)), conf.lifetime, conf.dpd)
    for p in conf.protect:
        out += ' %d %s %d %d %d %s %d %d' % (int(p.proposal.protocol_id), tr(trs(p.proposal)), int(p.my_ts.ip_proto), p.my_ts.get_port(),
                                             p.peer_ts.get_port(), '%IDX%', p.lifetime, int(p.mode))
    return out


def run(ctx):
    res = Result()
    rng = ctx.rng
    res.rule = ('dictionaries from a grammar of the documented keys: 1..3 connections x 1..3 protect entries, every algorithm name (incl. '
                'aliases and integers), defaults omitted, IPv4/IPv6, ports, protocols, modes, ESP/AH, explicit and random indices, PSK '
                'and RSA; plus a malformed stream (one ill-typed / missing / out-of-range value at a random level); distinct = distinct '
                'dictionary')
    ops, expect = [], []
    n = ctx.scale(600, 20000)
    for k in range(n):
        conns = {}
        used = set()
        for i in range(rng.randrange(1, 4)):
            d = gen_conn(rng, v6=rng.random() < 0.3)
            if (d['my_addr'], d['peer_addr']) in used:
                continue
            used.add((d['my_addr'], d['peer_addr']))
            conns['conn%d' % i] = d
        malformed = k % 3 == 2
        if k % 50 == 7 and conns:
            # corner of the grammar that random choice hardly ever reaches: every IKE algorithm list explicitly empty (a proposal
            # without transforms: rejected), or all but one
            name0 = sorted(conns)[0]
            for key in ('encr', 'integ', 'prf', 'dh'):
                conns[name0][key] = []
            if k % 100 == 7:
                conns[name0][rng.choice(['encr', 'integ', 'prf', 'dh'])] = rng.choice([['aes128'], ['sha1'], ['14']])
        full = copy.deepcopy(conns)
        if malformed:
            name = rng.choice(list(conns))
            m = malform(rng, conns[name])
            full[name] = m
            if rng.random() < 0.1:
                full = rng.choice([None, [], 'text', 7, {'c': None}, {'c': 5}, {'c': []}, {5: {}}])
        res.evaluations += 1
        res.nontrivial.add(repr(full))
        res.count('dict:' + ('malformed' if malformed else 'well-formed'))
        try:
            cfg = CONF.Configuration(MY, copy.deepcopy(full))
            outcome = 'ok'
        except CONF.ConfigurationError:
            cfg, outcome = None, 'ConfigurationError'
        except Exception as ex:  # noqa
            cfg, outcome = None, type(ex).__name__
        res.count('outcome:' + outcome)
        rep = {'dict': repr(full)[:1500]}
        if outcome not in ('ok', 'ConfigurationError'):
            res.fail('other-exception:%s' % outcome, 'loading raised %s instead of the configuration error' % outcome, rep)
            continue
        if malformed:
            continue
        # faithful loading of well-formed dictionaries
        try:
            exps = [expected(nm, d) for nm, d in full.items()]
            exp_reject = False
        except ValueError:
            exps, exp_reject = [], True
        if exp_reject != (outcome == 'ConfigurationError'):
            res.fail('accept-reject-differs', 'dictionary %s, the independent reading says %s' % (outcome, 'reject' if exp_reject else 'accept'), rep)
            continue
        if outcome == 'ok':
            if sorted(map(str, cfg.ike_configurations)) != sorted(str(e['key']) for e in exps):
                res.fail('keys-differ', 'connections are keyed by %s, expected %s' % (sorted(cfg.ike_configurations), sorted(e['key'] for e in exps)), rep)
                continue
            for e in exps:
                diffs = compare(cfg.ike_configurations[e['key']], e)
                if diffs:
                    res.fail('not-faithful:' + diffs[0].split(' ')[0].split('[')[0], 'loaded connection differs from the dictionary: %s' % diffs[:3], rep)
        # model correspondence, per connection
        for nm, d in full.items():
            try:
                line = 'cfgconn ' + conn_tokens(d)
            except Exception:
                continue
            try:
                one = CONF.Configuration(MY, {nm: copy.deepcopy(d)})
                want = conn_result(list(one.ike_configurations.values())[0])
                idx = [str(p.index) if 'index' in e else '-' for p, e in zip(list(one.ike_configurations.values())[0].protect, d['protect'])]
                for i in idx:
                    want = want.replace('%IDX%', i, 1)
            except CONF.ConfigurationError:
                want = 'ConfigurationError'
            except Exception:
                continue
            ops.append(line)
            expect.append(want)
        if k < 2:
            res.sample({'dict': repr(full)[:600]})
    # listen rule
    for addr in ('192.168.0.9', '2001:db8::9'):
        d = gen_conn(rng)
        d['my_addr'] = addr
        res.evaluations += 1
        try:
            CONF.Configuration(MY, {'c': d})
            res.fail('foreign-local-address-accepted', 'a connection whose my_addr %s the daemon does not listen on was accepted' % addr, {'dict': repr(d)[:500]})
        except CONF.ConfigurationError:
            res.count('listen-rule:refused')
        except Exception as ex:  # noqa
            res.fail('other-exception:%s' % type(ex).__name__, 'loading raised %s' % type(ex).__name__, {'dict': repr(d)[:500]})
    if ctx.driver is not None and ops:
        outs = ctx.driver.run(ops)
        for op, want, out in zip(ops, expect, outs):
            if out != want:
                res.mismatch(op[:300], want[:300], out[:300])
        res.extra['model_evaluations'] = len(ops)
    return res


def replay(rep):
    return True, 'see the replay file: the dictionary'
