"""Handler-level correspondence: the concrete model of the per-exchange handlers (lean/PyIkev2/Model/Handlers.lean) against the real
handlers, and the WHOLE model (shell + handlers, `concreteHandlers`) against whole iterations of the real event loop.

DeepTracer extends machine.Tracer.  Besides what the shell replay records it keeps

  * for every call of a handler / request generator at the outermost level: the complete object before (every field of the
    IkeSa the model has, including configuration, chosen proposal, CHILD_SA records, creating / rekeying / deleting records and the
    successor), the arguments, the values of every oracle the call consulted in consultation order (SPIs, nonces, DH public
    values, DH / AUTH / kernel verdicts, jitter), the object after, the result or exception, the netlink requests
    -> driver command `hcall`;
  * for every loop iteration: the table with all of that, the configurations, the event, the oracle values of the whole
    iteration -> driver command `xiter`, which runs `loopIter concreteHandlers`: nothing is taken from the real run except the
    oracle values.

Nothing in /repo is changed: library objects and class attributes are wrapped for the lifetime of the tracer.
"""
import os
import sys

import crypto as C
import ikesa as IKESA
import message as M
import xfrm as X
import netlink as NL
import wire
from machine import Tracer, ticks, hx, opt

GEN_KIND = {'generate_ike_sa_init_request': 'geninit', 'generate_create_child_sa_request': 'gencreate',
            'generate_delete_child_sa_request': 'gendelchild', 'generate_dead_peer_detection_request': 'gendpd',
            'generate_delete_ike_sa_request': 'gendelike', 'generate_rekey_ike_sa_request': 'genrekeyike'}


def r_int(n):
    return str(int(n))


class DeepTracer(Tracer):
    def __init__(self, world):
        self.oracle = []            # oracle values of the current loop iteration, in consultation order
        self.quiet = 0              # > 0: inside an oracle (its own entropy is not an oracle of the handler)
        self.hlines = []            # (line, expected, context) for `hcall`
        self.xlines = []            # (line, expected, context) for `xiter`
        self.runs = {}              # endpoint -> list of segments; a segment = {'init': tokens, 'rounds': [(tokens, expected)]} for `xrun`
        self.last_post = {}         # endpoint -> the state after its last iteration, rendered the way a pre-state is
        self.osaved = {}
        self.step_pre = None
        # two-end composition: what a handler of one end returned (requests, replies), and whether what a handler of the other end
        # was later given is, field by field in the model's vocabulary, one of those
        self.outputs = {'A': set(), 'B': set()}
        self.comp = {'requests_in': 0, 'requests_verbatim': 0, 'responses_in': 0, 'responses_verbatim': 0}
        self.comp_missing = []
        super().__init__(world)
        self._install_oracles()

    # ------------------------------------------------------------- oracles
    def log(self, *val):
        if self.enabled and not self.quiet and not self.w.use_side:
            self.oracle.append(list(val))

    def _install_oracles(self):
        tr = self
        w = self.w
        sv = self.osaved
        # os.urandom consulted by ikesa.py itself (SPIs)
        inner_urandom = os.urandom
        sv['urandom'] = inner_urandom

        def urandom(n):
            b = inner_urandom(n)
            if not tr.quiet and not w.use_side:
                f = sys._getframe(1)
                if f.f_code.co_filename.endswith('ikesa.py'):
                    tr.log('b', hx(b))
            return b
        os.urandom = urandom
        # PayloadNONCE(): one value
        nonce_init = M.PayloadNONCE.__init__
        sv['nonce_init'] = nonce_init

        def nonce_wrapper(self_, nonce=None, critical=False):
            if nonce is not None:
                return nonce_init(self_, nonce, critical)
            tr.quiet += 1
            try:
                nonce_init(self_, None, critical)
            finally:
                tr.quiet -= 1
            tr.log('b', hx(self_.nonce))
        M.PayloadNONCE.__init__ = nonce_wrapper
        # DiffieHellman.from_group / compute_secret
        from_group = C.DiffieHellman.__dict__['from_group']
        sv['from_group'] = from_group

        def fg(cls, group):
            tr.quiet += 1
            try:
                try:
                    d = from_group.__func__(cls, group)
                except Exception:
                    tr.quiet -= 1
                    tr.log('f', '0')
                    tr.quiet += 1
                    raise
            finally:
                tr.quiet -= 1
            tr.log('b', hx(d.public_key))
            return d
        C.DiffieHellman.from_group = classmethod(fg)
        for cls in (C.MODPDH, C.ECDH):
            cs = cls.compute_secret
            sv['cs_' + cls.__name__] = cs

            def compute_secret(self_, data, _cs=cs):
                tr.quiet += 1
                try:
                    try:
                        r = _cs(self_, data)
                    except Exception:
                        tr.quiet -= 1
                        tr.log('f', '0')
                        tr.quiet += 1
                        raise
                finally:
                    tr.quiet -= 1
                tr.log('f', '1')
                return r
            cls.compute_secret = compute_secret
        # cookie
        real_hmac = IKESA.HMAC
        sv['hmac'] = real_hmac

        class HmacProxy:
            def __init__(self, *a, **k):
                self.h = real_hmac(*a, **k)

            def digest(self):
                d = self.h.digest()
                tr.log('b', hx(d))
                return d
        IKESA.HMAC = HmacProxy
        # AUTH
        gen = IKESA.IkeSa._generate_auth_payload
        ver = IKESA.IkeSa._verify_auth_payload
        sv['gen_auth'], sv['ver_auth'] = gen, ver

        def gen_wrapper(self_, *a, **k):
            tr.quiet += 1
            try:
                try:
                    p = gen(self_, *a, **k)
                except M.AuthenticationFailed:
                    tr.quiet -= 1
                    tr.log('f', '0')
                    tr.quiet += 1
                    raise
            finally:
                tr.quiet -= 1
            tr.log('a', str(int(p.method)), hx(p.auth_data))
            return p

        def ver_wrapper(self_, *a, **k):
            tr.quiet += 1
            try:
                try:
                    ver(self_, *a, **k)
                except M.AuthenticationFailed:
                    tr.quiet -= 1
                    tr.log('v', '0')
                    tr.quiet += 1
                    raise
            finally:
                tr.quiet -= 1
            tr.log('v', '1')
        IKESA.IkeSa._generate_auth_payload = gen_wrapper
        IKESA.IkeSa._verify_auth_payload = ver_wrapper
        # kernel verdict on a CHILD_SA pair
        create = X.Xfrm.__dict__['create_child_sa']
        sv['create_child_sa'] = create

        def create_wrapper(cls, ike_sa, child_sa, keyring, is_initiator):
            k = w.current.kernel
            n0 = len(k.log)
            tr.quiet += 1
            try:
                try:
                    create.__func__(cls, ike_sa, child_sa, keyring, is_initiator)
                except NL.NetlinkError:
                    n = sum(1 for r in k.log[n0:] if r['op'] == 'NEWSA')
                    tr.quiet -= 1
                    tr.log('n', '1' if n <= 1 else '2')
                    tr.quiet += 1
                    raise
            finally:
                tr.quiet -= 1
            tr.log('n', '0')
        X.Xfrm.create_child_sa = classmethod(create_wrapper)
        # jitter
        rshim = IKESA.random
        sv['random'] = rshim

        class RandomProxy:
            def uniform(self, a, b):
                v = rshim.uniform(a, b)
                tr.log('n', str(ticks(v)))
                return v

            def __getattr__(self, name):
                return getattr(rshim, name)
        IKESA.random = RandomProxy()

    def restore(self):
        sv = self.osaved
        if sv:
            os.urandom = sv['urandom']
            M.PayloadNONCE.__init__ = sv['nonce_init']
            C.DiffieHellman.from_group = sv['from_group']
            C.MODPDH.compute_secret = sv['cs_MODPDH']
            C.ECDH.compute_secret = sv['cs_ECDH']
            IKESA.HMAC = sv['hmac']
            IKESA.IkeSa._generate_auth_payload = sv['gen_auth']
            IKESA.IkeSa._verify_auth_payload = sv['ver_auth']
            X.Xfrm.create_child_sa = sv['create_child_sa']
            IKESA.random = sv['random']
            self.osaved = {}
        super().restore()

    # ------------------------------------------------------------- rendering
    def r_kid(self, c):
        def sels(x):
            if isinstance(x, M.TrafficSelector):
                x = [x]
            x = list(x)
            out = [str(len(x))]
            for s in x:
                out += wire.r_sel(s)
            return out
        return ([hx(c.inbound_spi), hx(c.outbound_spi)] + wire.r_proposal(c.original_proposal) + wire.r_proposal(c.proposal)
                + sels(c.tsi) + sels(c.tsr) + [str(int(c.mode)), r_int(c.lifetime)])

    def r_conf(self, cf):
        out = wire.r_proposal(cf.proposal) + [str(len(cf.protect))]
        for p in cf.protect:
            out += wire.r_sel(p.my_ts) + wire.r_sel(p.peer_ts) + [str(p.index), str(int(p.mode)), r_int(p.lifetime)] + wire.r_proposal(p.proposal)
        out += [str(int(cf.my_auth.id.id_type)), hx(cf.my_auth.id.id_data), str(int(cf.peer_auth.id.id_type)), hx(cf.peer_auth.id.id_data),
                str(ticks(cf.dpd)), str(ticks(cf.lifetime))]
        return out

    def r_ext(self, s):
        out = self.r_conf(s.configuration)
        out += opt(None if s.chosen_proposal is None else wire.r_proposal(s.chosen_proposal))
        out.append(str(len(s.child_sas)))
        for c in s.child_sas:
            out += self.r_kid(c)
        for c in (s.creating_child_sa, s.rekeying_child_sa, s.deleting_child_sa):
            out += opt(None if c is None else self.r_kid(c))
        return out

    def r_xsa(self, s):
        return self.r_core(s) + self.r_ext(s)

    def r_xent(self, s, table):
        n = s.new_ike_sa
        if n is not None and table is not None and (any(x is n for x in table) or int(n.state) == 21):
            n = None
        return self.r_xsa(s) + opt(None if n is None else self.r_xsa(n))

    def r_sad(self, kernel):
        from ipaddress import ip_address
        keys = list(kernel.sad.keys())           # insertion order = the order the kernel accepted them
        out = [str(len(keys))]
        for (daddr, proto, spi) in keys:
            out += [ip_address(daddr).packed.hex(), str(proto), hx(spi)]
        return out

    def r_tape(self, vals):
        out = [str(len(vals))]
        for v in vals:
            out += v
        return out

    # ------------------------------------------------------------- one handler call
    def pre_call(self, kind, name, sa, a, kw):
        if kind == 'gen':
            k = GEN_KIND[name]
            args = [k]
            if k in ('geninit', 'gendelchild'):
                args += self.r_kid(a[0])
            elif k == 'gencreate':
                rk = a[1] if len(a) > 1 else kw.get('rekeyed_child_sa')
                args += self.r_kid(a[0]) + opt(None if rk is None else self.r_kid(rk))
        else:
            args = [kind] + wire.r_msg(a[0], with_iv=False) + ['none']
            if int(a[0].exchange_type) >= 35:
                me = self.w.current.name
                text = ' '.join(args[1:-1])
                what = 'requests' if a[0].is_request else 'responses'
                self.comp[what + '_in'] += 1
                if text in self.outputs['B' if me == 'A' else 'A']:
                    self.comp[what + '_verbatim'] += 1
                elif a[0].is_request and len(self.comp_missing) < 5:
                    self.comp_missing.append((me, name, text[:400]))
        n = sa.new_ike_sa
        pre = self.r_xsa(sa) + opt(None if n is None else self.r_xsa(n))
        # the step of the state machine a request generator stands for (RFC 7296 exchanges as this daemon numbers them)
        expected = None
        if kind == 'gen':
            k = GEN_KIND[name]
            if k == 'geninit':
                expected = 2
            elif k == 'gencreate':
                rk = a[1] if len(a) > 1 else kw.get('rekeyed_child_sa')
                expected = 11 if rk is None else 12
            elif k == 'gendelchild':
                expected = 14
            elif k == 'gendpd':
                expected = 17
            elif k == 'gendelike':
                expected = 15 if int(sa.state) == 10 else 16
            elif k == 'genrekeyike':
                expected = 13
        return {'pre': pre, 'args': args, 'o0': len(self.oracle), 'now': self.w.now, 'expected_state': expected, 'state_before': int(sa.state),
                'sad': self.r_sad(self.w.current.kernel)}

    def post_call(self, token, kind, name, sa, res, nl):
        tape = self.oracle[token['o0']:]
        line = ['hcall', str(ticks(token['now']))] + token['pre'] + token['args'] + self.r_tape(tape) + token['sad']
        n = sa.new_ike_sa
        if res[0] == 'ok':
            r = ['nothing'] if res[1] is None else (['reply' if kind == 'req' else 'request'] + wire.r_msg(res[1], with_iv=False) + ['none'])
        else:
            ex = res[1]
            r = ['ikeerr' if isinstance(ex, M.IkeSaError) else 'othererr'] + wire.r_payload(M.PayloadNOTIFY.from_exception(ex))
        if res[0] == 'ok' and res[1] is not None:
            self.outputs[self.w.current.name].add(' '.join(r[1:-1]))
        nlt = self.r_nl(nl)
        exp = (self.r_xsa(sa) + opt(None if n is None else self.r_xsa(n)) + r + [str(len(nlt))] + [x for op in nlt for x in op] + ['0', '0']
               + self.r_sad(self.w.current.kernel))
        self.hlines.append((' '.join(line), ' '.join(exp), {'name': name, 'ep': self.w.current.name, 'state_after': int(sa.state),
                                                             'raised': None if res[0] == 'ok' else type(res[1]).__name__,
                                                             'expected_state': token['expected_state'], 'state_before': token['state_before']}))

    # ------------------------------------------------------------- one loop iteration
    def step_begin(self, ep, pre_objs):
        self.oracle = []
        confs = []
        for (a, b), cf in ep.configuration.ike_configurations.items():
            confs.append([hx(a.packed), hx(b.packed)] + self.r_conf(cf))
        pre = [str(len(confs))] + [x for c in confs for x in c] + [str(len(pre_objs))]
        for s in pre_objs:
            pre += self.r_xent(s, pre_objs)
        self.step_pre = pre
        self.step_sad = self.r_sad(ep.kernel)
        # does this iteration start where the last one of this endpoint ended?  (anything else means the state was changed from outside
        # the loop — a scenario set a timer by hand, objects were removed — and a new run of rounds begins)
        state = [str(len(pre_objs))] + [x for s in pre_objs for x in self.r_xent(s, pre_objs)] + self.step_sad
        self.step_state = (confs, state)
        segs = self.runs.setdefault(ep.name, [])
        if not segs or self.last_post.get(ep.name) != state or len(segs[-1]['rounds']) >= 40:
            segs.append({'init': [str(len(confs))] + [x for c in confs for x in c] + state, 'rounds': [], 'ep': ep.name})

    def step_end(self, ep, info):
        line = ['xiter', str(ticks(info['now'])), str(info['thr'])] + self.step_pre + info['event'] + self.r_tape(self.oracle) + self.step_sad
        post = info['post_objs']
        exp = ['1' if info['interrupted'] else '0', str(info['ran']), str(len(post))]
        for s in post:
            n = s.new_ike_sa
            if n is not None and (any(x is n for x in post) or int(n.state) == 21):
                n = None
            exp += self.r_sa(s, post) + ['1'] + self.r_ext(s) + opt(None if n is None else self.r_ext(n))
        exp += info['tail']
        exp += self.r_sad(ep.kernel)      # the kernel after the round = the round's netlink requests applied in order (wholeStep)
        self.xlines.append((' '.join(line), ' '.join(exp), {'ep': ep.name, 'ok': not info['interrupted'], 'kind': info['kind'], 'now': info['now']}))
        if info['interrupted']:
            self.last_post[ep.name] = None          # the loop's catch-all ended this iteration somewhere in the middle: start afresh
        else:
            self.runs[ep.name][-1]['rounds'].append(([str(ticks(info['now']))] + info['event'] + self.r_tape(self.oracle), ' '.join(exp)))
            self.runs[ep.name][-1]['thr'] = info['thr']
            self.last_post[ep.name] = [str(len(post))] + [x for s in post for x in self.r_xent(s, post)] + self.r_sad(ep.kernel)

    # ------------------------------------------------------------- comparison
    def check_handlers(self, driver, limit=20):
        bad = []
        if self.hlines:
            outs = driver.run([l for l, _, _ in self.hlines])
            for (line, want, ctx), out in zip(self.hlines, outs):
                if out != want:
                    bad.append((line, want, out, ctx))
                    if len(bad) >= limit:
                        break
        return bad

    def check_runs(self, driver, limit=5):
        """every maximal run of consecutive iterations of one endpoint, replayed with the model carrying its OWN state from round to round"""
        segs = [g for gs in self.runs.values() for g in gs if len(g['rounds']) >= 2]
        bad = []
        if not segs:
            return bad, 0, 0
        lines = []
        for g in segs:
            toks = ['xrun', str(g['thr'])] + g['init'] + [str(len(g['rounds']))] + [x for r, _ in g['rounds'] for x in r]
            lines.append(' '.join(toks))
        outs = driver.run(lines)
        for g, out in zip(segs, outs):
            got = out.split(' | ')
            want = [e for _, e in g['rounds']]
            if got != want:
                k = next((i for i, (a, b) in enumerate(zip(got, want)) if a != b), min(len(got), len(want)))
                bad.append((g, k, want[k] if k < len(want) else '<end>', got[k] if k < len(got) else '<end>'))
                if len(bad) >= limit:
                    break
        return bad, len(segs), sum(len(g['rounds']) for g in segs)

    def check_whole(self, driver, limit=20):
        bad = []
        if self.xlines:
            outs = driver.run([l for l, _, _ in self.xlines])
            for (line, want, ctx), out in zip(self.xlines, outs):
                if not ctx['ok']:
                    if not out.startswith('1 '):
                        bad.append((line, 'loop interrupted', out[:200], ctx))
                    continue
                if out != want:
                    bad.append((line, want, out, ctx))
                    if len(bad) >= limit:
                        break
        return bad
