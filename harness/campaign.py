"""Histories of the two-endpoint world and the oracles the stateful properties evaluate on the REAL code after every
event.  One history = one seeded schedule of local triggers (acquire, soft/hard expire, clock ticks incl. DPD and
lifetime expiry, status queries), deliveries, duplications, drops and reorderings, optionally with kernel refusals and
transmission failures, followed by a lossless drain.

Every oracle returns a list of (key, what) findings; keys are stable identifiers of the call site / kind of failure so
that known_findings.json can list a specific one."""
import random

import message as M
import world as W
import machine as MC

ST = {0: 'INITIAL', 1: 'INIT_RES_SENT', 2: 'INIT_REQ_SENT', 3: 'AUTH_REQ_SENT', 10: 'ESTABLISHED', 11: 'NEW_CHILD_REQ_SENT',
      12: 'REK_CHILD_REQ_SENT', 13: 'REK_IKE_SA_REQ_SENT', 14: 'DEL_CHILD_REQ_SENT', 15: 'DEL_IKE_SA_REQ_SENT',
      16: 'DEL_AFTER_REKEY_IKE_SA_REQ_SENT', 17: 'DPD_REQ_SENT', 20: 'REKEYED', 21: 'DELETED'}
WAITING = {2, 3, 11, 12, 13, 14, 15, 16, 17}


WATCHDOG_SECONDS = 20


class Wedged(BaseException):
    """raised by the watchdog inside whatever the event loop is doing (not an Exception: the loop's catch-all must not contain it)"""


class Watchdog:
    def __init__(self, seconds):
        self.seconds = seconds

    def __enter__(self):
        import signal

        def handler(signum, frame):
            raise Wedged()
        try:
            self.old = signal.signal(signal.SIGALRM, handler)
            signal.setitimer(signal.ITIMER_REAL, self.seconds)
            self.armed = True
        except ValueError:          # not the main thread
            self.armed = False
        return self

    def __exit__(self, *a):
        import signal
        if self.armed:
            signal.setitimer(signal.ITIMER_REAL, 0)
            signal.signal(signal.SIGALRM, self.old)
        return False


class History:
    def __init__(self, seed, trace=True, capture_logs=False, deep=False, **conf):
        self.seed = seed
        self.rng = random.Random(seed * 7919 + 17)
        self.w = W.World(seed, capture_logs=capture_logs, **conf)
        if trace and deep:
            import handlers as HD
            self.tr = HD.DeepTracer(self.w)
        else:
            self.tr = MC.Tracer(self.w) if trace else None
        if self.tr is not None:
            self.tr.owner = self
        self.ops = []              # the schedule as executed (for the replay file)
        self.findings = []         # (key, what, op index)
        self.oracles = []
        self.after = []            # callbacks after every op
        self.visited = set()       # (endpoint, state) seen
        self.kinds = {}
        self.pre = {}              # endpoint name -> snapshot before the current op
        self.sent_before = 0       # len(w.sent) before the current op
        self.targets = []          # IKE_SAs whose process_message ran during the current op: (sa, data)
        self.handler_runs = []     # (sa, handler name, message id) for every request/response handler executed in this op
        self.expire_targets, self.expire_owners = [], None
        self._hook()

    def _hook(self):
        """observation only: which IKE_SA a datagram was handed to, which handlers ran (wrapping IkeSa methods in-process)"""
        import ikesa as IKESA
        h = self
        cls = IKESA.IkeSa
        self._saved = {}
        pm = cls.process_message
        self._saved['process_message'] = pm

        def pm_wrapper(sa, data):
            h.targets.append((sa, bytes(data)))
            return pm(sa, data)
        cls.process_message = pm_wrapper
        pe = cls.process_expire
        self._saved['process_expire'] = pe

        def pe_wrapper(sa, spi, hard=False):
            h.expire_targets.append((sa, bytes(spi), bool(hard)))
            return pe(sa, spi, hard)
        cls.process_expire = pe_wrapper
        for name in MC.REQ + MC.RESP:
            fn = cls.__dict__[name]
            self._saved[name] = fn

            def mk(fn, name):
                def wrapper(sa, message, *a, **kw):
                    h.handler_runs.append((sa, name, message.message_id))
                    return fn(sa, message, *a, **kw)
                return wrapper
            setattr(cls, name, mk(fn, name))

    def close(self):
        import ikesa as IKESA
        for name, fn in self._saved.items():        # innermost wrappers first: ours sit on top of the tracer's
            setattr(IKESA.IkeSa, name, fn)
        self._saved = {}
        if self.tr:
            self.tr.restore()
        self.w.close()

    def __enter__(self):
        return self

    def __exit__(self, *a):
        self.close()

    # ---------------------------------------------------------------- operations
    def op(self, kind, *args):
        w = self.w
        self.pre = {ep.name: full_snapshot(ep) for ep in (w.A, w.B)}
        self.pre_objs = {ep.name: list(ep.sas()) for ep in (w.A, w.B)}
        self.sent_before = len(w.sent)
        self.nl_before = {ep.name: len(ep.kernel.log) for ep in (w.A, w.B)}
        self.targets, self.handler_runs = [], []
        self.expire_targets, self.expire_owners = [], None      # process_expire calls of this op; owners of the expiring SPI before it
        self.ops.append((kind,) + tuple(str(a) for a in args))
        self.kinds[kind] = self.kinds.get(kind, 0) + 1
        try:
            with Watchdog(WATCHDOG_SECONDS):
                self._do(kind, args)
        except Wedged:
            # the event loop did not come back from this operation: report it and make the history end here
            if len(self.findings) < 40:
                self.findings.append(('loop-wedged:%s' % kind, 'the event loop did not come back within %d s from %s'
                                      % (WATCHDOG_SECONDS, ' '.join(self.ops[-1])[:200]), len(self.ops) - 1))
            w.net.clear()
            self.wedged = True
            return
        for ep in (w.A, w.B):
            for s in ep.sas():
                self.visited.add((ep.name, int(s.state), bool(s.is_initiator)))
        for cb in self.after:
            cb(self)
        for o in self.oracles:
            for key, what in o(self):
                if len(self.findings) < 40:
                    self.findings.append((key, what, len(self.ops) - 1))

    def _do(self, kind, args):
        w = self.w
        if kind == 'acquire':
            ep = w.A if args[0] == 'A' else w.B
            me = ep.addrs[0]
            peer = w.ip_b if me == w.ip_a else w.ip_a
            prot = list(ep.configuration.ike_configurations.values())[0].protect[0]
            sport = args[1] if len(args) > 1 else 0
            idx = args[2] if len(args) > 2 else prot.index
            dport = args[3] if len(args) > 3 else prot.peer_ts.get_port()
            proto = args[4] if len(args) > 4 else int(prot.my_ts.ip_proto)
            ev = ep.acquire_event(idx, str(me), str(peer), sport=sport, dport=dport, proto=proto)
            ep.step(event=ev)
        elif kind == 'expire':
            ep = w.A if args[0] == 'A' else w.B
            self.expire_owners = [s for s in ep.sas() if any(bytes(args[1]) in (bytes(c.inbound_spi), bytes(c.outbound_spi)) for c in s.child_sas)]
            ep.step(event=ep.expire_event(args[1], args[2]))
        elif kind == 'deliver':
            dg = next((d for d in w.net if d.id == args[0]), None)
            if dg is not None:
                w.deliver(dg)
        elif kind == 'dup':
            dg = next((d for d in w.sent if d.id == args[0]), None)
            if dg is not None:
                w.deliver(dg, keep=True)
        elif kind == 'drop':
            dg = next((d for d in w.net if d.id == args[0]), None)
            if dg is not None:
                w.net.remove(dg)
        elif kind == 'tick':
            w.tick(args[0])
        elif kind == 'status':
            ep = w.A if args[0] == 'A' else w.B
            ep.step(control=True)
        elif kind == 'inject':
            ep = w.A if args[0] == 'A' else w.B
            w.inject(ep, args[1], src=args[2] if len(args) > 2 else None)
        elif kind == 'force4':
            # the values of the next 4-byte draws (CHILD_SA SPIs): 'f:-,aabbccdd' = the first as usual, the second forced
            w.forced4 = [None if x in ('-', '') else bytes.fromhex(x) for x in str(args[0])[2:].split(',')] if len(str(args[0])) > 2 else []
        else:
            raise ValueError(kind)

    def random_op(self, loss=0.1, dup=0.15, p_trigger=0.3):
        r, w = self.rng, self.w
        x = r.random()
        if w.net and x > p_trigger:
            dg = r.choice(w.net) if r.random() < 0.3 else w.net[0]
            y = r.random()
            if y < loss:
                return self.op('drop', dg.id)
            if y < loss + dup:
                return self.op('dup', dg.id)
            return self.op('deliver', dg.id)
        if w.sent and x > p_trigger - 0.05 and r.random() < 0.5:
            return self.op('dup', r.choice(w.sent[-8:]).id)       # a late copy of something old
        t = r.random()
        eps = [e for e in (w.A, w.B)]
        ep = r.choice(eps)
        if t < 0.25:
            return self.op('acquire', ep.name, r.choice([0, 8765, 4000 + r.randrange(50)]))
        if t < 0.55:
            kids = [(e, c) for e in eps for s in e.sas() for c in s.child_sas]
            if kids:
                e, c = r.choice(kids)
                return self.op('expire', e.name, r.choice([c.inbound_spi, c.inbound_spi, c.outbound_spi]), r.random() < 0.4)
            return self.op('acquire', ep.name, 0)
        if t < 0.6:
            kids = [(e, c) for e in eps for s in e.sas() for c in s.child_sas]
            if kids and r.random() < 0.6:
                # an SPI nobody owns, made of octets that some CHILD_SA does have: a window across inbound||outbound or outbound||inbound
                e, c = r.choice(kids)
                cat = r.choice([bytes(c.inbound_spi) + bytes(c.outbound_spi), bytes(c.outbound_spi) + bytes(c.inbound_spi)])
                k = r.randrange(1, 4)
                return self.op('expire', e.name, cat[k:k + 4], r.random() < 0.5)
            return self.op('expire', ep.name, bytes(r.getrandbits(8) for _ in range(4)), r.random() < 0.5)
        if t < 0.65:
            return self.op('status', ep.name)
        return self.op('tick', r.choice([0.5, 1, 1, 2, 2, 3, 5, 10, 30, 61, 61, 300, 905]))

    def settle(self, max_rounds=80):
        """lossless drain: deliver everything FIFO, advance the clock in 1 s sweeps until nothing is outstanding"""
        w = self.w
        for _ in range(max_rounds):
            n = 0
            while w.net and n < 300:
                self.op('deliver', w.net[0].id)
                n += 1
            busy = any(int(s.state) in WAITING for ep in (w.A, w.B) for s in ep.sas())
            if not busy and not w.net:
                return True
            self.op('tick', 1)
        return False

    def establish(self, initiator='A'):
        self.op('acquire', initiator, 8765)
        n = 0
        while self.w.net and n < 50:
            self.op('deliver', self.w.net[0].id)
            n += 1
        return all(int(s.state) == 10 for ep in (self.w.A, self.w.B) for s in ep.sas()) and self.w.A.sas() and self.w.B.sas()


def full_snapshot(ep):
    """everything observable of an endpoint: every field of every IKE_SA in the table, the SAD, the number of netlink calls"""
    out = []
    for s in ep.sas():
        d = W.snap_sa(s)
        d['last_resp'] = bytes(getattr(s, 'last_sent_response_data', b'') or b'')
        d['request'] = id(s.request)
        d['creating'] = s.creating_child_sa
        d['new'] = None if s.new_ike_sa is None else W.snap_sa(s.new_ike_sa)
        out.append(d)
    return {'sas': out, 'sad': ep.kernel.sad_keys(), 'nl': len(ep.kernel.log), 'ids': [id(s) for s in ep.sas()]}


# ------------------------------------------------------------------------------ oracles

def site_of(ep):
    return ep.escaped[-1][2] if ep.escaped else '?'


def o_no_escape(h):
    out = []
    for ep in (h.w.A, h.w.B):
        if ep.escaped and not getattr(ep, '_reported', 0) == len(ep.escaped):
            ep._reported = len(ep.escaped)
            name, msg, site = ep.escaped[-1]
            out.append(('loop-died:%s@%s' % (name, site), 'the event loop of %s ended with %s: %s' % (ep.name, name, msg)))
        # the loop's catch-all contained an exception: with authentic traffic and local triggers only, no entry point may raise
        if ep.contained and getattr(ep, '_contained_reported', 0) != len(ep.contained) and h.ops[-1][0] != 'inject':
            ep._contained_reported = len(ep.contained)
            m = ep.contained[-1]
            kind = m.split('event: ')[1].split('(')[0] if 'event: ' in m else '?'
            out.append(('exception-in-entry-point:%s' % kind, 'an entry point of %s raised (contained by the loop) after %s: %s'
                        % (ep.name, ' '.join(h.ops[-1]), m)))
    return out


def o_expire_to_owner(h):
    """a kernel expiry notice is handed to the IKE_SA that owns the expiring SPI — whatever that IKE_SA is doing at the moment
    (it queues the notice itself while a request is outstanding) — and to nobody when no IKE_SA in the table owns it"""
    if h.ops[-1][0] != 'expire' or h.expire_owners is None:
        return []
    got = [sa for sa, _, _ in h.expire_targets]
    want = h.expire_owners[:1]
    if [id(x) for x in got] != [id(x) for x in want]:
        def nm(l):
            return ['%s(state %d)' % (bytes(x.my_spi).hex(), int(x.state)) for x in l]
        return [('expire-not-to-owner', 'EXPIRE for SPI %s: owner in the table %s, handed to %s' % (h.ops[-1][2], nm(want), nm(got)))]
    return []


def o_sad_equals_tracked(h):
    """reported once per endpoint, at the event where the kernel SAD and the tracked CHILD_SAs first diverge; the key
    names the kind of divergence and its cause (what the endpoint was doing), not the schedule"""
    out = []
    for ep in (h.w.A, h.w.B):
        sad, tr = ep.kernel.sad_keys(), ep.tracked_sad()
        bad = sad != tr
        was = getattr(ep, '_sad_bad', False)
        ep._sad_bad = bad
        if bad and not was:
            extra = [k for k in sad if k not in tr]
            missing = [k for k in tr if k not in sad]
            kind = 'installed-untracked' if extra else 'tracked-absent'
            recent = ep.kernel.log[getattr(ep, '_nl_seen', 0):]
            refused = [r for r in recent if r['err'] == 'INJECTED']
            if refused:
                cause = 'kernel-refused-%s' % refused[0]['op']
            else:
                states = sorted({CP_ST(int(s.state)) for s in ep.sas()}) or ['no-ike-sa']
                cause = 'after-%s' % h.ops[-1][0]
                if any(r['op'] == 'DELSA' for r in recent) or not ep.sas():
                    cause = 'on-removal'
                elif extra and not missing:
                    cause = 'orphaned'
            role = 'initiator' if any(s.is_initiator for s in ep.sas()) else 'responder'
            out.append(('%s:%s' % (kind, cause),
                        '%s (%s): kernel SAD != tracked CHILD_SAs after %s (installed but untracked %s, tracked but absent %s)'
                        % (ep.name, role, ' '.join(h.ops[-1]), [(k[0], k[2].hex()) for k in extra], [(k[0], k[2].hex()) for k in missing])))
        ep._nl_seen = len(ep.kernel.log)
    return out


def CP_ST(x):
    return ST.get(x, str(x))


def o_table_exact(h):
    out = []
    for ep in (h.w.A, h.w.B):
        sas = ep.sas()
        ids = [id(s) for s in sas]
        if len(set(ids)) != len(ids):
            out.append(('table-duplicate', '%s lists an IKE_SA twice after %s' % (ep.name, ' '.join(h.ops[-1]))))
        for s in sas:
            if int(s.state) == 21:
                out.append(('deleted-in-table', '%s keeps a DELETED IKE_SA in its table after %s' % (ep.name, ' '.join(h.ops[-1]))))
            if int(s.state) in (20, 16) and s.new_ike_sa is not None and int(s.new_ike_sa.state) != 21 and not any(x is s.new_ike_sa for x in sas):
                out.append(('successor-not-registered', '%s: IKE_SA created by rekey is not in the table' % ep.name))
    return out


ALL_BASIC = [o_no_escape]


def o_emitted_valid_at_peer(h):
    """every protected message an endpoint emits must be valid under the keys the two ends negotiated: the IKE_SA of the other endpoint
    that the header addresses (looked up the way the controller does, successors that are not registered yet included) must be able
    to verify and decrypt it"""
    out = []
    w = h.w
    for d in w.sent[h.sent_before:]:
        data = bytes(d.data)
        if len(data) <= 28 or data[18] < 35 or d.sender not in ('A', 'B'):
            continue
        peer = w.B if d.sender == 'A' else w.A
        sender_is_initiator = bool(data[19] & 0x08)
        spi = data[8:16] if sender_is_initiator else data[0:8]
        cands = []
        for x in peer.sas():
            cands.append(x)
            if getattr(x, 'new_ike_sa', None) is not None:
                cands.append(x.new_ike_sa)
        sa = next((x for x in cands if bytes(x.my_spi) == spi and x.peer_crypto is not None and int(x.state) != 21), None)
        if sa is None:
            continue
        # judge only a pair of IKE_SAs that negotiated from the same two IKE_SA_INIT messages: a duplicated IKE_SA_INIT request makes the
        # responder create a second IKE_SA, and a duplicated INVALID_KE_PAYLOAD answer makes the initiator retry twice with different key
        # pairs — the initiator then talks to a responder object that answered its *other* retry; the two never had keys in common
        # (both ends keep the octets they authenticate; successors of a rekey keep none)
        me_ep = w.A if d.sender == 'A' else w.B
        own_spi = data[0:8] if sender_is_initiator else data[8:16]
        mine = []
        for x in me_ep.sas():
            mine.append(x)
            if getattr(x, 'new_ike_sa', None) is not None:
                mine.append(x.new_ike_sa)
        snd = next((x for x in mine if bytes(x.my_spi) == own_spi), None)
        if snd is None:
            continue
        same = True
        for f in ('ike_sa_init_req_data', 'ike_sa_init_res_data'):
            u, v = getattr(snd, f, None), getattr(sa, f, None)
            if (u is None) != (v is None) or (u is not None and bytes(u) != bytes(v)):
                same = False
        if not same:
            continue
        # the checksum, recomputed with nothing of the implementation but the negotiated algorithm and key: HMAC over everything before it
        try:
            import hmac as _hmac
            integ = next((t for t in sa.chosen_proposal.transforms if int(t.type) == 3), None)
            spec = {2: ('sha1', 12), 12: ('sha256', 16), 14: ('sha512', 32)}.get(int(integ.id)) if integ is not None else None
        except Exception:  # noqa
            spec = None
        if spec is not None:
            name, n = spec
            want = _hmac.new(bytes(sa.peer_crypto.sk_a), data[:-n], name).digest()[:n]
            if want != data[-n:]:
                out.append(('emitted-message-checksum-not-the-negotiated-mac:exch%d' % data[18],
                            '%s emitted a %s of exchange type %d (ID %d) whose last %d octets are not HMAC-%s under the integrity key of its '
                            'direction over all octets before them' % (d.sender, 'response' if data[19] & 0x20 else 'request', data[18],
                                                                       int.from_bytes(data[20:24], 'big'), n, name.upper())))
                continue
        w.use_side = True
        try:
            M.Message.parse(data, header_only=False, crypto=sa.peer_crypto)
        except Exception as ex:  # noqa
            out.append(('emitted-message-invalid-under-negotiated-keys:exch%d' % data[18],
                        '%s emitted a %s of exchange type %d (ID %d) that the addressed IKE_SA %s of %s cannot verify / decrypt under the keys '
                        'the two ends negotiated: %s: %s' % (d.sender, 'response' if data[19] & 0x20 else 'request', data[18],
                                                           int.from_bytes(data[20:24], 'big'), bytes(sa.my_spi).hex(), peer.name,
                                                           type(ex).__name__, str(ex)[:80])))
        finally:
            w.use_side = False
    return out
