"""Shared machinery of the checks: paths, the Lean side (extract, lake build, axiom audit,
driver), evidence/replay files, known findings, seeded randomness, watchdog."""
import json
import os
import random
import re
import signal
import subprocess
import sys
import time

VERIF = os.path.dirname(os.path.dirname(os.path.abspath(__file__)))
REPO = os.environ.get('VERIF_REPO', '/repo')
LEAN = os.path.join(VERIF, 'lean')
GEN = os.path.join(LEAN, 'PyIkev2', 'Gen')
DRIVER = os.path.join(LEAN, '.lake', 'build', 'bin', 'driver')
EVIDENCE = os.path.join(VERIF, 'evidence')
REPLAYS = os.path.join(VERIF, 'replays')
GUARD = 'ALEJANDRO_PEREZ_PYIKEV2_VERIF'

ALLOWED_AXIOMS = {'propext', 'Classical.choice', 'Quot.sound'}
FORBIDDEN = re.compile(r'\b(sorry|admit|native_decide|bv_decide|implemented_by|unsafe)\b|^axiom |maxHeartbeats 0')

TRUSTED_BASE = [
    "Lean 4.33.0 kernel; axioms allowed: propext, Classical.choice, Quot.sound (audited with #print axioms on every run)",
    "extract/ (stdlib-ast fact translator) and its fact schema",
    "hand-written Impl model as transcription of Python/ctypes semantics, validated by the differential correspondence check",
    "Spec transcriptions of RFC 7296 / RFC 3526 / RFC 5903 / linux xfrm UAPI",
    "CPython, struct, ctypes, ipaddress, hashlib, cryptography/OpenSSL",
]


def import_repo():
    """make the repository's modules importable and quiet"""
    if REPO not in sys.path:
        sys.path.insert(0, REPO)
    os.environ[GUARD] = '1'
    import warnings
    warnings.filterwarnings('ignore')           # (cryptography's deprecation notices for finite-field DH)
    import logging
    logging.indent = None
    logging.disable(logging.CRITICAL)


class Rng(random.Random):
    def rbytes(self, n):
        return bytes(self.getrandbits(8) for _ in range(n))


def seed_from_env():
    try:
        return int(os.environ.get('VERIF_SEED', '0'))
    except ValueError:
        return 0


# ------------------------------------------------------------------ Lean side

def run_extract():
    p = subprocess.run([sys.executable, os.path.join(VERIF, 'extract', 'extract.py')],
                       capture_output=True, text=True)
    problems = []
    try:
        with open(os.path.join(GEN, 'facts.json')) as fh:
            facts = json.load(fh)
        problems = facts.get('problems', [])
    except Exception as ex:  # noqa
        facts = {}
        problems = ['facts.json unreadable: %r' % ex]
    if p.returncode != 0:
        problems.append('extract.py exit %d: %s' % (p.returncode, p.stderr[-400:]))
    return facts, problems


def lake_build(targets, timeout=1500):
    """returns (ok, log)"""
    cmd = ['lake', 'build'] + list(targets)
    try:
        p = subprocess.run(cmd, cwd=LEAN, capture_output=True, text=True, timeout=timeout)
    except subprocess.TimeoutExpired:
        return None, 'lake build timed out'
    return p.returncode == 0, (p.stdout + p.stderr)


def source_scan(files):
    """reject sorry/admit/axiom/native_decide/... outside comments"""
    hits = []
    for f in files:
        path = os.path.join(LEAN, f)
        try:
            text = open(path).read()
        except FileNotFoundError:
            hits.append('%s: missing' % f)
            continue
        text = re.sub(r'/-.*?-/', lambda m: '\n' * m.group(0).count('\n'), text, flags=re.S)
        for i, line in enumerate(text.split('\n'), 1):
            line = line.split('--')[0]
            if FORBIDDEN.search(line):
                hits.append('%s:%d: %s' % (f, i, line.strip()))
    return hits


def audit_axioms(prop_id, theorems):
    """`#print axioms` for every named theorem of Props/<id>.lean; returns {thm: [axioms]} or raises"""
    src = 'import PyIkev2.Props.%s\n' % prop_id + ''.join('#print axioms %s\n' % t for t in theorems)
    path = os.path.join(LEAN, 'Audit', '%s.lean' % prop_id)
    os.makedirs(os.path.dirname(path), exist_ok=True)
    with open(path, 'w') as fh:
        fh.write(src)
    p = subprocess.run(['lake', 'env', 'lean', path], cwd=LEAN, capture_output=True, text=True, timeout=900)
    out = p.stdout + p.stderr
    res = {}
    for m in re.finditer(r"'([^']+)' depends on axioms: \[([^\]]*)\]", out, flags=re.S):
        res[m.group(1)] = [a.strip() for a in m.group(2).replace('\n', ' ').split(',') if a.strip()]
    for m in re.finditer(r"'([^']+)' does not depend on any axioms", out):
        res[m.group(1)] = []
    missing = [t for t in theorems if not any(k == t or k.endswith('.' + t) for k in res)]
    return res, missing, out, p.returncode


def theorem_names(prop_id):
    """the obligations: every `theorem` declared in Props/<id>.lean"""
    path = os.path.join(LEAN, 'PyIkev2', 'Props', '%s.lean' % prop_id)
    names = []
    ns = []
    text = open(path).read()
    text = re.sub(r'/-.*?-/', '', text, flags=re.S)
    for line in text.split('\n'):
        m = re.match(r'\s*namespace\s+(\S+)', line)
        if m:
            ns.append(m.group(1))
        m = re.match(r'\s*end\s+(\S+)', line)
        if m and ns and ns[-1] == m.group(1):
            ns.pop()
        m = re.match(r'\s*(?:@\[[^\]]*\]\s*)?theorem\s+(\S+)', line)
        if m:
            names.append('.'.join(ns + [m.group(1)]))
    return names


class Driver:
    """batch interface to the compiled Lean driver"""

    def __init__(self):
        self.path = DRIVER

    def run(self, lines, timeout=600):
        if not lines:
            return []
        data = ('\n'.join(lines) + '\n').encode()
        p = subprocess.run([self.path], input=data, capture_output=True, timeout=timeout)
        out = p.stdout.decode().split('\n')
        if out and out[-1] == '':
            out.pop()
        if len(out) != len(lines):
            raise RuntimeError('driver answered %d lines for %d operations (rc=%s, stderr=%s)'
                               % (len(out), len(lines), p.returncode, p.stderr.decode()[-300:]))
        return out


# ------------------------------------------------------------------ watchdog

class Timeout(Exception):
    pass


def _alarm(signum, frame):
    raise Timeout()


def with_watchdog(fn, seconds=2.0):
    """run fn(); a pure-Python loop that does not end raises Timeout"""
    old = signal.signal(signal.SIGALRM, _alarm)
    signal.setitimer(signal.ITIMER_REAL, seconds)
    try:
        return fn()
    finally:
        signal.setitimer(signal.ITIMER_REAL, 0)
        signal.signal(signal.SIGALRM, old)


def count_lines(fn, limit=None):
    """execute fn() counting executed Python lines; returns (result_or_exception, lines)"""
    n = [0]

    def tracer(frame, event, arg):
        if event == 'line':
            n[0] += 1
            if limit is not None and n[0] > limit:
                raise Timeout()
        return tracer

    old = sys.gettrace()
    sys.settrace(tracer)
    try:
        try:
            r = fn()
        except Timeout:
            raise
        except BaseException as ex:  # noqa
            r = ex
    finally:
        sys.settrace(old)
    return r, n[0]


# ------------------------------------------------------------------ findings / evidence

def load_known_findings():
    path = os.path.join(VERIF, 'known_findings.json')
    try:
        with open(path) as fh:
            return json.load(fh)
    except FileNotFoundError:
        return {'findings': [], 'fixed': []}


def write_replay(prop_id, seed, payload):
    os.makedirs(REPLAYS, exist_ok=True)
    path = os.path.join(REPLAYS, '%s-%s.json' % (prop_id, seed))
    with open(path, 'w') as fh:
        json.dump(payload, fh, indent=1, default=str)
    return path


def write_evidence(prop_id, tier, seed, coverage, wall_s, violations, assumptions):
    os.makedirs(EVIDENCE, exist_ok=True)
    ev = {
        'property_id': prop_id,
        'tier': tier,
        'seed': seed,
        'level': 'proof',
        'coverage': coverage,
        'assumptions': assumptions,
        'wall_s': round(wall_s, 2),
        'violations': violations,
    }
    path = os.path.join(EVIDENCE, '%s.json' % prop_id)
    tmp = path + '.tmp'
    with open(tmp, 'w') as fh:
        json.dump(ev, fh, indent=1, default=str)
    os.replace(tmp, path)
    return path
