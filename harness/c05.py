"""C05 — wire encoding round-trips, layout equals the independent (Lean) encoder, idempotence on accepted
byte strings, unknown payload handling, exact end of chain, structured dump.

Proof: Props/C05.lean.  Correspondence: Impl.encMsg / Impl.parseMsg (compiled driver) vs Message.to_bytes /
Message.parse on every generated message and byte string.  Oracle: properties evaluated on the real code."""
import json

import message as M
import gen_msgs as G
import wire
from realcodec import classify
from runner import Result
from toycrypto import ToyCrypto

LEAN_FILES = ['PyIkev2/Prim.lean', 'PyIkev2/Model/Codec.lean', 'PyIkev2/Proofs/CodecRoundtrip.lean']
ASSUMPTIONS = ['well-formedness predicate Msg.WfClear = what struct.pack accepts and to_bytes can express '
               '(critical bit clear, key length not 0, equal SPI sizes in DELETE, nonce 16..256, non-empty SA/vendor)',
               'the Lean encoder is the independent encoder of the property statement; RFC 7296 section 3 field '
               'tables are transcribed in it by hand (trusted, cross-checked against the implementation here)']
PROTOCOL = ('InvalidSyntax', 'UnsupportedCriticalPayload')

NAMES = {33: 'SA', 34: 'KE', 35: 'IDi', 36: 'IDr', 39: 'AUTH', 40: 'NONCE', 41: 'NOTIFY', 42: 'DELETE', 43: 'VENDOR',
         44: 'TSi', 45: 'TSr', 46: 'SK'}


def flatten_values(x, out):
    if isinstance(x, dict):
        for v in x.values():
            flatten_values(v, out)
    elif isinstance(x, (list, tuple)):
        for v in x:
            flatten_values(v, out)
    else:
        out.append(str(x))


def dump_shows(payload_dict, d):
    """does the dump of one payload show every decoded field value of the abstract payload d?"""
    vals = []
    flatten_values(payload_dict, vals)
    text = ' '.join(vals)
    need = []
    k = d['kind']
    if k == 'sa':
        for p in d['proposals']:
            need += [str(p['num']), bytes(p['spi']).hex()]
            for t in p['transforms']:
                if t.get('keylen'):
                    need.append(str(t['keylen']))
    elif k == 'ke':
        need += [str(d['group']), bytes(d['data']).hex()]
    elif k == 'auth':
        need += [bytes(d['data']).hex()]
    elif k == 'nonce':
        need += [bytes(d['data']).hex()]
    elif k == 'notify':
        need += [bytes(d['spi']).hex(), bytes(d['data']).hex()]
    elif k == 'delete':
        need += [bytes(s).hex() for s in d['spis']]
    elif k == 'ts':
        for s in d['sels']:
            need += [str(s['sport']), str(s['eport'])]
    return all(n in text for n in need if n != '')


def run(ctx):
    res = Result()
    rng = ctx.rng
    res.rule = ('structured generator over every payload class (nested proposals, SPI sizes 0/4/8, IPv4/IPv6 selectors, '
                'multi-SPI DELETE, all flag combinations, unknown types) in clear and inside SK (toy key context); '
                'distinct = distinct serialised byte string; non-trivial = at least one payload')
    ops, expect = [], []
    n_msgs = ctx.scale(1200, 40000)
    toy = ToyCrypto(16, 12)
    for k in range(n_msgs):
        enc = (k % 4 == 3)
        wf = rng.random() < 0.9
        d = G.g_message(rng, encrypted=enc, wf=wf)
        crypto = toy if enc else None
        res.evaluations += 1
        try:
            msg = wire.mk_message(d, crypto)
            data = bytes(msg.to_bytes())
        except Exception as ex:  # noqa: generator produced something pack() rejects
            res.count(('unencodable-wf:' if wf else 'unencodable:') + type(ex).__name__)
            if wf:
                # content the RFC allows (sizes at their limits included) must be expressible: refusing it is as much a loss as mangling it
                res.fail('well-formed-content-refused:%s' % type(ex).__name__,
                         'a well-formed message could not be built / encoded: %s' % str(ex)[:120], {'tokens': ' '.join(wire.a_msg(d))[:3000]})
            continue
        res.count('msg:enc' if enc else 'msg:clear')
        for p in d['payloads'] + d['enc']:
            res.count('payload:' + p['kind'])
        if d['payloads'] or d['enc']:
            res.nontrivial.add(hash(data))
        res.sample({'tokens': ' '.join(wire.a_msg(d))[:200], 'bytes': data.hex()[:120]}, cap=3)
        spec = toy.spec if enc else '-'
        # (a) layout: implementation bytes == independent Lean encoder on the same abstract content
        ops.append('enc %s %s' % (spec, ' '.join(wire.a_msg(d))))
        expect.append(('enc', 'ok ' + (data.hex() or '-'), d if wf else None))
        # (b) round trip on the real code
        tag, back, site = classify(lambda: M.Message.parse(data, crypto=crypto))
        if tag != 'ok':
            res.fail('roundtrip-reject@%s' % site, 'parse(to_bytes(m)) raised %s' % tag,
                     {'tokens': ' '.join(wire.a_msg(d)), 'data': data.hex(), 'crypto': spec})
            continue
        want = ' '.join(wire.a_msg(d))
        got = wire.msg_line(back)
        quirk = any(t.get('keylen') == 0 for p in d['payloads'] + d['enc'] if p['kind'] == 'sa'
                    for pr in p['proposals'] for t in pr['transforms'])
        if got != want and not quirk:
            res.fail('roundtrip-differs', 'parse(to_bytes(m)) != m', {'want': want, 'got': got, 'data': data.hex()})
        # model parse agrees
        ops.append('parse %s 0 %s' % (data.hex(), spec))
        expect.append(('parse', 'ok ' + got, d))
        # (c) idempotence
        try:
            again = bytes(back.to_bytes())
            if again != data:
                res.fail('not-idempotent', 'to_bytes(parse(b)) != b for b = to_bytes(m)', {'data': data.hex(), 'again': again.hex()})
        except Exception as ex:  # noqa
            res.fail('reserialise-raises:' + type(ex).__name__, 'to_bytes of a parsed message raised', {'data': data.hex()})
        # (d) structured dump names every payload and shows the fields
        try:
            dd = back.to_dict()
            json.dumps(dd)
            names = [x['type'] for x in dd['payloads'] + dd['encrypted_payloads']]
            wantn = [NAMES[p['ptype']] for p in d['payloads'] + d['enc']]
            if names != wantn:
                res.fail('dump-names', 'dump names %s, payloads are %s' % (names, wantn), {'data': data.hex()})
            for pd, ad in zip(dd['payloads'] + dd['encrypted_payloads'], d['payloads'] + d['enc']):
                if not dump_shows(pd, ad):
                    res.fail('dump-field-missing:' + ad['kind'], 'dump of %s hides a field value' % ad['kind'],
                             {'data': data.hex(), 'dump': json.dumps(pd)[:300]})
        except Exception as ex:  # noqa
            import realcodec
            res.fail('dump-raises:%s@%s' % (type(ex).__name__, realcodec.repo_site(ex.__traceback__)),
                     'to_dict() of a parsed message raised %s' % type(ex).__name__, {'data': data.hex(), 'crypto': spec})
        if enc:
            continue
        # (e) exact end of chain: any extension and every proper prefix is rejected
        for extra in (b'\x00', rng.rbytes(rng.randrange(1, 9))):
            t2, _, _ = classify(lambda: M.Message.parse(data + extra))
            res.evaluations += 1
            if t2 not in PROTOCOL:
                res.fail('extension-accepted', 'datagram with %d extra octets -> %s' % (len(extra), t2),
                         {'data': (data + extra).hex()})
        if k % 5 == 0 and len(data) > 28:
            for cut in sorted(rng.sample(range(28, len(data)), min(12, len(data) - 28))):
                t2, _, _ = classify(lambda: M.Message.parse(data[:cut]))
                res.evaluations += 1
                ops.append('parse %s 0 -' % data[:cut].hex())
                expect.append(('parse', t2, None))
                if t2 not in PROTOCOL:
                    res.fail('prefix-accepted', 'proper prefix (%d of %d octets) -> %s' % (cut, len(data), t2),
                             {'data': data[:cut].hex()})
        # (f) unknown payloads: non-critical skipped, critical rejected
        if d['payloads'] and k % 3 == 0:
            idx = rng.randrange(len(d['payloads']) + 1)
            utype = rng.choice([37, 38, 47, 48, 99, 200, 1, 32])
            ubody = rng.rbytes(rng.randrange(0, 20))
            objs = [wire.mk_payload(p) for p in d['payloads']]
            chain = bytearray()
            types = [int(o.type) for o in objs]
            seq = types[:idx] + [utype] + types[idx:]
            bodies = [bytes(o.to_bytes()) for o in objs]
            bodies = bodies[:idx] + [ubody] + bodies[idx:]
            for crit in (0, 0x80):
                chain = bytearray()
                for j, b in enumerate(bodies):
                    nxt = seq[j + 1] if j + 1 < len(seq) else 0
                    c = crit if j == idx else 0
                    chain += bytes([nxt, c]) + (len(b) + 4).to_bytes(2, 'big') + b
                hdr = bytearray(data[:28])
                hdr[16] = seq[0]
                full = bytes(hdr) + bytes(chain)
                t2, m2, _ = classify(lambda: M.Message.parse(full))
                res.evaluations += 1
                res.count('unknown:' + ('critical' if crit else 'skipped'))
                ops.append('parse %s 0 -' % full.hex())
                expect.append(('parse', t2 if t2 != 'ok' else 'ok ' + wire.msg_line(m2), None))
                if crit and t2 != 'UnsupportedCriticalPayload':
                    res.fail('critical-not-rejected', 'unknown critical payload type %d -> %s' % (utype, t2), {'data': full.hex()})
                if not crit and (t2 != 'ok' or wire.msg_line(m2) != got):
                    res.fail('noncritical-not-skipped', 'unknown payload type %d -> %s' % (utype, t2), {'data': full.hex()})
    if ctx.driver is not None:
        outs = ctx.driver.run(ops)
        for (kind, want, d), out, op in zip(expect, outs, ops):
            if out != want:
                res.mismatch(op[:400], want[:300], out[:300])
                if kind == 'enc' and d is not None and out.startswith('ok '):
                    # the Lean encoder is the independent RFC 7296 section 3 encoder the property refers to (its layout is
                    # what the round-trip theorems are proved about): different octets for the same well-formed abstract
                    # content are a failing input of the layout clause, not only a broken tie
                    res.fail('layout-differs-from-independent-encoder',
                             'to_bytes() differs from the RFC 7296 section 3 layout produced by the independent encoder',
                             {'tokens': ' '.join(wire.a_msg(d)), 'implementation': want[3:], 'independent': out[3:]})
        res.extra['model_evaluations'] = len(ops)
    return res


def replay(rep):
    r = rep['replay']
    if 'data' not in r:
        return False, ('layout violation: abstract message (tokens) and both encodings are in the replay file: %s'
                       % json.dumps(r)[:400])
    data = bytes.fromhex(r['data'])
    crypto = ToyCrypto(16, 12) if r.get('crypto', '-').startswith('toy') else None
    tag, m, site = classify(lambda: M.Message.parse(data, crypto=crypto))
    if tag == 'ok':
        try:
            m.to_dict()
            m.to_bytes()
        except Exception as ex:  # noqa
            return False, 'parse ok, then %s' % type(ex).__name__
    return True, 'parse -> %s (see key in the replay file for the oracle that failed)' % tag
