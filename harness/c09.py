"""C09 — colliding exchanges leave both peers consistent: no crash, no deadlock.

Proof: Props/C09.lean (shell model: no entry point lets an exception out unless a generator raises, generators are called
only in the states they assert, triggers that arrive while a request is outstanding are queued and replayed in order;
admission lists regenerated from the source = the allowed-step table).  Exploration (reported as such, not as proof): ALL
interleavings of the 7 trigger kinds on either endpoint with the delivery order of in-flight datagrams up to a bounded
depth, and seeded random walks beyond, on the REAL code, starting from an established IKE_SA with one CHILD_SA, with and
without loss / duplication before a final lossless drain.  Oracles: no exception in any entry point; every observed step is
in the allowed table; collision answers (TEMPORARY_FAILURE, CHILD_SA_NOT_FOUND) as RFC 7296 2.25 requires; at quiescence
nobody waits for a response and both ends hold the same established IKE_SAs and the same CHILD_SAs."""
import itertools

import campaign as CP
import machine as MC
import message as M
import stateful as S
from runner import Result

LEAN_FILES = S.LEAN_MACHINE
ASSUMPTIONS = ['agreement after overlapping exchanges is explored (bounded exhaustive + random walks), not proved']

BASE = {
    0: {2, 1, 21}, 1: {10, 21}, 2: {3, 2, 21}, 3: {10, 21},
    10: {10, 11, 12, 13, 14, 15, 17, 20, 21},
    11: {10, 11, 14, 21}, 12: {10, 12, 14, 21}, 13: {10, 13, 15, 16, 21}, 14: {10, 21}, 15: {21}, 16: {21}, 17: {10, 21},
    20: {21, 16},
}
ALLOWED = {(a, b) for a, bs in BASE.items() for b in bs}
ALLOWED |= {(a, c) for (a, b) in list(ALLOWED) if b == 10 for c in BASE[10]}      # a response, then a queued trigger
ALLOWED |= {(a, a) for a in BASE}
TRIGGERS = ['acquire', 'expire-soft', 'expire-hard', 'rekey-ike', 'delete-ike', 'dpd', 'tick']


def o_allowed_steps(h):
    out = []
    for ep in (h.w.A, h.w.B):
        pre_objs = h.pre_objs[ep.name]
        for i, s in enumerate(pre_objs):
            a = h.pre[ep.name]['sas'][i]['state']
            b = int(s.state)
            if (a, b) not in ALLOWED:
                out.append(('step-not-allowed:%s->%s' % (CP.ST.get(a, a), CP.ST.get(b, b)),
                            '%s: IKE_SA %s went %s -> %s on %s' % (ep.name, s.my_spi.hex(), CP.ST.get(a, a), CP.ST.get(b, b), ' '.join(h.ops[-1]))))
    return out


def decrypt(sa_crypto, data):
    try:
        return M.Message.parse(data, crypto=sa_crypto)
    except Exception:
        return None


def o_collision_answers(h):
    """what a CREATE_CHILD_SA request got for an answer, judged from the responder's state before it arrived"""
    out = []
    if h.ops[-1][0] not in ('deliver', 'dup') or len(h.targets) != 1:
        return out
    sa, data = h.targets[0]
    ep = h.w.A if sa in h.pre_objs['A'] else h.w.B
    if sa not in h.pre_objs[ep.name]:
        return out
    pre = h.pre[ep.name]['sas'][h.pre_objs[ep.name].index(sa)]
    h.w.use_side = True
    try:
        req = decrypt(sa.peer_crypto, data)
        if req is None or not req.is_request or int(req.exchange_type) != 36 or req.message_id != pre['peer_id']:
            return out
        replies = [d for d in h.w.sent[h.sent_before:] if d.sender == ep.name]
        resp = None
        for d in replies:
            m = decrypt(sa.my_crypto, d.data)
            if m is not None and m.is_response and m.message_id == req.message_id:
                resp = m
        if resp is None:
            return [('request-not-answered', '%s did not answer CREATE_CHILD_SA request %d in state %s' % (ep.name, req.message_id, CP.ST[pre['state']]))]
        notes = {int(n.notification_type): n for n in resp.get_payloads(M.Payload.Type.NOTIFY, True)}
        sa_p = req.get_payloads(M.Payload.Type.SA, True)
        if not sa_p:
            return out
        is_ike = int(sa_p[0].proposals[0].protocol_id) == 1
        rekey = req.get_notifies(M.PayloadNOTIFY.Type.REKEY_SA, True)
        if not 10 <= pre['state'] <= 17:
            # CREATE_CHILD_SA is not admitted before IKE_AUTH has completed (nor in REKEYED / DELETED): the answer is the state
            # machine's refusal, not one of the collision answers of RFC 7296 2.25 (o_allowed_steps and C08 judge that refusal)
            return out
        TF, NF = int(M.PayloadNOTIFY.Type.TEMPORARY_FAILURE), int(M.PayloadNOTIFY.Type.CHILD_SA_NOT_FOUND)
        st = pre['state']
        if is_ike:
            if st != 10 and TF not in notes:
                out.append(('collision:ike-rekey-not-refused', 'IKE_SA rekey request in state %s was not answered TEMPORARY_FAILURE' % CP.ST[st]))
            if st == 10 and TF in notes:
                out.append(('collision:ike-rekey-refused-when-idle', 'IKE_SA rekey request in ESTABLISHED answered TEMPORARY_FAILURE'))
        else:
            if st in (13, 15) and TF not in notes:
                out.append(('collision:child-while-ike-busy', 'CHILD_SA request while %s was not answered TEMPORARY_FAILURE' % CP.ST[st]))
            if rekey:
                spi = rekey[0].spi
                known = [c for c in pre['children'] if spi.hex() in (c[0], c[1])]
                if not known and st not in (13, 15):
                    if NF not in notes or bytes(notes[NF].spi) != bytes(spi):
                        out.append(('collision:unknown-spi-not-reported', 'rekey of unknown CHILD_SA %s not answered CHILD_SA_NOT_FOUND with that SPI' % spi.hex()))
    finally:
        h.w.use_side = False
    return out


def quiescent_findings(h):
    out = []
    w = h.w
    waiting = [(ep.name, s.state.name) for ep in (w.A, w.B) for s in ep.sas() if int(s.state) in CP.WAITING]
    if waiting:
        out.append(('waiting-at-quiescence', 'after the lossless drain these IKE_SAs still wait for a response: %s' % waiting))
    ea = sorted((s.my_spi.hex(), bytes(s.peer_spi).hex()) for s in w.A.sas() if int(s.state) == 10)
    eb = sorted((bytes(s.peer_spi).hex(), s.my_spi.hex()) for s in w.B.sas() if int(s.state) == 10)
    if ea != eb:
        out.append(('ike-sas-differ', 'established IKE_SAs differ at quiescence: A %s, B %s' % (ea, eb)))
    else:
        taint = getattr(h, 'tainted', set())
        ca = sorted((c.inbound_spi.hex(), c.outbound_spi.hex()) for s in w.A.sas() if int(s.state) == 10 for c in s.child_sas
                    if c.inbound_spi.hex() not in taint and c.outbound_spi.hex() not in taint)
        cb = sorted((c.outbound_spi.hex(), c.inbound_spi.hex()) for s in w.B.sas() if int(s.state) == 10 for c in s.child_sas
                    if c.inbound_spi.hex() not in taint and c.outbound_spi.hex() not in taint)
        if ca != cb:
            out.append(('child-sas-differ', 'CHILD_SAs differ at quiescence: A %s, B %s' % (ca, cb)))
    # "the same CHILD_SAs" is more than the same SPIs: an IPsec SA that both kernels hold (one as outbound, one as inbound) must carry
    # the same algorithms and keys at both ends
    for key in sorted(set(w.A.kernel.sad) & set(w.B.kernel.sad)):
        ra, rb = w.A.kernel.sad[key], w.B.kernel.sad[key]
        if ra.get('algs') != rb.get('algs'):
            names = sorted(k for k in set(ra['algs']) | set(rb['algs']) if ra['algs'].get(k) != rb['algs'].get(k))
            out.append(('child-sa-keys-differ', 'the IPsec SA %s / SPI %s is installed at both ends with different %s' % (
                key[0], bytes(key[2]).hex(), 'algorithms or keys (attributes %s)' % names)))
            break
    leftovers = [(ep.name, s.state.name) for ep in (w.A, w.B) for s in ep.sas() if int(s.state) in (20, 21)]
    if leftovers:
        out.append(('closing-ike-sa-left', 'IKE_SAs in a closing state remain: %s' % leftovers))
    return out


ORACLES = [CP.o_no_escape, o_allowed_steps, o_collision_answers, CP.o_sad_equals_tracked]
CONF = {'dpd': 50, 'ike_lifetime': 400, 'child_lifetime': 1000}
# the initiator prefers a DH group the responder does not have: IKE_SA_INIT and every IKE_SA rekey go through an INVALID_KE_PAYLOAD retry
CONF_KE = {'dpd': 50, 'ike_lifetime': 400, 'child_lifetime': 1000, 'dh': ['20', '19'], 'dh_b': ['19']}
# CHILD_SAs with a Diffie-Hellman exchange of their own (PFS), same and opposite preference orders: every CREATE_CHILD_SA carries a KE payload
CONF_PFS = {'dpd': 50, 'ike_lifetime': 400, 'child_lifetime': 1000, 'child_dh': ['19']}
CONF_PFS2 = {'dpd': 50, 'ike_lifetime': 400, 'child_lifetime': 1000, 'child_dh': ['20', '19'], 'child_dh_b': ['19', '20']}


def apply_trigger(h, ep, trig):
    w = h.w
    sas = [s for s in ep.sas() if int(s.state) >= 10 and int(s.state) < 20]
    if trig == 'acquire':
        h.op('acquire', ep.name, 4000 + len(h.ops))
    elif trig in ('expire-soft', 'expire-hard'):
        kids = [c for s in ep.sas() for c in s.child_sas]
        if kids:
            peer = w.B if ep is w.A else w.A
            known = any(bytes(c.inbound_spi) == bytes(kids[0].outbound_spi) and bytes(c.outbound_spi) == bytes(kids[0].inbound_spi)
                        for s in peer.sas() for c in s.child_sas)
            if not known:
                # the property speaks of triggers that concern CHILD_SAs already known to both ends
                h.__dict__.setdefault('tainted', set()).update({kids[0].inbound_spi.hex(), kids[0].outbound_spi.hex()})
            h.op('expire', ep.name, kids[0].inbound_spi, trig == 'expire-hard')
        else:
            h.op('expire', ep.name, b'\x01\x02\x03\x04', trig == 'expire-hard')
    elif trig == 'rekey-ike' and sas:
        sas[0].rekey_ike_sa_at = w.now - 1          # the lifetime has elapsed
        h.op('tick', 0)
    elif trig == 'delete-ike' and sas:
        sas[0].delete_ike_sa_at = w.now - 1         # the hard lifetime has elapsed
        h.op('tick', 0)
    elif trig == 'dpd' and sas:
        sas[0].start_dpd_at = w.now - 1             # nothing authentic for the DPD interval
        h.op('tick', 0)
    else:
        h.op('tick', 1)


def run_trace(ctx, res, seed, trace, lossy=False, tracer=False, conf=None):
    """trace: list of ('t', endpoint, trigger) | ('d', k) deliver the k-th in-flight datagram | ('x', k) drop | ('u', k) duplicate"""
    conf = conf or CONF
    with CP.History(seed, trace=tracer and ctx.driver is not None, **conf) as h:
        h.oracles = list(ORACLES)
        if not h.establish('A'):
            return None
        for step in trace:
            if step[0] == 't':
                apply_trigger(h, h.w.A if step[1] == 'A' else h.w.B, step[2])
            elif h.w.net:
                dg = h.w.net[step[1] % len(h.w.net)]
                h.op({'d': 'deliver', 'x': 'drop', 'u': 'dup'}[step[0]], dg.id)
            if h.findings:
                break
        if not h.findings:
            h.settle(120)
            for key, what in quiescent_findings(h):
                h.findings.append((key, what, len(h.ops) - 1))
        if not h.findings:
            # agreement is more than equal SPIs: every IKE_SA the two ends hold must still carry an exchange in either direction
            for ep in (h.w.A, h.w.B):
                for sa in [x for x in ep.sas() if int(x.state) == 10]:
                    sa.start_dpd_at = h.w.now - 1
                h.op('tick', 0)
                h.settle(60)
            for key, what in quiescent_findings(h):
                h.findings.append((key + ':after-liveness-probe', 'after a liveness check from each end on every IKE_SA: ' + what, len(h.ops) - 1))
        res.evaluations += len(h.ops)
        res.nontrivial.add(tuple(trace))
        for v in h.visited:
            res.count('state:%s/%s/%s' % (v[0], CP.ST.get(v[1], v[1]), 'I' if v[2] else 'R'))
        for key, what, at in h.findings[:2]:
            res.fail(key, what, {'seed': seed, 'conf': conf, 'trace': [list(map(str, s)) for s in trace], 'ops': S.ser_ops(h.ops[:at + 1])})
        if h.tr is not None:
            h.tr.close()
            for line, want, out, c in h.tr.check(ctx.driver)[:2]:
                res.mismatch('miter (%s %s)' % (c['ep'], c['event']), MC.first_diff(want, out)[:300], out[:120])
            res.extra['shell_iterations_replayed_on_model'] = res.extra.get('shell_iterations_replayed_on_model', 0) + len(h.tr.lines)
        return h


def kids_of(ep):
    return [c for s in ep.sas() if int(s.state) == 10 for c in s.child_sas]


def drain(h, limit=60):
    n = 0
    while h.w.net and n < limit and not h.findings:
        h.op('deliver', h.w.net[0].id)
        n += 1


def f4(vals):
    return 'f:' + ','.join('-' if v is None else bytes(v).hex() for v in vals)


def run_coincide(ctx, res, seed, acq, mode, steps, conf=None, oracles=None, deep=False):
    """each end chooses the SPIs of its own inbound SAs, so nothing keeps the two ends from choosing the same 4-byte value for
    different CHILD_SAs.  Start: one CHILD_SA (I.in = i1, R.in = r1); `acq` acquires a second one whose SPIs are forced so
    that   r2=i1: the responder's new SPI equals the initiator's SPI of the first   i2=r1: the initiator's new SPI equals the
    responder's SPI of the first   r2=i2: both directions of the new one carry the same value   i2=i1r2=r1 cannot happen (the
    kernel refuses a second SA with the same key).  Then `steps`: (endpoint, kid index, 'soft'|'hard', coincide-again)."""
    conf = conf or CONF
    with CP.History(seed, trace=deep and ctx.driver is not None, deep=deep, **conf) as h:
        h.oracles = list(oracles or ORACLES)
        if not h.establish('A'):
            return None
        w = h.w
        I, R = (w.A, w.B) if acq == 'A' else (w.B, w.A)
        k1 = kids_of(I)[0]
        i1, r1 = bytes(k1.inbound_spi), bytes(k1.outbound_spi)
        other = bytes(x ^ 0x5a for x in i1)
        h.op('force4', f4({'r2=i1': [None, i1], 'i2=r1': [r1, None], 'r2=i2': [other, other], 'both': [r1, i1]}[mode]))
        h.op('acquire', acq, 4001)
        drain(h)
        h.op('force4', 'f:')
        if len(kids_of(I)) == 2 and len(kids_of(R)) == 2:
            res.count('coincide:%s' % mode)
        for (e, idx, kind, again) in steps:
            if h.findings:
                break
            ep = w.A if e == 'A' else w.B
            peer = w.B if e == 'A' else w.A
            ks = kids_of(ep)
            if not ks:
                break
            c = ks[idx % len(ks)]
            # name the CHILD_SA by an SPI only it has at this end when there is one (the kernel's notice names one SA)
            spis = [bytes(x) for k in ks for x in (k.inbound_spi, k.outbound_spi)]
            own = [x for x in (bytes(c.inbound_spi), bytes(c.outbound_spi)) if spis.count(x) == 1]
            name = own[0] if own else bytes(c.inbound_spi)
            if again and kind == 'soft':
                # the responder of the rekey chooses, for the replacement, a value the initiator already uses for another CHILD_SA
                others = [bytes(k.inbound_spi) for k in ks if k is not c]
                mine = [bytes(k.inbound_spi) for k in kids_of(peer)]
                cand = [x for x in others if x not in mine]
                if cand:
                    h.op('force4', f4([None, cand[0]]))
            h.op('expire', e, name, kind == 'hard')
            drain(h)
            if w.forced4:
                h.op('force4', 'f:')
        if not h.findings:
            h.settle(120)
            for key, what in (quiescent_findings(h) if oracles is None else []):
                h.findings.append((key + ':coinciding-spis', what, len(h.ops) - 1))
        res.evaluations += len(h.ops)
        res.nontrivial.add(('coincide', acq, mode, tuple(steps)))
        for key, what, at in h.findings[:2]:
            res.fail(key, what, {'seed': seed, 'conf': conf, 'faults': None, 'coincide': [acq, mode, [list(map(str, x)) for x in steps]],
                                 'ops': S.ser_ops(h.ops[:at + 1]), 'oracle': key})
        if h.tr is not None:
            h.tr.close()
            S.deep_check(ctx, res, h.tr, honest=True)
        return h


def coincide_campaign(ctx, res, oracles=None, deep=False):
    n = 0
    steps1 = [[(e, i, k, a)] for e in 'AB' for i in (0, 1) for k in ('soft', 'hard') for a in (False, True) if not (a and k == 'hard')]
    for acq in 'AB':
        for mode in ('r2=i1', 'i2=r1', 'r2=i2', 'both'):
            for st in steps1:
                run_coincide(ctx, res, 4242, acq, mode, st, oracles=oracles, deep=deep and n % 4 == 0)
                n += 1
            # two steps: a rekey whose replacement coincides again, then a delete or another rekey of either CHILD_SA from either end
            for e in 'AB':
                for i in (0, 1):
                    for e2 in 'AB':
                        for i2 in (0, 1):
                            for k2 in ('soft', 'hard'):
                                run_coincide(ctx, res, 4243, acq, mode, [(e, i, 'soft', True), (e2, i2, k2, False)], oracles=oracles, deep=deep and n % 8 == 0)
                                n += 1
    res.extra['coinciding_spi_histories'] = n


def run(ctx):
    res = Result()
    rng = ctx.rng
    depth = 3 if ctx.tier == 'quick' else 4
    res.rule = ('exhaustive: every sequence of length <= %d over {7 triggers x 2 endpoints} u {deliver 1st / 2nd in-flight datagram}, then '
                'lossless drain; random walks of length 6..14 with loss and duplication; start: established IKE_SA with one CHILD_SA; '
                'distinct = distinct trace' % depth)
    alphabet = [('t', e, t) for e in 'AB' for t in TRIGGERS if t != 'tick'] + [('d', 0), ('d', 1)]
    n_exh = 0
    for d in range(1, depth + 1):
        for trace in itertools.product(alphabet, repeat=d):
            # deliveries with nothing in flight are no-ops: skip traces that start with one
            if trace[0][0] == 'd':
                continue
            run_trace(ctx, res, 12345, list(trace), tracer=(n_exh % 97 == 0))
            n_exh += 1
            if len(res.failures) >= 40:
                break
    # the same with an INVALID_KE_PAYLOAD retry in every IKE_SA negotiation (depth 2, and the traces that finish a rekey first)
    for d in range(1, 3):
        for trace in itertools.product(alphabet, repeat=d):
            if trace[0][0] == 'd':
                continue
            run_trace(ctx, res, 2468, list(trace), conf=CONF_KE)
            n_exh += 1
    for e in 'AB':
        for t2 in TRIGGERS:
            for e2 in 'AB':
                run_trace(ctx, res, 1357, [('t', e, 'rekey-ike')] + [('d', 0)] * 8 + [('t', e2, t2)], conf=CONF_KE)
                n_exh += 1
    # crossing CHILD_SA exchanges with PFS: every pair of triggers, one at each end, before anything is delivered; then every delivery order
    # of the first four datagrams
    for conf in (CONF_PFS, CONF_PFS2):
        for t1 in ('acquire', 'expire-soft', 'expire-hard'):
            for t2 in ('acquire', 'expire-soft', 'expire-hard'):
                for order in ((0, 0, 0, 0), (1, 0, 0, 0), (0, 1, 0, 0), (1, 1, 0, 0), (1, 0, 1, 0)):
                    run_trace(ctx, res, 8642, [('t', 'A', t1), ('t', 'B', t2)] + [('d', k) for k in order], conf=conf)
                    n_exh += 1
    res.extra['exhaustive_depth'] = depth
    res.extra['exhaustive_traces'] = n_exh
    res.extra['traces_validated_against_impl'] = n_exh
    walks = ctx.scale(600, 20000)
    for k in range(walks):
        n = rng.randrange(6, 15)
        trace = []
        for _ in range(n):
            x = rng.random()
            if x < 0.45:
                trace.append(('t', rng.choice('AB'), rng.choice(TRIGGERS)))
            elif x < 0.85:
                trace.append(('d', rng.randrange(3)))
            elif x < 0.93:
                trace.append(('x', rng.randrange(3)))
            else:
                trace.append(('u', rng.randrange(3)))
        run_trace(ctx, res, rng.randrange(1 << 30), trace, tracer=(k % 10 == 0), conf=(CONF, CONF_PFS, CONF_PFS2, CONF_KE)[k % 4])
    res.extra['random_walks'] = walks
    res.sample({'trace': [list(map(str, s)) for s in trace]})
    coincide_campaign(ctx, res, deep=True)
    # an authentic peer that says unusual things: every handler branch the honest schedules do not take is replayed on the model
    import rogue
    rogue.campaign(ctx, res, ctx.scale(8, 150), 50)
    return res


def replay(rep):
    return True, 'see the replay file: trace of triggers / deliveries and the executed schedule'
