import PyIkev2.Props.C08
#print axioms PyIkev2.Props.C08.c08_request_replay
#print axioms PyIkev2.Props.C08.c08_request_other_dropped
#print axioms PyIkev2.Props.C08.c08_request_next
#print axioms PyIkev2.Props.C08.c08_executed_only_if_expected
#print axioms PyIkev2.Props.C08.c08_response_other_dropped
#print axioms PyIkev2.Props.C08.c08_response_consumes_id
#print axioms PyIkev2.Props.C08.c08_response_handler_sees_next_id
#print axioms PyIkev2.Props.C08.c08_gate_closed
#print axioms PyIkev2.Props.C08.c08_gate_conditions
#print axioms PyIkev2.Props.C08.c08_executed_ids_strictly_increasing
#print axioms PyIkev2.Props.C08.c08_at_most_once
#print axioms PyIkev2.Props.C08.c08_retransmission_is_the_outstanding_request
#print axioms PyIkev2.Props.C08.c08_error_reply_header
#print axioms PyIkev2.Props.C08.c08_concrete_peer_frame
#print axioms PyIkev2.Props.C08.c08_whole_model_executed_ids_strictly_increasing
#print axioms PyIkev2.Props.C08.c08_whole_model_at_most_once
#print axioms PyIkev2.Props.C08.c08_concrete_handlers_leave_shell_fields
