import PyIkev2.Props.C18
#print axioms PyIkev2.Props.C18.c18_rule_from_source
#print axioms PyIkev2.Props.C18.c18_no_dh_without_cookie
#print axioms PyIkev2.Props.C18.c18_valid_cookie_accepted
#print axioms PyIkev2.Props.C18.c18_dh_only_when_accepted
#print axioms PyIkev2.Props.C18.c18_cookie_input_injective
#print axioms PyIkev2.Props.C18.c18_threshold
#print axioms PyIkev2.Props.C18.c18_half_open_count
#print axioms PyIkev2.Props.C18.c18_refusal_leaves_nothing
#print axioms PyIkev2.Props.C18.c18_concrete_no_dh_without_cookie
#print axioms PyIkev2.Props.C18.c18_concrete_cookie_answer
#print axioms PyIkev2.Props.C18.c18_concrete_valid_cookie_passes
