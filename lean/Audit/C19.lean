import PyIkev2.Props.C19
#print axioms PyIkev2.Props.C19.c19_rules_from_source
#print axioms PyIkev2.Props.C19.c19_tables_from_source
#print axioms PyIkev2.Props.C19.c19_listed_order
#print axioms PyIkev2.Props.C19.c19_defaults_and_typing
#print axioms PyIkev2.Props.C19.c19_ipsec_proposal_shape
#print axioms PyIkev2.Props.C19.c19_ike_proposal_shape
#print axioms PyIkev2.Props.C19.c19_model_total
