import PyIkev2.Props.C13
#print axioms PyIkev2.Props.C13.checkRetransmission_frame
#print axioms PyIkev2.Props.C13.c13_one_sweep
#print axioms PyIkev2.Props.C13.c13_budget
#print axioms PyIkev2.Props.C13.c13_backoff
#print axioms PyIkev2.Props.C13.c13_first_deadline
#print axioms PyIkev2.Props.C13.c13_timeout
#print axioms PyIkev2.Props.C13.c13_answered_silent
#print axioms PyIkev2.Props.C13.c13_waiting_states
#print axioms PyIkev2.Props.C13.c13_dpd
#print axioms PyIkev2.Props.C13.c13_lifetime
#print axioms PyIkev2.Props.C13.runOn_request_stored
#print axioms PyIkev2.Props.C13.c13_concrete_response_sends_what_it_stores
#print axioms PyIkev2.Props.C13.c13_concrete_generators_send_what_they_store
#print axioms PyIkev2.Props.C13.c13_concrete_retransmission_is_the_request_sent
