import PyIkev2.Props.C10
#print axioms PyIkev2.Props.C10.c10_removal_deletes_exactly_tracked
#print axioms PyIkev2.Props.C10.applyOps_del
#print axioms PyIkev2.Props.C10.c10_teardown
#print axioms PyIkev2.Props.C10.c10_after_message
#print axioms PyIkev2.Props.C10.c10_rekey_handover_silent
#print axioms PyIkev2.Props.C10.c10_timeout_marks_only
#print axioms PyIkev2.Props.C10.c10_sweep_removes_with_sas
#print axioms PyIkev2.Props.C10.c10_concrete_requests_explain_the_sad
#print axioms PyIkev2.Props.C10.c10_concrete_request_keeps_sad_equal_tracked
#print axioms PyIkev2.Props.C10.c10_concrete_response_keeps_sad_equal_tracked
#print axioms PyIkev2.Props.C10.c10_concrete_generators_keep_sad_equal_tracked
#print axioms PyIkev2.Props.C10.c10_concrete_handover
#print axioms PyIkev2.Props.C10.keysOfCore_eq
#print axioms PyIkev2.Props.C10.c10_whole_model_start
#print axioms PyIkev2.Props.C10.c10_whole_model_history_partial
#print axioms PyIkev2.Props.C10.c10_whole_model_round_kernel
