import PyIkev2.Props.C09
#print axioms PyIkev2.Props.C09.c09_admission_from_source
#print axioms PyIkev2.Props.C09.c09_requests_admitted_in_live_states
#print axioms PyIkev2.Props.C09.c09_acquire_queued
#print axioms PyIkev2.Props.C09.c09_expire_queued
#print axioms PyIkev2.Props.C09.c09_generators_in_asserted_states
#print axioms PyIkev2.Props.C09.c09_escape_only_from_generator
#print axioms PyIkev2.Props.C09.c09_process_message_total
#print axioms PyIkev2.Props.C09.c09_concrete_ike_rekey_while_busy
#print axioms PyIkev2.Props.C09.c09_concrete_child_request_while_ike_sa_in_transition
#print axioms PyIkev2.Props.C09.c09_concrete_rekey_of_unknown_child
#print axioms PyIkev2.Props.C09.c09_concrete_rekey_crossing_own_delete_or_rekey
#print axioms PyIkev2.Props.C09.c09_concrete_delete_names_our_outbound_spi
#print axioms PyIkev2.Props.C09.c09_concrete_delete_ignores_our_inbound_spis
