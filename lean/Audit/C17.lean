import PyIkev2.Props.C17
#print axioms PyIkev2.Props.C17.c17_short_datagram
#print axioms PyIkev2.Props.C17.c17_unknown_peer
#print axioms PyIkev2.Props.C17.c17_process_message_contains
#print axioms PyIkev2.Props.C17.c17_routed_datagram_contained
#print axioms PyIkev2.Props.C17.c17_retransmission_safe
#print axioms PyIkev2.Props.C17.c17_always_returns
#print axioms PyIkev2.Props.C17.c17_frame
