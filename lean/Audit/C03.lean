import PyIkev2.Props.C03
#print axioms PyIkev2.Props.C03.c03_rejected_changes_nothing
#print axioms PyIkev2.Props.C03.c03_cleartext_init_after_keys
#print axioms PyIkev2.Props.C03.c03_noninterference
#print axioms PyIkev2.Props.C03.c03_other_keys
#print axioms PyIkev2.Props.C03.c03_table_entry_unchanged
