import PyIkev2.Props.C05
#print axioms PyIkev2.Props.C05.c05_formats_from_source
#print axioms PyIkev2.Props.C05.c05_pack_formats_from_source
#print axioms PyIkev2.Props.C05.c05_payload_table_from_source
#print axioms PyIkev2.Props.C05.c05_roundtrip
#print axioms PyIkev2.Props.C05.c05_body_roundtrip
#print axioms PyIkev2.Props.C05.c05_chain_exact_extension
#print axioms PyIkev2.Props.C05.c05_skip_noncritical
#print axioms PyIkev2.Props.C05.c05_reject_critical
#print axioms PyIkev2.Props.C05.c05_unknown_types
