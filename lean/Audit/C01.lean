import PyIkev2.Props.C01
#print axioms PyIkev2.Props.C01.c01_flow_from_source
#print axioms PyIkev2.Props.C01.c01_mirror
#print axioms PyIkev2.Props.C01.c01_key_direction
#print axioms PyIkev2.Props.C01.c01_outbound_of_initiator
#print axioms PyIkev2.Props.C01.c01_reverse_sa
#print axioms PyIkev2.Props.C01.c01_no_unknown
#print axioms PyIkev2.Props.C01.c01_delete_matches_install
#print axioms PyIkev2.Props.C01.c01_ike_keys_agree
#print axioms PyIkev2.Props.C01.c01_concrete_child_sas_of_the_two_ends_are_mirror_images
