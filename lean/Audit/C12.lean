import PyIkev2.Props.C12
#print axioms PyIkev2.Props.C12.c12_subset_is_packet_inclusion
#print axioms PyIkev2.Props.C12.c12_network_roundtrip
#print axioms PyIkev2.Props.C12.c12_get_network_bounded
#print axioms PyIkev2.Props.C12.c12_responder_narrows
#print axioms PyIkev2.Props.C12.c12_refused_iff_no_policy
#print axioms PyIkev2.Props.C12.c12_rekey_selectors_equal
#print axioms PyIkev2.Props.C12.c12_mode_must_match
#print axioms PyIkev2.Props.C12.c12_initiator_rejects_widening
#print axioms PyIkev2.Props.C12.c12_subset_trans
#print axioms PyIkev2.Props.C12.c12_concrete_responder_narrows_and_mode
#print axioms PyIkev2.Props.C12.c12_concrete_initiator_never_widens
#print axioms PyIkev2.Props.C12.c12_concrete_both_ends_hold_mirrored_selectors_and_the_same_mode
