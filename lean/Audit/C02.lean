import PyIkev2.Props.C02
#print axioms PyIkev2.Props.C02.c02_rule_from_source
#print axioms PyIkev2.Props.C02.c02_nothing_but_auth_before_established
#print axioms PyIkev2.Props.C02.c02_establish_requires_auth
#print axioms PyIkev2.Props.C02.c02_verify_only_with_configured_credential
#print axioms PyIkev2.Props.C02.c02_octets_unambiguous
#print axioms PyIkev2.Props.C02.c02_psk_auth_binds
#print axioms PyIkev2.Props.C02.c02_whole_model_handlers_before_auth
#print axioms PyIkev2.Props.C02.c02_whole_model_message_before_auth
#print axioms PyIkev2.Props.C02.c02_whole_model_never_established_without_verdict
