import PyIkev2.Props.C14
#print axioms PyIkev2.Props.C14.c14_struct_names_from_source
#print axioms PyIkev2.Props.C14.c14_layouts
#print axioms PyIkev2.Props.C14.c14_algo_layout
#print axioms PyIkev2.Props.C14.c14_record_roundtrip
#print axioms PyIkev2.Props.C14.c14_port_network_order
#print axioms PyIkev2.Props.C14.c14_constants_from_source
#print axioms PyIkev2.Props.C14.c14_attributes_aligned_from_source
#print axioms PyIkev2.Props.C14.c14_attribute_step
#print axioms PyIkev2.Props.C14.c14_flows_from_source
#print axioms PyIkev2.Props.C14.c14_struct_decodes
#print axioms PyIkev2.Props.C14.c14_reply_error
#print axioms PyIkev2.Props.C14.c14_reply_ack
