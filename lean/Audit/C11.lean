import PyIkev2.Props.C11
#print axioms PyIkev2.Props.C11.c11_intersection_within_both
#print axioms PyIkev2.Props.C11.c11_one_per_required_type
#print axioms PyIkev2.Props.C11.c11_local_preference
#print axioms PyIkev2.Props.C11.c11_none_iff
#print axioms PyIkev2.Props.C11.c11_first_acceptable
#print axioms PyIkev2.Props.C11.c11_response_drawn_from_offer
#print axioms PyIkev2.Props.C11.c11_child_response_drawn_from_offer
#print axioms PyIkev2.Props.C11.c11_response_covers_offered_types
#print axioms PyIkev2.Props.C11.c11_invalid_ke_names_chosen
#print axioms PyIkev2.Props.C11.c11_retry_only_within_offer
#print axioms PyIkev2.Props.C11.c11_concrete_responder_suite_within_both
#print axioms PyIkev2.Props.C11.c11_concrete_initiator_suite_from_offer
#print axioms PyIkev2.Props.C11.c11_concrete_both_ends_hold_the_same_suite
