import PyIkev2.Props.C07
#print axioms PyIkev2.Props.C07.c07_require_sk_from_source
#print axioms PyIkev2.Props.C07.c07_roundtrip
#print axioms PyIkev2.Props.C07.c07_icv_covers_header_to_ciphertext
#print axioms PyIkev2.Props.C07.c07_padding
#print axioms PyIkev2.Props.C07.c07_verify_before_decrypt
#print axioms PyIkev2.Props.C07.c07_accept_requires_valid_checksum
#print axioms PyIkev2.Props.C07.c07_tamper_icv
#print axioms PyIkev2.Props.C07.c07_tamper_body
