import PyIkev2.Props.C04
#print axioms PyIkev2.Props.C04.c04_prfplus_shape_from_source
#print axioms PyIkev2.Props.C04.c04_prfplus_definition
#print axioms PyIkev2.Props.C04.c04_prfplus
#print axioms PyIkev2.Props.C04.c04_prfplus_overflow
#print axioms PyIkev2.Props.C04.c04_sk_keys_initial
#print axioms PyIkev2.Props.C04.c04_sk_keys_rekey
#print axioms PyIkev2.Props.C04.c04_child_keymat
#print axioms PyIkev2.Props.C04.c04_keyseed_order_from_source
#print axioms PyIkev2.Props.C04.c04_role_keys
#print axioms PyIkev2.Props.C04.c04_algorithm_tables
#print axioms PyIkev2.Props.C04.c04_modp_constants
#print axioms PyIkev2.Props.C04.c04_dh_width
#print axioms PyIkev2.Props.C04.c04_ec_table
#print axioms PyIkev2.Props.C04.c04_modp_agreement
