import PyIkev2.Props.C20
#print axioms PyIkev2.Props.C20.c20_no_secret_at_info
#print axioms PyIkev2.Props.C20.c20_exception_messages_clean
#print axioms PyIkev2.Props.C20.c20_verbosity
#print axioms PyIkev2.Props.C20.c20_table_is_meaningful
