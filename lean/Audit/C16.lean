import PyIkev2.Props.C16
#print axioms PyIkev2.Props.C16.c16_unknown_spi_dropped
#print axioms PyIkev2.Props.C16.c16_routing
#print axioms PyIkev2.Props.C16.c16_other_entries_untouched
#print axioms PyIkev2.Props.C16.c16_deleted_is_removed
#print axioms PyIkev2.Props.C16.c16_successor_registered_once
#print axioms PyIkev2.Props.C16.c16_successor_then_registered
#print axioms PyIkev2.Props.C16.c16_init_creates
#print axioms PyIkev2.Props.C16.c16_init_without_configuration
#print axioms PyIkev2.Props.C16.c16_expire_unknown
#print axioms PyIkev2.Props.C16.c16_status_is_table
#print axioms PyIkev2.Props.C16.c16_whole_model_never_lists_an_ike_sa_twice
