import PyIkev2.Props.C15
#print axioms PyIkev2.Props.C15.c15_flow_from_source
#print axioms PyIkev2.Props.C15.c15_in_fwd_are_out_reversed
#print axioms PyIkev2.Props.C15.c15_index_roundtrip
#print axioms PyIkev2.Props.C15.c15_index_roundtrip_fails_beyond
#print axioms PyIkev2.Props.C15.c15_acquire_unknown_index_ignored
#print axioms PyIkev2.Props.C15.c15_acquire_new_initiator
