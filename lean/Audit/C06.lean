import PyIkev2.Props.C06
#print axioms PyIkev2.Props.C06.c06_guards_from_source
#print axioms PyIkev2.Props.C06.c06_length_checks_from_source
#print axioms PyIkev2.Props.C06.c06_protocol_errors_only
#print axioms PyIkev2.Props.C06.c06_no_hang
