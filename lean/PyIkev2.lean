import PyIkev2.Prim
import PyIkev2.Model.Codec
import PyIkev2.Model.Wire
import PyIkev2.Model.Toy
import PyIkev2.Props.C05
import PyIkev2.Props.C06
import PyIkev2.Props.C07
