import PyIkev2.Prim
