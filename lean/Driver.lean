/-
  Line-protocol driver for the correspondence check: one operation per line on stdin,
  one canonical observation per line on stdout.  Imports only model files (no Mathlib),
  so it is compiled as a `lean_exe`.
-/
import PyIkev2.Model.Codec
import PyIkev2.Model.Wire
import PyIkev2.Model.Toy
import PyIkev2.Model.NegotiateCmd
import PyIkev2.Model.SelectorsCmd
import PyIkev2.Model.KeysCmd
import PyIkev2.Model.NetlinkCmd
import PyIkev2.Model.MachineCmd
import PyIkev2.Model.ConfigCmd
import PyIkev2.Model.HandlersCmd

open PyIkev2 PyIkev2.Impl

def parseCrypto (s : String) : Option (Option CryptoCtx) :=
  if s == "-" then some none else
  match s.splitOn ":" with
  | ["toy", b, i] => match b.toNat?, i.toNat? with
      | some b, some i => some (some (Toy.ctx b i))
      | _, _ => none
  | _ => none

def resOut {α} (r : Res α) (f : α → String) : String :=
  match r with
  | .ok a => "ok " ++ f a
  | r => r.tag

def codecCmd (cmd : String) (args : List String) : Option String :=
  match cmd, args with
  | "parse", [h, ho, c] => do
      let d ← fromHex h
      let c ← parseCrypto c
      pure (resOut (parseMsg d (ho == "1") c) (fun m => Wire.join (Wire.rMsg m)))
  | "enc", c :: rest => do
      let c ← parseCrypto c
      let (m, left) ← Wire.msg.run rest
      if left ≠ [] then none else pure ("ok " ++ hexOut (encMsg m c))
  | "parsebody", [pt, h] => do
      let pt ← pt.toNat?
      let d ← fromHex h
      match parseBody pt d with
      | some r => pure (resOut r (fun b => Wire.join (Wire.rBody b)))
      | none => pure "unknown"
  | "encbody", rest => do
      let (b, left) ← Wire.body.run rest
      if left ≠ [] then none else pure ("ok " ++ hexOut (encBody b))
  | _, _ => none

def step (line : String) : String :=
  match (line.trimAscii.toString.splitOn " ").filter (· ≠ "") with
  | [] => "bad-op"
  | cmd :: args =>
    match (((((((codecCmd cmd args).orElse (fun _ => NegotiateCmd.cmd cmd args)).orElse (fun _ => SelectorsCmd.cmd cmd args)).orElse (fun _ => KeysCmd.cmd cmd args)).orElse (fun _ => NetlinkCmd.cmd cmd args)).orElse (fun _ => MachineCmd.cmd cmd args)).orElse (fun _ => ConfigCmd.cmd cmd args)).orElse (fun _ => HandlersCmd.cmd cmd args) with
    | some out => out
    | none => "bad-op"

partial def loop (h : IO.FS.Stream) (out : IO.FS.Stream) : IO Unit := do
  let line ← h.getLine
  if line.isEmpty then return ()
  out.putStrLn (step line)
  loop h out

def main : IO Unit := do
  let stdin ← IO.getStdin
  let stdout ← IO.getStdout
  loop stdin stdout
