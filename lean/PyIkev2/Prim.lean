/-
  Primitives shared by every model file.  No Mathlib, core Lean only, so that the
  driver can be compiled as a `lean_exe`.

  * `Bytes` are lists of naturals (each < 256 when well formed, `Bytes.wf`).
  * `Res` is the outcome type of every modelled Python function: a value, one of the
    two protocol errors of `message.py`, any other Python exception (`py`), or `hang`
    (the fuel of an attacker-driven loop ran out, i.e. the Python loop does not
    terminate).  It derives `DecidableEq`, so non-vacuity examples close by `decide`.
-/
namespace PyIkev2

abbrev Bytes := List Nat

def Bytes.wf (b : Bytes) : Prop := ∀ x ∈ b, x < 256

instance (b : Bytes) : Decidable (Bytes.wf b) := by unfold Bytes.wf; exact inferInstance

/-- Python exception classes outside the protocol-error family that the modelled code can raise. -/
inductive PyErr
  | structError | indexError | valueError | keyError | unicodeError | typeError
  | attributeError | overflowError | stopIteration | assertionError | other
  deriving DecidableEq, Repr, Inhabited

inductive Res (α : Type) where
  | ok (a : α)
  | invalidSyntax
  | unsupportedCritical
  | py (e : PyErr)
  | hang
  deriving DecidableEq, Repr

namespace Res

@[inline] def bind {α β : Type} (r : Res α) (f : α → Res β) : Res β :=
  match r with
  | ok a => f a
  | invalidSyntax => invalidSyntax
  | unsupportedCritical => unsupportedCritical
  | py e => py e
  | hang => hang

instance : Monad Res where
  pure := Res.ok
  bind := Res.bind

@[simp] theorem bind_ok {α β} (a : α) (f : α → Res β) : (Res.ok a >>= f) = f a := rfl
@[simp] theorem bind_invalid {α β} (f : α → Res β) : ((Res.invalidSyntax : Res α) >>= f) = Res.invalidSyntax := rfl
@[simp] theorem bind_crit {α β} (f : α → Res β) : ((Res.unsupportedCritical : Res α) >>= f) = Res.unsupportedCritical := rfl
@[simp] theorem bind_py {α β} (e : PyErr) (f : α → Res β) : ((Res.py e : Res α) >>= f) = Res.py e := rfl
@[simp] theorem bind_hang {α β} (f : α → Res β) : ((Res.hang : Res α) >>= f) = Res.hang := rfl
@[simp] theorem pure_eq {α} (a : α) : (pure a : Res α) = Res.ok a := rfl

/-- "returns, or raises a protocol error": the outcomes property C06 allows. -/
def protocolOnly {α} : Res α → Prop
  | ok _ => True
  | invalidSyntax => True
  | unsupportedCritical => True
  | py _ => False
  | hang => False

instance {α} (r : Res α) : Decidable (protocolOnly r) := by
  cases r <;> unfold protocolOnly <;> exact inferInstance

@[simp] theorem protocolOnly_ok {α} (a : α) : protocolOnly (Res.ok a) := trivial
@[simp] theorem protocolOnly_inv {α} : protocolOnly (Res.invalidSyntax : Res α) := trivial
@[simp] theorem protocolOnly_crit {α} : protocolOnly (Res.unsupportedCritical : Res α) := trivial
@[simp] theorem protocolOnly_py {α} (e : PyErr) : ¬ protocolOnly (Res.py e : Res α) := fun h => h
@[simp] theorem protocolOnly_hang {α} : ¬ protocolOnly (Res.hang : Res α) := fun h => h

theorem protocolOnly_bind {α β} (r : Res α) (f : α → Res β)
    (hr : protocolOnly r) (hf : ∀ a, r = ok a → protocolOnly (f a)) : protocolOnly (r >>= f) := by
  cases r with
  | ok a => exact hf a rfl
  | invalidSyntax => trivial
  | unsupportedCritical => trivial
  | py e => exact hr.elim
  | hang => exact hr.elim

def isOk {α} : Res α → Bool
  | ok _ => true
  | _ => false

/-- short tag used by the driver's line protocol -/
def tag {α} : Res α → String
  | ok _ => "ok"
  | invalidSyntax => "InvalidSyntax"
  | unsupportedCritical => "UnsupportedCriticalPayload"
  | py e => "py:" ++ (match e with
      | .structError => "struct.error" | .indexError => "IndexError" | .valueError => "ValueError"
      | .keyError => "KeyError" | .unicodeError => "UnicodeDecodeError" | .typeError => "TypeError"
      | .attributeError => "AttributeError" | .overflowError => "OverflowError"
      | .stopIteration => "StopIteration" | .assertionError => "AssertionError" | .other => "Exception")
  | hang => "hang"

end Res

/-! ### big-endian integers -/

/-- `n.to_bytes(w, 'big')` (truncating: callers state the range side condition). -/
def wrBE : Nat → Nat → Bytes
  | 0, _ => []
  | w + 1, n => wrBE w (n / 256) ++ [n % 256]

/-- `int.from_bytes(b, 'big')` -/
def rdBE (b : Bytes) : Nat := b.foldl (fun a x => a * 256 + x) 0

@[simp] theorem wrBE_length (w n : Nat) : (wrBE w n).length = w := by
  induction w generalizing n with
  | zero => rfl
  | succ w ih => simp [wrBE, ih]

theorem wrBE_wf (w n : Nat) : Bytes.wf (wrBE w n) := by
  induction w generalizing n with
  | zero => intro x hx; cases hx
  | succ w ih =>
    intro x hx
    simp [wrBE] at hx
    rcases hx with hx | hx
    · exact ih _ x hx
    · omega

theorem rdBE_append_single (a : Bytes) (x : Nat) : rdBE (a ++ [x]) = rdBE a * 256 + x := by
  simp [rdBE, List.foldl_append]

theorem rdBE_wrBE (w n : Nat) : rdBE (wrBE w n) = n % 256 ^ w := by
  induction w generalizing n with
  | zero => simp [wrBE, rdBE, Nat.mod_one]
  | succ w ih =>
    rw [wrBE, rdBE_append_single, ih, Nat.pow_succ]
    have h := Nat.mod_mul_right_div_self n 256 (256 ^ w)
    have h2 : n % (256 * 256 ^ w) = 256 * (n / 256 % 256 ^ w) + n % 256 := by
      rw [Nat.mod_mul]; omega
    rw [Nat.mul_comm (256 ^ w) 256, h2]; omega

theorem rdBE_wrBE_of_lt (w n : Nat) (h : n < 256 ^ w) : rdBE (wrBE w n) = n := by
  rw [rdBE_wrBE, Nat.mod_eq_of_lt h]

/-- one octet / two octets at the head of a buffer (callers check the length first) -/
def u8 (b : Bytes) (i : Nat) : Nat := b.getD i 0
def u16 (b : Bytes) (i : Nat) : Nat := b.getD i 0 * 256 + b.getD (i + 1) 0
def u32 (b : Bytes) (i : Nat) : Nat :=
  ((b.getD i 0 * 256 + b.getD (i + 1) 0) * 256 + b.getD (i + 2) 0) * 256 + b.getD (i + 3) 0

def w8 (n : Nat) : Bytes := [n % 256]
def w16 (n : Nat) : Bytes := [n / 256 % 256, n % 256]
def w32 (n : Nat) : Bytes := [n / 16777216 % 256, n / 65536 % 256, n / 256 % 256, n % 256]

/-- Python slice `b[i:j]` for non-negative `i`, `j` (clamping, never failing). -/
def slice (b : Bytes) (i j : Nat) : Bytes := (b.take j).drop i

/-- Python slice `b[:-k]` for `k > 0` (for `k = 0` Python gives `b[:0] = []`). -/
def dropLast (b : Bytes) (k : Nat) : Bytes := b.take (b.length - k)

/-- Python slice `b[-k:]` for `k > 0`. -/
def takeLast (b : Bytes) (k : Nat) : Bytes := b.drop (b.length - k)

/-! ### hex, for the driver's line protocol -/

def hexDigit (n : Nat) : Char :=
  if n < 10 then Char.ofNat (48 + n) else Char.ofNat (87 + n)

def toHex (b : Bytes) : String :=
  String.ofList (b.flatMap fun x => [hexDigit (x / 16 % 16), hexDigit (x % 16)])

def hexVal (c : Char) : Option Nat :=
  let n := c.toNat
  if 48 ≤ n ∧ n ≤ 57 then some (n - 48)
  else if 97 ≤ n ∧ n ≤ 102 then some (n - 87)
  else if 65 ≤ n ∧ n ≤ 70 then some (n - 55)
  else none

def fromHexAux : List Char → Bytes → Option Bytes
  | [], acc => some acc.reverse
  | [_], _ => none
  | a :: b :: rest, acc =>
    match hexVal a, hexVal b with
    | some x, some y => fromHexAux rest ((x * 16 + y) :: acc)
    | _, _ => none

/-- "-" encodes the empty byte string on the wire of the line protocol -/
def fromHex (s : String) : Option Bytes :=
  if s == "-" then some [] else fromHexAux s.toList []

def hexOut (b : Bytes) : String := if b.isEmpty then "-" else toHex b

end PyIkev2
