/-
  C18 — under load, no responder state or DH work without a valid cookie.
-/
import PyIkev2.Model.Cookie
import PyIkev2.Proofs.Machine
import PyIkev2.Proofs.HandlersCookie

namespace PyIkev2.Props.C18
open PyIkev2 PyIkev2.Impl

variable {τ : Type}

/-- tie to the source: the cookie is HMAC-SHA256 under the controller's secret over SPIi | Ni | source address; the first
    received cookie is the one compared; the check (with its `raise CookieRequired`) precedes every Diffie-Hellman call of
    the function; the controller demands cookies when more than `cookie_threshold` IKE_SAs are not yet established -/
theorem c18_rule_from_source :
    Gen.Machine.cookieKey = "self.cookie_secret" ∧
    Gen.Machine.cookieInput = "request.spi_i + payload_nonce.nonce + self.peer_addr.packed" ∧
    Gen.Machine.cookieDigest = "hashlib.sha256" ∧
    Gen.Machine.cookieCompare = "len(received_cookies) == 0 or received_cookies[0].notification_data != expected_cookie" ∧
    Gen.Machine.cookieBeforeDh = true ∧
    Gen.Machine.thresholdTest = "sum((1 for x in self.ike_sas if x.state < IkeSa.State.ESTABLISHED)) > self.cookie_threshold" := by
  decide

/-- a request that lacks the correct first cookie is refused before any Diffie-Hellman computation and
    before the proposal is even looked at: the trace holds at most the keyed hash -/
theorem c18_no_dh_without_cookie (mac : Bytes → Bytes → Bytes) (k spiI nonce addr : Bytes) (received : List Bytes)
    (select : Option Nat) (keGroup : Nat) (h : received.head? ≠ some (mac k (cookieInput spiI nonce addr))) :
    negotiationRequest mac (some k) spiI nonce addr received select keGroup =
      (.cookieRequired (mac k (cookieInput spiI nonce addr)), [.mac]) := by
  cases received with
  | nil => simp [negotiationRequest, cookieCheck]
  | cons c rest =>
    have hc : c ≠ mac k (cookieInput spiI nonce addr) := by simpa using h
    simp [negotiationRequest, cookieCheck, hc]

/-- … and with the correct cookie first (whatever follows it) the request is processed as if no cookie were required -/
theorem c18_valid_cookie_accepted (mac : Bytes → Bytes → Bytes) (k spiI nonce addr : Bytes) (rest : List Bytes)
    (select : Option Nat) (keGroup : Nat) :
    (negotiationRequest mac (some k) spiI nonce addr (mac k (cookieInput spiI nonce addr) :: rest) select keGroup).1 =
      (negotiationRequest mac none spiI nonce addr [] select keGroup).1 := by
  simp only [negotiationRequest, cookieCheck, if_true]
  cases select with
  | none => rfl
  | some g => by_cases hg : g = keGroup <;> simp [hg]

/-- DH work happens only on the accepted path -/
theorem c18_dh_only_when_accepted (mac : Bytes → Bytes → Bytes) (secret : Option Bytes) (spiI nonce addr : Bytes) (received : List Bytes)
    (select : Option Nat) (keGroup : Nat) :
    Call.dh ∈ (negotiationRequest mac secret spiI nonce addr received select keGroup).2 ↔
      ∃ g, (negotiationRequest mac secret spiI nonce addr received select keGroup).1 = .accepted g := by
  simp only [negotiationRequest]
  cases cookieCheck mac secret spiI nonce addr received with
  | error c => cases secret <;> simp
  | ok u =>
    cases select with
    | none => cases secret <;> simp
    | some g => by_cases hg : g = keGroup <;> cases secret <;> simp [hg]

/-- binding: the hashed string determines SPI, nonce and address (SPIs are 8 octets; the two addresses are of one family),
    so a cookie computed for one (SPI, nonce, address) is the expected cookie of another only if the keyed hash collides -/
theorem c18_cookie_input_injective (s1 s2 n1 n2 a1 a2 : Bytes) (hs : s1.length = s2.length) (ha : a1.length = a2.length)
    (h : cookieInput s1 n1 a1 = cookieInput s2 n2 a2) : s1 = s2 ∧ n1 = n2 ∧ a1 = a2 := by
  unfold cookieInput at h
  rw [List.append_assoc, List.append_assoc] at h
  have h1 := List.append_inj h hs
  have hl : (n1 ++ a1).length = (n2 ++ a2).length := by rw [h1.2]
  have hn : n1.length = n2.length := by simp at hl; omega
  have h2 := List.append_inj h1.2 hn
  exact ⟨h1.1, h2.1, h2.2⟩

/-- threshold: the responder IKE_SA created for an IKE_SA_INIT request gets the cookie secret exactly when, counting
    itself (it is appended before the count is taken), more than `threshold` IKE_SAs of the table are not yet established -/
theorem c18_threshold (sas : List Sa) (n : SaCore) (thr : Nat) (hc : n.cookie = false) :
    let n' := if halfOpen (sas ++ [{ core := n, succ := none }]) > thr then { n with cookie := true } else n
    (n'.cookie = true ↔ halfOpen (sas ++ [{ core := n, succ := none }]) > thr) := by
  by_cases h : halfOpen (sas ++ [{ core := n, succ := none }]) > thr
  · simp [h]
  · simp [h, hc]

theorem c18_half_open_count (sas : List Sa) (x : Sa) :
    halfOpen (sas ++ [x]) = halfOpen sas + (if x.core.st < stESTABLISHED then 1 else 0) := by
  simp only [halfOpen, List.filter_append, List.length_append]
  by_cases h : x.core.st < stESTABLISHED <;> simp [h]

/-- no state: the refusal (an IkeSaError raised by the handler) marks the fresh IKE_SA DELETED, the reply is built from
    exactly the one notification, and the controller removes the IKE_SA in the same step (C16) -/
theorem c18_refusal_leaves_nothing (H : Handlers τ) (t t' : τ) (s : Sa) (now : Nat) (m : Msg) (o : HOut) (n : Payload)
    (hid : m.hdr.msgId = s.core.peerId) (hh : H.req t s now m = (t', some o)) (hr : o.res = .ikeError n) :
    (processRequest H t s now m).2.sa.core.st = stDELETED ∧
    (processRequest H t s now m).2.out = some (mkResponse o.sa.core m.hdr.exch [n]) ∧
    (m.hdr.exch = 34 → (mkResponse o.sa.core m.hdr.exch [n]).payloads = [n] ∧ (mkResponse o.sa.core m.hdr.exch [n]).enc = []) := by
  have h1 : ¬ (s.core.peerId + 1 = s.core.peerId) := by omega
  refine ⟨?_, ?_, ?_⟩
  · simp [processRequest, hid, hh, hr, h1]
  · simp [processRequest, hid, hh, hr, h1]
  · intro h34
    simp [mkResponse, h34]

/-! non-vacuity -/
example : negotiationRequest (fun k d => k ++ d) (some [9]) [1] [2] [3] [] (some 19) 19 = (.cookieRequired [9, 1, 2, 3], [.mac]) := by decide
example : negotiationRequest (fun k d => k ++ d) (some [9]) [1] [2] [3] [[9, 1, 2, 3]] (some 19) 19 =
    (.accepted 19, [.mac, .selectProposal, .dh]) := by decide

/-! ### in the model of the real handler (Model/Handlers.lean)

  The DH key pair, the shared secret and the expected cookie are oracles of that model, consulted in the order the code
  consults them.  "No DH work without a valid cookie" is then a statement about which oracle values a call consumes. -/

/-- whatever the request is: with the cookie secret set and no valid cookie, the negotiation routine raises — having consumed
    at most the cookie oracle (hence neither DH oracle), assigned nothing to the IKE_SA object and asked nothing of the kernel -/
theorem c18_concrete_no_dh_without_cookie (s : HSt) (m : Msg) (enc : Bool) (expected : Bytes) (rest : List TVal)
    (hc : s.me.core.cookie = true) (ht : s.tape.vals = TVal.bytes expected :: rest)
    (hbad : ∀ p sp d tl, getNotifies m nCOOKIE false = (p, sp, d) :: tl → d ≠ expected) :
    (∃ e, (negotiateIkeRequest .me m enc s).1 = .error e) ∧ (negotiateIkeRequest .me m enc s).2.me = s.me ∧
    (negotiateIkeRequest .me m enc s).2.succ = s.succ ∧ (negotiateIkeRequest .me m enc s).2.nl = s.nl ∧
    ((negotiateIkeRequest .me m enc s).2.tape.vals = s.tape.vals ∨ (negotiateIkeRequest .me m enc s).2.tape.vals = rest) :=
  negotiateIkeRequest_cookie_first s m enc expected rest hc ht hbad

/-- the complete answer of `process_ike_sa_init_request` to a well-formed request without the valid cookie: the COOKIE
    notification carrying the expected value; the object, its successor, the kernel untouched; exactly one oracle value consumed -/
theorem c18_concrete_cookie_answer (me : XSa) (succ : Option XSa) (m : Msg) (expected : Bytes) (rest : List TVal) (bad : Bool)
    (ps : List Proposal) (nonce : Bytes) (g : Nat) (ke : Bytes) (sad : List (Bytes × Nat × Bytes))
    (hst : me.core.st = stINITIAL) (hc : me.core.cookie = true)
    (h1 : paySA m false = .ok ps) (h2 : payNonce m false = .ok nonce) (h3 : payKE m false = .ok (g, ke))
    (hbad : ∀ p sp d tl, getNotifies m nCOOKIE false = (p, sp, d) :: tl → d ≠ expected) :
    let o := runH (processIkeSaInitRequest m) me succ { vals := TVal.bytes expected :: rest, bad := bad } sad
    o.res = .ikeError (mkNotify 0 nCOOKIE [] expected) ∧ o.me = me ∧ o.succ = succ ∧ o.nl = [] ∧ o.tape.vals = rest :=
  processIkeSaInitRequest_cookie me succ m expected rest bad ps nonce g ke sad hst hc h1 h2 h3 hbad

/-- the valid cookie (first COOKIE notification = the expected value) passes the check and only the cookie oracle is consumed;
    without the cookie secret nothing is checked and nothing consumed -/
theorem c18_concrete_valid_cookie_passes (x : XSa) (m : Msg) (s : HSt) (expected : Bytes) (rest : List TVal) (p : Nat) (sp : Bytes)
    (tl : List (Nat × Bytes × Bytes)) (hc : x.core.cookie = true) (ht : s.tape.vals = TVal.bytes expected :: rest)
    (hn : getNotifies m nCOOKIE false = (p, sp, expected) :: tl) :
    cookieGate x m s = (.ok (), { s with tape := { s.tape with vals := rest } }) ∧
    ∀ y : XSa, y.core.cookie = false → cookieGate y m s = (.ok (), s) :=
  ⟨cookieGate_accepts x m s expected rest p sp tl hc ht hn, fun y hy => cookieGate_off y m s hy⟩

end PyIkev2.Props.C18
