/-
  C06 — parsing any byte string terminates and fails only with a protocol error.

  Property theorems only (helper lemmas live in Proofs/CodecTotal.lean).  The guard
  facts and the two length validations are read from `Gen.Codec`, i.e. from the
  current source; `by decide` evaluates them.
-/
import PyIkev2.Proofs.CodecTotal
import PyIkev2.Model.Toy

namespace PyIkev2.Props.C06
open PyIkev2 PyIkev2.Impl

/-- tie to the source: every `unpack_from` of the parsers sits in a `try` that maps
    `struct.error` to `InvalidSyntax` (as extracted from the working tree) -/
theorem c06_guards_from_source : AllGuards := by decide

/-- tie to the source: the generic payload length is validated (`length < 4` rejected)
    and the encrypted body's sizes are validated before decryption -/
theorem c06_length_checks_from_source :
    Gen.Codec.chain_minlen_check = true ∧ Gen.Codec.sk_len_check = true := by decide

/-- For every byte string, header-only or in full, and every key context whose cipher
    obeys `Lawful`, `Message.parse` returns a message or raises `InvalidSyntax` /
    `UnsupportedCriticalPayload` — never another exception, never out of fuel. -/
theorem c06_protocol_errors_only (d : Bytes) (headerOnly : Bool) (crypto : Option CryptoCtx)
    (L : ∀ c, crypto = some c → c.Lawful) :
    Res.protocolOnly (parseMsg d headerOnly crypto) :=
  po_parseMsg c06_guards_from_source c06_length_checks_from_source.1 c06_length_checks_from_source.2
    d headerOnly crypto L

/-- The fuel `|data| + 1` given to every attacker-driven loop is never exhausted: the
    Python loops terminate on every input. -/
theorem c06_no_hang (d : Bytes) (headerOnly : Bool) (crypto : Option CryptoCtx)
    (L : ∀ c, crypto = some c → c.Lawful) :
    parseMsg d headerOnly crypto ≠ Res.hang := by
  intro h
  have := c06_protocol_errors_only d headerOnly crypto L
  rw [h] at this
  exact this

/-- non-vacuity: the toy key context of the driver satisfies the cipher law -/
example : (Toy.ctx 16 12).Lawful where
  block_pos := by decide
  dec_fail := by
    intro iv ct h
    simp only [Toy.ctx] at h ⊢
    rw [if_pos h]
  dec_ok := by
    intro iv ct h1 h2
    refine ⟨Toy.xorStream iv 16 ct, ?_, ?_⟩
    · simp only [Toy.ctx] at h1 h2 ⊢
      simp [h1, h2]
    · simp [Toy.xorStream]

/-- non-vacuity: a concrete datagram that parses, and one that is rejected -/
example : (parseMsg (List.replicate 16 0 ++ [40, 32, 34, 8, 0, 0, 0, 0, 0, 0, 0, 48, 0, 0, 0, 20] ++ List.replicate 16 170)
    false none).isOk = true := by decide
example : parseMsg (List.replicate 16 0 ++ [99, 32, 34, 8, 0, 0, 0, 0, 0, 0, 0, 32, 99, 0, 0, 0]) false none
    = Res.invalidSyntax := by decide

end PyIkev2.Props.C06
