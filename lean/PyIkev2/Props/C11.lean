/-
  C11 — algorithm negotiation never selects anything outside both offers.
  Pure list functions; all statements hold for proposals of any size.
-/
import PyIkev2.Proofs.Negotiate
import PyIkev2.Proofs.HandlersChild
import PyIkev2.Proofs.TwoEndsCreate

namespace PyIkev2.Props.C11
open PyIkev2 PyIkev2.Impl

/-- the chosen suite: protocol agrees, number/SPI are the peer's, and every transform is
    present (type, identifier and key length) in both the local policy and the peer proposal -/
theorem c11_intersection_within_both (mine peer p : Proposal) (h : intersection mine peer = some p) :
    mine.proto = peer.proto ∧ p.proto = mine.proto ∧ p.num = peer.num ∧ p.spi = peer.spi ∧
    ∀ t ∈ p.transforms, t ∈ mine.transforms ∧ t ∈ peer.transforms := by
  unfold intersection at h
  split at h
  · rename_i hp
    split at h
    · cases h
      refine ⟨hp, rfl, rfl, rfl, ?_⟩
      intro t ht
      rcases selLoop_mem _ _ _ t ht with h | h
      · cases h
      · exact h
    · cases h
  · cases h

/-- exactly one transform of each type the local policy requires -/
theorem c11_one_per_required_type (mine peer p : Proposal) (h : intersection mine peer = some p) :
    (p.transforms.map (·.ttype)).Nodup ∧
    (∀ t ∈ mine.transforms, ∃ s ∈ p.transforms, s.ttype = t.ttype) ∧
    (∀ s ∈ p.transforms, ∃ t ∈ mine.transforms, t.ttype = s.ttype) := by
  have hw := c11_intersection_within_both mine peer p h
  unfold intersection at h
  split at h
  · split at h
    · rename_i hc
      cases h
      refine ⟨selLoop_nodup _ _ _ (by simp), ?_, fun s hs => ⟨s, (hw.2.2.2.2 s hs).1, rfl⟩⟩
      intro t ht
      have := List.all_eq_true.mp hc t ht
      obtain ⟨s, hs, hst⟩ := List.any_eq_true.mp this
      exact ⟨s, hs, by simpa using hst⟩
    · cases h
  · cases h

/-- local preference order: for each type, the chosen transform is the first of that type in
    the local policy's order that the peer proposal contains -/
theorem c11_local_preference (mine peer p : Proposal) (h : intersection mine peer = some p) (ty : Nat) :
    p.transforms.find? (fun s => s.ttype = ty) =
      mine.transforms.find? (fun t => decide (t.ttype = ty) && peer.transforms.contains t) := by
  unfold intersection at h
  split at h
  · split at h
    · cases h; exact selLoop_find _ _ [] ty rfl
    · cases h
  · cases h

/-- there is no acceptable suite exactly when the protocols differ or some required type has
    no common transform -/
theorem c11_none_iff (mine peer : Proposal) :
    intersection mine peer = none ↔
      mine.proto ≠ peer.proto ∨ ∃ t ∈ mine.transforms, ∀ s ∈ mine.transforms, s.ttype = t.ttype → s ∉ peer.transforms := by
  unfold intersection
  constructor
  · intro h
    split at h
    · split at h
      · cases h
      · rename_i hp hc
        right
        apply Classical.byContradiction
        intro hno
        apply hc
        simp only [coversTypes, List.all_eq_true]
        intro t ht
        apply Classical.byContradiction
        intro hn
        apply hno
        refine ⟨t, ht, ?_⟩
        intro s hs hst hsp
        apply hn
        obtain ⟨x, hx, hxt⟩ := selLoop_covers peer.transforms mine.transforms [] s hs hsp
        exact List.any_eq_true.mpr ⟨x, hx, by simpa using hxt.trans hst⟩
    · rename_i hp; exact Or.inl hp
  · intro h
    rcases h with h | ⟨t, ht, hn⟩
    · simp [h]
    · split
      · split
        · rename_i hc
          exfalso
          have := List.all_eq_true.mp hc t ht
          obtain ⟨s, hs, hst⟩ := List.any_eq_true.mp this
          rcases selLoop_mem _ _ _ s hs with h | h
          · cases h
          · exact hn s h.1 (by simpa using hst) h.2
        · rfl
      · rfl

/-- the first acceptable peer proposal, in the peer's order, is the one answered; if none is
    acceptable the outcome is NO_PROPOSAL_CHOSEN (`none`) -/
theorem c11_first_acceptable (mine : Proposal) (ps : List Proposal) :
    (selectBest mine ps = none ↔ ∀ p ∈ ps, intersection mine p = none) ∧
    (∀ r, selectBest mine ps = some r →
      ∃ pre p post, ps = pre ++ p :: post ∧ intersection mine p = some r ∧ ∀ q ∈ pre, intersection mine q = none) := by
  induction ps with
  | nil => simp [selectBest]
  | cons p rest ih =>
    unfold selectBest
    cases hi : intersection mine p with
    | some i =>
      refine ⟨by simp [hi], ?_⟩
      intro r hr
      cases hr
      exact ⟨[], p, rest, rfl, hi, by simp⟩
    | none =>
      simp only
      refine ⟨by simp [hi, ih.1], ?_⟩
      intro r hr
      obtain ⟨pre, q, post, he, hq, hpre⟩ := ih.2 r hr
      refine ⟨p :: pre, q, post, by simp [he], hq, ?_⟩
      intro x hx
      rcases List.mem_cons.mp hx with rfl | hx
      · exact hi
      · exact hpre x hx

/-- `Proposal.is_subset`: true only if every transform of the first proposal is in the second -/
theorem c11_response_drawn_from_offer (resp offer : Proposal) (h : isSubset resp offer = true) :
    resp.proto = offer.proto ∧ ∀ t ∈ resp.transforms, t ∈ offer.transforms := by
  unfold isSubset at h
  cases hi : intersection resp offer with
  | none => rw [hi] at h; cases h
  | some i =>
    rw [hi] at h
    have hw := c11_intersection_within_both resp offer i hi
    refine ⟨hw.1, ?_⟩
    intro t ht
    simp only [propEq, Bool.and_eq_true, decide_eq_true_eq, List.all_eq_true] at h
    have := h.2.2 t ht
    exact (hw.2.2.2.2 t (by simpa using this)).2

theorem c11_child_response_drawn_from_offer (mine chosen : Proposal) (h : childResponseOk mine chosen = true) :
    mine.proto = chosen.proto ∧ ∀ t ∈ chosen.transforms, t ∈ mine.transforms := by
  unfold childResponseOk at h
  cases hi : intersection mine chosen with
  | none => rw [hi] at h; cases h
  | some i =>
    rw [hi] at h
    have hw := c11_intersection_within_both mine chosen i hi
    refine ⟨hw.1, ?_⟩
    intro t ht
    simp only [propEq, Bool.and_eq_true, decide_eq_true_eq, List.all_eq_true] at h
    have := h.2.2 t ht
    exact (hw.2.2.2.2 t (by simpa using this)).1

/-- … and the accepted response has a transform of every type that was offered: the initiator never ends up with a
    suite that lacks a type its policy requires (IKE_SA and CHILD_SA responses are validated by the same test) -/
theorem c11_response_covers_offered_types (mine chosen : Proposal) (h : childResponseOk mine chosen = true) :
    ∀ t ∈ mine.transforms, ∃ u ∈ chosen.transforms, u.ttype = t.ttype := by
  unfold childResponseOk at h
  cases hi : intersection mine chosen with
  | none => rw [hi] at h; cases h
  | some i =>
    rw [hi] at h
    intro t ht
    -- the intersection has a transform of t's type …
    have hc : coversTypes i.transforms mine.transforms = true := by
      unfold intersection at hi
      split at hi
      · split at hi
        · rename_i hcov; cases hi; exact hcov
        · cases hi
      · cases hi
    simp only [coversTypes, List.all_eq_true, List.any_eq_true, decide_eq_true_eq] at hc
    obtain ⟨u, hu, hty⟩ := hc t ht
    -- … and every transform of the intersection is one of the response
    simp only [propEq, Bool.and_eq_true, decide_eq_true_eq, List.all_eq_true] at h
    have := h.2.1 u hu
    exact ⟨u, by simpa using this, hty⟩

/-- a KE payload in a group other than the chosen one is refused, and the refusal names the
    chosen group -/
theorem c11_invalid_ke_names_chosen (chosen : Proposal) (keGroup g : Nat) (hg : dhGroup chosen = some g) :
    (keCheck chosen keGroup = .ok () ↔ g = keGroup) ∧ (g ≠ keGroup → keCheck chosen keGroup = .error g) := by
  unfold keCheck; rw [hg]
  by_cases h : g = keGroup <;> simp [h]

/-- a suggested group that was never offered is refused, never retried -/
theorem c11_retry_only_within_offer (offer : Proposal) (suggested : Nat) :
    (∃ g, retryGroup offer suggested = some g) ↔ ∃ t ∈ offer.transforms, t.ttype = 4 ∧ t.id = suggested := by
  unfold retryGroup
  constructor
  · rintro ⟨g, hg⟩
    split at hg
    · rename_i h
      obtain ⟨t, ht, hp⟩ := List.any_eq_true.mp h
      exact ⟨t, ht, by simpa using hp⟩
    · cases hg
  · rintro ⟨t, ht, hp⟩
    have : (offer.transforms.any fun t => decide (t.ttype = 4 ∧ t.id = suggested)) = true :=
      List.any_eq_true.mpr ⟨t, ht, by simpa using hp⟩
    exact ⟨suggested, by rw [if_pos this]⟩

/-! non-vacuity: two concrete offers with different preference orders -/
def mineP : Proposal := { num := 1, proto := 1, spi := [], transforms :=
  [⟨1, 12, some 256⟩, ⟨1, 12, some 128⟩, ⟨3, 14, none⟩, ⟨3, 12, none⟩, ⟨2, 5, none⟩, ⟨4, 19, none⟩, ⟨4, 14, none⟩] }
def peerP : Proposal := { num := 7, proto := 1, spi := [9, 9], transforms :=
  [⟨1, 12, some 128⟩, ⟨3, 12, none⟩, ⟨3, 14, none⟩, ⟨2, 5, none⟩, ⟨4, 14, none⟩, ⟨2, 7, none⟩] }

example : intersection mineP peerP =
    some { num := 7, proto := 1, spi := [9, 9], transforms := [⟨1, 12, some 128⟩, ⟨3, 14, none⟩, ⟨2, 5, none⟩, ⟨4, 14, none⟩] } := by
  decide
example : intersection mineP { peerP with transforms := [⟨1, 12, some 192⟩, ⟨3, 12, none⟩, ⟨2, 5, none⟩, ⟨4, 14, none⟩] } = none := by
  decide

/-! ### in the model of the real handlers (Model/Handlers.lean) -/

/-- **responder**: whatever request a handler is run on, in whatever state, with whatever oracle values: the suite of every
    CHILD_SA record that is new afterwards consists of transforms of the matching policy entry's proposal that are also all
    in ONE of the proposals the request offered -/
theorem c11_concrete_responder_suite_within_both (now : Nat) (request : Msg) (h : HM HRes) (hh : requestHandler now request = some h)
    (me : XSa) (succ : Option XSa) (tape : Tape) (sad : List (Bytes × Nat × Bytes)) :
    ∀ k ∈ (runH h me succ tape sad).me.ext.kids, k ∈ me.ext.kids ∨
      ∃ pol ∈ me.ext.conf.protect, (∀ t ∈ k.proposal.transforms, t ∈ pol.proposal.transforms) ∧
        ∃ sa, paySA request true = .ok sa ∧ ∃ p ∈ sa, ∀ t ∈ k.proposal.transforms, t ∈ p.transforms := by
  intro k hk
  rcases requestHandler_kids now request h hh me succ tape sad k hk with h1 | ⟨pol, hp, _, _, _, _, _, _, _, _, _, _, h9, h10⟩
  · exact Or.inl h1
  · exact Or.inr ⟨pol, hp, h9, h10⟩

/-- **initiator**: whatever response a handler is run on: the suite of every CHILD_SA record that is new afterwards consists of
    transforms the outstanding offer contained -/
theorem c11_concrete_initiator_suite_from_offer (now : Nat) (response : Msg) (h : HM HRes) (hh : responseHandler now response = some h)
    (me : XSa) (succ : Option XSa) (tape : Tape) (sad : List (Bytes × Nat × Bytes)) (cr : Child) (hcr : me.ext.creating = some cr) :
    ∀ k ∈ (runH h me succ tape sad).me.ext.kids, k ∈ me.ext.kids ∨ ∀ t ∈ k.proposal.transforms, t ∈ cr.proposal.transforms := by
  intro k hk
  rcases responseHandler_kids now response h hh me succ tape sad cr hcr k hk with h1 | ⟨_, _, _, _, h5⟩
  · exact Or.inl h1
  · exact Or.inr h5

/-! ### both ends (two ends of the handler model, `Proofs/TwoEnds*.lean`) -/

/-- after any sequence of CHILD_SA creations, rekeys and deletions started by either end (one exchange at a time, no handler raising):
    a CHILD_SA the two ends share — same SPI pair, seen from either side — has the SAME suite at both ends -/
theorem c11_concrete_both_ends_hold_the_same_suite (now fuel : Nat) (ops : List ChildOp) (a b a' b' : HSt)
    (h : Agree a b) (hx : opRun now fuel (a, b) ops = some (a', b'))
    (ca cb : Child) (ha : ca ∈ a'.me.ext.kids) (hb : cb ∈ b'.me.ext.kids) (hv : ca.view = cb.peerView) :
    ca.proposal.transforms = cb.proposal.transforms ∧ ca.proposal.proto = cb.proposal.proto := by
  have hag := Agree.opRun now fuel ops a b a' b' h hx
  have := hag.paired ca ha cb hb hv
  simp only [Child.rich, Child.peerRich, Child.view, Child.peerView, Prod.mk.injEq] at this hv
  exact ⟨this.1, hv.2.2⟩

end PyIkev2.Props.C11
