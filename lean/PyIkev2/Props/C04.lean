/-
  C04 — key material is derived exactly as RFC 7296 prescribes.
  All statements are parametric in the prf (any function with a fixed non-zero output length).
-/
import PyIkev2.Proofs.Keys
import PyIkev2.Spec.Groups

namespace PyIkev2.Props.C04
open PyIkev2 PyIkev2.Impl

/-- tie to the source: the prf+ loop counts from 1 and feeds `T | S | counter` -/
theorem c04_prfplus_shape_from_source :
    Gen.Crypto.prfplusCounterStart = 1 ∧ Gen.Crypto.prfplusOperands = ["temp", "seed", "i.to_bytes(1, 'big')"] := by
  decide

/-- the RFC definition referred to: T1 = prf(K, S | 0x01), T(i+1) = prf(K, Ti | S | i+1),
    prf+ = T1 | T2 | … -/
theorem c04_prfplus_definition (prf : PrfFn) (key seed : Bytes) (size n : Nat) :
    Spec.prfplus prf key seed size = (Spec.stream prf key seed 255).take size ∧
    Spec.T prf key seed 1 = prf key (seed ++ [1]) ∧
    Spec.T prf key seed (n + 2) = prf key (Spec.T prf key seed (n + 1) ++ seed ++ [n + 2]) ∧
    Spec.stream prf key seed (n + 1) = Spec.stream prf key seed n ++ Spec.T prf key seed (n + 1) :=
  ⟨Spec.prfplus_eq prf key seed size, by simp [Spec.T], rfl, rfl⟩

/-- prf+ equals its RFC 7296 section 2.13 definition for every output length up to 255 blocks -/
theorem c04_prfplus (prf : PrfFn) (h : Nat) (hl : ∀ k d, (prf k d).length = h) (key seed : Bytes) (size : Nat)
    (hsz : size ≤ 255 * h) :
    prfplus prf key seed size = .ok (Spec.prfplus prf key seed size) := by
  rw [Spec.prfplus_eq]
  unfold prfplus
  rw [c04_prfplus_shape_from_source.1]
  exact prfplusLoop_spec prf key seed h hl size hsz 258 0 (by omega) (by omega)

/-- beyond 255 blocks the one-octet counter cannot be encoded: the code raises (OverflowError) -/
theorem c04_prfplus_overflow (prf : PrfFn) (h : Nat) (hl : ∀ k d, (prf k d).length = h) (key seed : Bytes)
    (size : Nat) (hsz : 255 * h < size) :
    prfplus prf key seed size = .py .overflowError := by
  unfold prfplus
  rw [c04_prfplus_shape_from_source.1]
  exact prfplusLoop_overflow prf key seed h hl size hsz 258 0 (by omega) (by omega)

/-- SKEYSEED and the seven SK_* keys of the initial exchange: SKEYSEED = prf(Ni | Nr, g^ir),
    keys taken from prf+(SKEYSEED, Ni | Nr | SPIi | SPIr) in RFC order with RFC lengths. -/
theorem c04_sk_keys_initial (prf : PrfFn) (h : Nat) (hl : ∀ k d, (prf k d).length = h) (s : Sizes)
    (ni nr spiI spiR gir : Bytes) (hsz : s.prf * 3 + s.integ * 2 + s.encr * 2 ≤ 255 * h) :
    ikeKeyring prf s ni nr spiI spiR gir none =
      .ok (Spec.ikeKeys prf s (Spec.skeyseed prf ni nr gir) ni nr spiI spiR) := by
  unfold ikeKeyring
  simp only [Option.getD_none, List.isEmpty_nil, if_true]
  have hseed : operand [("nonce_i", ni), ("nonce_r", nr), ("spi_i", spiI), ("spi_r", spiR), ("shared_secret", gir),
      ("old_sk_d", [])] Gen.Crypto.ikePrfplusSeed = ni ++ nr ++ spiI ++ spiR := by
    simp [operand, lookupVal, Gen.Crypto.ikePrfplusSeed]
  have hk : prf (operand [("nonce_i", ni), ("nonce_r", nr), ("spi_i", spiI), ("spi_r", spiR), ("shared_secret", gir),
      ("old_sk_d", [])] Gen.Crypto.skeyseedInitial.1)
      (operand [("nonce_i", ni), ("nonce_r", nr), ("spi_i", spiI), ("spi_r", spiR), ("shared_secret", gir),
      ("old_sk_d", [])] Gen.Crypto.skeyseedInitial.2) = Spec.skeyseed prf ni nr gir := by
    simp [operand, lookupVal, Gen.Crypto.skeyseedInitial, Spec.skeyseed]
  rw [hseed, hk, c04_prfplus prf h hl _ _ _ hsz]
  simp [Spec.ikeKeys, mkKeyring, fieldVal, splitBy, lookupVal, idxOfStr, Gen.Crypto.ikeSplit, Gen.Crypto.ikeKeyringCtor,
    Gen.Crypto.keyringFields, Sizes.of, List.drop_drop]
  refine ⟨?_, ?_, ?_, ?_⟩ <;> (congr 2; omega)

/-- keys of a rekeyed IKE_SA: SKEYSEED = prf(SK_d (old), g^ir (new) | Ni | Nr), then as above -/
theorem c04_sk_keys_rekey (prf : PrfFn) (h : Nat) (hl : ∀ k d, (prf k d).length = h) (s : Sizes)
    (ni nr spiI spiR gir skDold : Bytes) (hne : skDold ≠ [])
    (hsz : s.prf * 3 + s.integ * 2 + s.encr * 2 ≤ 255 * h) :
    ikeKeyring prf s ni nr spiI spiR gir (some skDold) =
      .ok (Spec.ikeKeys prf s (Spec.skeyseedRekey prf skDold ni nr gir) ni nr spiI spiR) := by
  unfold ikeKeyring
  have he : (skDold.isEmpty) = false := by cases skDold <;> simp_all
  simp only [Option.getD_some, he, Bool.false_eq_true, if_false]
  have hseed : operand [("nonce_i", ni), ("nonce_r", nr), ("spi_i", spiI), ("spi_r", spiR), ("shared_secret", gir),
      ("old_sk_d", skDold)] Gen.Crypto.ikePrfplusSeed = ni ++ nr ++ spiI ++ spiR := by
    simp [operand, lookupVal, Gen.Crypto.ikePrfplusSeed]
  have hk : prf (operand [("nonce_i", ni), ("nonce_r", nr), ("spi_i", spiI), ("spi_r", spiR), ("shared_secret", gir),
      ("old_sk_d", skDold)] Gen.Crypto.skeyseedRekey.1)
      (operand [("nonce_i", ni), ("nonce_r", nr), ("spi_i", spiI), ("spi_r", spiR), ("shared_secret", gir),
      ("old_sk_d", skDold)] Gen.Crypto.skeyseedRekey.2) = Spec.skeyseedRekey prf skDold ni nr gir := by
    simp [operand, lookupVal, Gen.Crypto.skeyseedRekey, Spec.skeyseedRekey]
  rw [hseed, hk, c04_prfplus prf h hl _ _ _ hsz]
  simp [Spec.ikeKeys, mkKeyring, fieldVal, splitBy, lookupVal, idxOfStr, Gen.Crypto.ikeSplit, Gen.Crypto.ikeKeyringCtor,
    Gen.Crypto.keyringFields, Sizes.of, List.drop_drop]
  refine ⟨?_, ?_, ?_, ?_⟩ <;> (congr 2; omega)

/-- CHILD_SA KEYMAT = prf+(SK_d, seed): encryption before integrity, initiator direction first
    (for AH, `s.encr = 0`).  `seed` is `Ni | Nr`, or `g^ir (new) | Ni | Nr` with PFS. -/
theorem c04_child_keymat (prf : PrfFn) (h : Nat) (hl : ∀ k d, (prf k d).length = h) (s : Sizes)
    (skD seed : Bytes) (hsz : 2 * s.integ + 2 * s.encr ≤ 255 * h) :
    childKeyring prf s skD seed = .ok (Spec.childKeys prf s skD seed) := by
  unfold childKeyring
  rw [c04_prfplus prf h hl _ _ _ hsz]
  simp [Spec.childKeys, mkKeyring, fieldVal, splitBy, lookupVal, idxOfStr, Gen.Crypto.childSplit,
    Gen.Crypto.childKeyringCtor, Gen.Crypto.keyringFields, Sizes.of, List.drop_drop]
  congr 2; omega

/-- tie to the source: the CHILD_SA keyseed is `Ni | Nr`, prefixed with the new shared secret
    when a DH exchange took place — on both roles -/
theorem c04_keyseed_order_from_source :
    Gen.Crypto.keyseedSites =
      [("_process_create_child_sa_negotiation_req",
         [["request_payload_nonce.nonce", "response_payload_nonce.nonce"], ["dh.shared_secret", "keyseed"]]),
       ("_process_create_child_sa_negotiation_res",
         [["request_payload_nonce.nonce", "response_payload_nonce.nonce"], ["self.dh.shared_secret", "keyseed"]])] ∧
    Gen.Crypto.ikeKeymatSize = "prf.key_size*3+integ.key_size*2+cipher.key_size*2" ∧
    Gen.Crypto.childKeymatSize = "2*integ_key_size+2*encr_key_size" := by decide

/-- role assignment: the initiator protects with SK_ei/SK_ai/SK_pi and verifies with the
    responder's keys; the responder the other way round -/
theorem c04_role_keys (k : Keyring) :
    myCryptoKeys k true = (k.skEi, k.skAi, k.skPi) ∧ peerCryptoKeys k true = (k.skEr, k.skAr, k.skPr) ∧
    myCryptoKeys k false = (k.skEr, k.skAr, k.skPr) ∧ peerCryptoKeys k false = (k.skEi, k.skAi, k.skPi) := by
  simp +decide [myCryptoKeys, peerCryptoKeys, cryptoKeys, pick, Gen.Crypto.myCrypto, Gen.Crypto.peerCrypto,
    Gen.Crypto.cryptoI, Gen.Crypto.cryptoR]

/-- sizes per transform (RFC 4868 / RFC 7296): PRF and integrity key size = digest size,
    truncation 96/128/256 bits, AES block 16 -/
theorem c04_algorithm_tables :
    Gen.Crypto.prfTable = [(2, "sha1"), (5, "sha256"), (7, "sha512")] ∧
    Gen.Crypto.integTable = [(2, "sha1", 96), (12, "sha256", 128), (14, "sha512", 256)] ∧
    Gen.Crypto.cipherTable = [(12, "AES")] := by decide

/-- the five MODP primes equal their RFC 3526 definition (formula with the published
    constants), generator 2 -/
theorem c04_modp_constants :
    Gen.Crypto.modpGenerator = 2 ∧
    Gen.Crypto.modpPrimes = Spec.modpGroups.map (fun g => (g.1, Spec.rfc3526 g.2.1 g.2.2)) := by
  decide +kernel

/-- fixed-width public values: the hexadecimal constant has exactly `bits / 4` digits, so
    `key_len = len(hex) // 2` is the modulus size in octets -/
theorem c04_dh_width :
    Gen.Crypto.modpHexLen = Spec.modpGroups.map (fun g => (g.1, g.2.1 / 4)) ∧
    ∀ w n, n < 256 ^ w → rdBE (wrBE w n) = n ∧ (wrBE w n).length = w :=
  ⟨by decide, fun w n h => ⟨rdBE_wrBE_of_lt w n h, wrBE_length w n⟩⟩

/-- RFC 5903 group numbers map to the NIST curves -/
theorem c04_ec_table : Gen.Crypto.ecGroups = Spec.ecpGroups.map (fun g => (g.1, g.2.1)) := by decide

/-- Diffie-Hellman agreement for MODP groups: both sides compute the same secret (proved, not
    assumed: (g^a)^b = (g^b)^a mod p) -/
theorem c04_modp_agreement (p g a b : Nat) : (g ^ a % p) ^ b % p = (g ^ b % p) ^ a % p := by
  rw [← Nat.pow_mod, ← Nat.pow_mod, ← Nat.pow_mul, ← Nat.pow_mul, Nat.mul_comm]

/-! non-vacuity: a toy prf with 4-octet output -/
def toyPrf : PrfFn := fun k d => [k.length % 256, d.length % 256, (k.sum + d.sum) % 256, 7]
example : ∀ k d, (toyPrf k d).length = 4 := fun _ _ => rfl
example : prfplus toyPrf [1, 2] [3] 10 = .ok (Spec.prfplus toyPrf [1, 2] [3] 10) := by decide +kernel
example : (ikeKeyring toyPrf ⟨4, 4, 2⟩ [1] [2] [3] [4] [5] none).isOk = true := by decide +kernel

end PyIkev2.Props.C04
