/-
  C16 — datagrams reach the right IKE_SA and the IKE_SA table stays exact.
  All statements are about the controller model and hold for EVERY handler instance.
-/
import PyIkev2.Proofs.Machine
import PyIkev2.Proofs.WholeSad2

namespace PyIkev2.Props.C16
open PyIkev2 PyIkev2.Impl

variable {τ : Type}

/-- a datagram for an unknown SPI is dropped without changing anything, eliciting nothing -/
theorem c16_unknown_spi_dropped (H : Handlers τ) (t : τ) (c : Ctl) (now : Nat) (h : Header) (p : Option Msg) (me peer : Bytes)
    (hk : ¬ (h.exch = 34 ∧ h.isResp = false))
    (hu : ∀ s ∈ c.sas, s.core.mySpi ≠ selectedSpi h) :
    dispatch H t c now (some h) p me peer = (t, { ctl := c }) := by
  have hnone : (c.sas.findIdx? fun s => decide (s.core.mySpi = selectedSpi h)) = none := by
    rw [List.findIdx?_eq_none_iff]
    intro s hs
    have := hu s hs
    simpa using this
  have hk' : ¬ (h.exch = 34 ∧ ¬ h.isResp = true) := by
    intro ⟨a, b⟩; exact hk ⟨a, by simpa using b⟩
  simp only [dispatch, hk', if_false]
  simp [hnone]

/-- routing: anything that is not an IKE_SA_INIT request is handed to the first IKE_SA whose local SPI
    equals the selected header SPI, and to no other: every other table entry is left exactly as it was -/
theorem c16_routing (H : Handlers τ) (t : τ) (c : Ctl) (now : Nat) (h : Header) (p : Option Msg) (me peer : Bytes) (i : Nat) (s : Sa)
    (hk : ¬ (h.exch = 34 ∧ h.isResp = false))
    (hi : (c.sas.findIdx? fun s => decide (s.core.mySpi = selectedSpi h)) = some i) (hs : c.sas[i]? = some s) :
    let r := processMessage H t s now p
    dispatch H t c now (some h) p me peer =
      (r.1, { ctl := { c with sas := (afterMessage c.sas i r.2.sa).1 },
              sent := (r.2.out.map fun m => (me, peer, m)).toList,
              nl := r.2.nl ++ (afterMessage c.sas i r.2.sa).2, escaped := r.2.escaped, ran := r.2.ran }) := by
  have hk' : ¬ (h.exch = 34 ∧ ¬ h.isResp = true) := by
    intro ⟨a, b⟩; exact hk ⟨a, by simpa using b⟩
  simp only [dispatch, hk', if_false, hi, hs]

/-- `afterMessage` touches only slot `i` and, possibly, the end of the table (the registered successor):
    every entry before slot `i` is exactly what it was -/
theorem c16_other_entries_untouched (sas : List Sa) (i j : Nat) (s : Sa) (hi : i < sas.length) (hj : j < i) :
    (afterMessage sas i s).1[j]? = sas[j]? := by
  have hset : (sas.set i s)[j]? = sas[j]? := List.getElem?_set_ne (by omega)
  have happ : ∀ x : Sa, (sas.set i s ++ [x])[j]? = sas[j]? := by
    intro x; rw [List.getElem?_append_left (by simp; omega), hset]
  unfold afterMessage
  simp only
  split
  · rw [List.getElem?_eraseIdx_of_lt hj, List.getElem?_set_ne (by omega)]
    split
    · split
      · split
        · exact hset
        · exact happ _
      · exact hset
    · exact hset
  · split
    · split
      · split
        · exact hset
        · exact happ _
      · exact hset
    · exact hset

/-- an IKE_SA that reaches DELETED is removed in the same step: it is not in the table afterwards
    at its slot, the table shrinks by one, and its pairs are deleted (C10) -/
theorem c16_deleted_is_removed (sas : List Sa) (i : Nat) (s : Sa) (hi : i < sas.length) (hd : s.core.st = stDELETED) :
    (afterMessage sas i s).1.length = sas.length - 1 ∧ (afterMessage sas i s).2 = (deleteChildSas s.core).2 := by
  simp [afterMessage, hd, stDELETED, stREKEYED, stDEL_AFTER_REKEY_IKE_SA_REQ_SENT, List.length_eraseIdx, hi]

/-- a successor is registered at most once: if it is already listed, handling yet another datagram for
    the rekeyed IKE_SA (a retransmitted rekey request, a late response, …) does not list it again -/
theorem c16_successor_registered_once (sas : List Sa) (i : Nat) (s : Sa) (n : SaCore)
    (hs : s.core.st = stREKEYED ∨ s.core.st = stDEL_AFTER_REKEY_IKE_SA_REQ_SENT) (hn : s.succ = some n)
    (hreg : registered (sas.set i s) n = true) :
    (afterMessage sas i s).1 = sas.set i s := by
  have hd : s.core.st ≠ stDELETED := by
    rcases hs with h | h <;> simp [h, stREKEYED, stDELETED, stDEL_AFTER_REKEY_IKE_SA_REQ_SENT]
  simp [afterMessage, hs, hn, hd, hreg]

/-- … and once appended it is listed, so the next datagram finds it registered -/
theorem c16_successor_then_registered (l : List Sa) (n : SaCore) :
    registered (l ++ [{ core := n, succ := none }]) n = true := by
  simp [registered]

/-- an IKE_SA_INIT request always creates a fresh responder IKE_SA for the address pair (when a
    configuration exists) and only that new IKE_SA sees the request; it is appended to the table when
    the request was accepted, and leaves no trace when it was not (the IKE_SA is still INITIAL) -/
theorem c16_init_creates (H : Handlers τ) (t t' : τ) (c : Ctl) (now : Nat) (h : Header) (p : Option Msg) (me peer : Bytes) (n : SaCore)
    (hk : h.exch = 34 ∧ h.isResp = false) (hn : H.newSa t now false h.spiI me peer = (t', some n)) :
    let sas := c.sas ++ [{ core := n, succ := none }]
    let n' := if halfOpen sas > c.threshold then { n with cookie := true } else n
    let r := processMessage H t' { core := n', succ := none } now p
    (r.2.sa.core.st = stINITIAL → (dispatch H t c now (some h) p me peer).2.ctl = c) ∧
    (r.2.sa.core.st ≠ stINITIAL →
      (dispatch H t c now (some h) p me peer).2.ctl.sas = (afterMessage sas (sas.length - 1) r.2.sa).1) := by
  have hk' : h.exch = 34 ∧ ¬ h.isResp = true := ⟨hk.1, by simp [hk.2]⟩
  constructor
  · intro hst
    simp only [dispatch, hk', hn]
    simp [hst]
  · intro hst
    simp only [dispatch, hk', hn]
    simp [hst]

/-- no configuration for the address pair: nothing is created (the exception escapes — see C17) -/
theorem c16_init_without_configuration (H : Handlers τ) (t t' : τ) (c : Ctl) (now : Nat) (h : Header) (p : Option Msg) (me peer : Bytes)
    (hk : h.exch = 34 ∧ h.isResp = false) (hn : H.newSa t now false h.spiI me peer = (t', none)) :
    (dispatch H t c now (some h) p me peer).2.ctl = c := by
  simp [dispatch, hk.1, hk.2, hn]

/-- a kernel expiry notice goes to the first IKE_SA that tracks the SPI (inbound or outbound); none ⇒ nothing happens -/
theorem c16_expire_unknown (H : Handlers τ) (t : τ) (c : Ctl) (now : Nat) (spi : Bytes) (hard : Bool)
    (hu : ∀ s ∈ c.sas, ∀ ch ∈ s.core.children, ch.inSpi ≠ spi ∧ ch.outSpi ≠ spi) :
    ctlExpire H t c now spi hard = (t, { ctl := c }) := by
  have hnone : (c.sas.findIdx? fun s => s.core.children.any fun ch => decide (ch.inSpi = spi) || decide (ch.outSpi = spi)) = none := by
    rw [List.findIdx?_eq_none_iff]
    intro s hs
    simp only [Bool.not_eq_true, List.any_eq_false, Bool.or_eq_true, decide_eq_true_eq, not_or]
    intro ch hch
    exact hu s hs ch hch
  simp only [ctlExpire, Bool.decide_or]
  rw [hnone]

/-- the status query reports exactly the table as it is before the timer sweeps of that iteration -/
theorem c16_status_is_table (H : Handlers τ) (t : τ) (c : Ctl) (now : Nat) :
    (loopIter H t c now { control := true }).2.status = some c.sas := by
  simp only [loopIter, Bool.false_and, Bool.or_false, List.append_nil, Nat.add_zero]
  simp only [Bool.false_eq_true, if_false, or_false]
  split <;> (try split) <;> (try split) <;> simp_all

/-! ### the table over whole histories of the whole model (shell + concrete handlers)

  A by-product of the C10 history theorem (Proofs/WholeSad2.lean): its invariant keeps the SPIs of all table entries and of all pending
  successors pairwise different.  Hence, for every history — rekeys, retransmitted rekey and delete messages, simultaneous initiations,
  any datagram contents — no IKE_SA is ever listed twice and a successor is registered exactly once. -/

theorem c16_whole_model_never_lists_an_ike_sa_twice (evs : List (Nat × LoopEv)) (w : XWorld) (c : Ctl) (h0 : Sync2 (w, c))
    (hstart : AllListed c.sas) (hev : ∀ x ∈ evs, EvCoherent x.2) (hclash : (wholeRun2 (w, c) evs).1.clash = false) :
    ((wholeRun2 (w, c) evs).2.sas.map (·.core.mySpi)).Nodup ∧
    (∀ s ∈ (wholeRun2 (w, c) evs).2.sas, ¬ inPost s.core.st → ∀ n, s.succ = some n →
      n.mySpi ∉ (wholeRun2 (w, c) evs).2.sas.map (·.core.mySpi)) := by
  rcases (wholeRun2_sync evs (w, c) ⟨h0, hstart⟩ hev).1 with h | h
  · rw [hclash] at h; cases h
  · have hnd := h.spis
    constructor
    · unfold allSpis at hnd
      have hsub : ((wholeRun2 (w, c) evs).2.sas.map (·.core.mySpi)).Sublist
          ((wholeRun2 (w, c) evs).2.sas.flatMap fun s => s.core.mySpi :: pendSpi s) := by
        induction (wholeRun2 (w, c) evs).2.sas with
        | nil => exact List.Sublist.slnil
        | cons s rest ih =>
          simp only [List.map_cons, List.flatMap_cons, List.cons_append]
          exact List.Sublist.cons₂ _ ((ih).trans (List.sublist_append_right _ _))
      exact hnd.sublist hsub
    · -- a pending successor's SPI is none of the table's: the two occurrences in `allSpis` would be a duplicate
      intro s hs hnp n hn hin
      obtain ⟨x, hx, hxs⟩ := List.mem_map.mp hin
      generalize (wholeRun2 (w, c) evs).2.sas = tbl at hs hx hnd
      induction tbl with
      | nil => cases hs
      | cons y rest ih =>
        rw [allSpis_cons, List.nodup_append] at hnd
        have hpend : n.mySpi ∈ pendSpi s := by unfold pendSpi; rw [if_neg hnp, hn]; exact List.mem_singleton.mpr rfl
        rcases List.mem_cons.mp hs with rfl | hs'
        · rcases List.mem_cons.mp hx with rfl | hx'
          · have := hnd.1
            rw [List.nodup_cons] at this
            exact this.1 (hxs ▸ hpend)
          · exact hnd.2.2 n.mySpi (List.mem_cons_of_mem _ hpend) _ (mem_allSpis_core hx') hxs.symm
        · rcases List.mem_cons.mp hx with rfl | hx'
          · exact hnd.2.2 x.core.mySpi (List.mem_cons_self ..) _ (mem_allSpis_pend hs' hnp hn) hxs
          · exact ih hs' hx' hnd.2.1

end PyIkev2.Props.C16
