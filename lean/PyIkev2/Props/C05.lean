/-
  C05 — wire encoding round-trips; unknown payloads; exact end of chain.
  Property theorems only; helper lemmas are in Proofs/CodecRoundtrip.lean.
-/
import PyIkev2.Proofs.CodecRoundtrip

namespace PyIkev2.Props.C05
open PyIkev2 PyIkev2.Impl

/-- tie to the source: the format string of every `unpack_from` site is the one the model transcribes -/
theorem c05_formats_from_source :
    Gen.Codec.fmt_msg_hdr = ">8s8s4B2L" ∧ Gen.Codec.fmt_chain_hdr = ">BBH" ∧ Gen.Codec.fmt_ke = ">2H" ∧
    Gen.Codec.fmt_transform_hdr = ">BBH" ∧ Gen.Codec.fmt_transform_attr = ">HH" ∧
    Gen.Codec.fmt_proposal_hdr = ">BBBB" ∧ Gen.Codec.fmt_proposal_thdr = ">BBH" ∧ Gen.Codec.fmt_sa_phdr = ">BBH" ∧
    Gen.Codec.fmt_notify = ">BBH" ∧ Gen.Codec.fmt_id = ">B3s" ∧ Gen.Codec.fmt_auth = ">B3s" ∧
    Gen.Codec.fmt_ts_hdr = ">B3s" ∧ Gen.Codec.fmt_ts_lenhdr = ">HH" ∧ Gen.Codec.fmt_ts_sel = ">BBHHH" ∧
    Gen.Codec.fmt_delete = ">BBH" := by decide

/-- tie to the source: `pack` formats of every `to_bytes`, in order -/
theorem c05_pack_formats_from_source :
    Gen.Codec.packfmts =
      [("PayloadKE.to_bytes", [">2H"]), ("Transform.to_bytes", [">BBH", ">HH"]),
       ("Proposal.to_bytes", [">BBBB", ">BBH"]), ("PayloadSA.to_bytes", [">BBH"]),
       ("PayloadNOTIFY.from_exception", [">H"]), ("PayloadNOTIFY.to_bytes", [">BBH"]),
       ("PayloadID.to_bytes", [">BBH"]), ("PayloadAUTH.to_bytes", [">BBH"]),
       ("TrafficSelector.to_bytes", ["'>BBHHH{0}s{0}s'.format(addr_len)"]), ("PayloadTS.to_bytes", [">BBH"]),
       ("PayloadSK.generate", [">B"]), ("PayloadDELETE.to_bytes", [">BBH"]),
       ("Message._payloads_to_bytes", [">BBH"]), ("Message.to_bytes", [">L", ">8s8s4B2L", "f'>{len(checksum)}s'"])] := by
  decide

/-- tie to the source: the payload classes the parser knows, by payload type number -/
theorem c05_payload_table_from_source :
    Gen.Codec.type2payload =
      [(33, "PayloadSA"), (34, "PayloadKE"), (35, "PayloadIDi"), (36, "PayloadIDr"), (39, "PayloadAUTH"),
       (40, "PayloadNONCE"), (43, "PayloadVENDOR"), (41, "PayloadNOTIFY"), (44, "PayloadTSi"), (45, "PayloadTSr"),
       (46, "PayloadSK"), (42, "PayloadDELETE")] ∧ Gen.Codec.nonce_bounds = [16, 256] := by decide

/-- Every well-formed cleartext message (any header, any list of SA / KE / IDi / IDr / AUTH /
    NONCE / NOTIFY / DELETE / VENDOR / TSi / TSr payloads, nested proposals and transforms,
    no size bound) parses back to exactly the same content. -/
theorem c05_roundtrip (m : Msg) (h : m.WfClear) : parseMsg (encMsg m none) false none = .ok m :=
  parseMsg_enc_clear m h

/-- per payload class: parsing the serialised body returns the body -/
theorem c05_body_roundtrip (pt : Nat) (b : Body) (hw : b.Wf) (ht : b.typeOk pt) :
    parseBody pt (encBody b) = some (.ok (unSK b)) := parseBody_enc pt b hw ht

/-- A payload chain followed by any extra octets is rejected: the chain must end exactly
    at the end of the data. -/
theorem c05_chain_exact_extension (ps : List Payload) (h : chainWf ps) (extra : Bytes) (hne : extra ≠ []) :
    parseChain ((encChain ps ++ extra).length + 1) (encChain ps ++ extra) (firstType ps) [] = .invalidSyntax := by
  have := parseChain_enc_tail ps h extra ((encChain ps ++ extra).length + 1) []
    (by have := encChain_length_ge ps; simp only [List.length_append]; omega)
  simpa [hne] using this

/-- An unknown, non-critical payload is skipped: the parser continues with what follows it
    as if it had not been there. -/
theorem c05_skip_noncritical (fuel : Nat) (u next critByte l1 l2 : Nat) (body tail : Bytes) (acc : List Payload)
    (hu : u ≠ 0) (hunk : ∀ d, parseBody u d = none) (hc : critByte < 128)
    (hl : l1 * 256 + l2 = body.length + 4) :
    parseChain (fuel + 1) (next :: critByte :: l1 :: l2 :: (body ++ tail)) u acc = parseChain fuel tail next acc := by
  conv => lhs; unfold parseChain
  simp only [hu, if_false, List.length_cons, List.length_append, u8_zero, u8_one, u16_two, hl]
  rw [need_ok _ _ _ (by omega), Res.bind_ok]
  have h1 : ¬ (Gen.Codec.chain_minlen_check = true ∧ body.length + 4 < 4) := by omega
  have h2 : Nat.ble 128 critByte = false := by
    cases hb : Nat.ble 128 critByte with
    | false => rfl
    | true => have := Nat.le_of_ble_eq_true hb; omega
  have h3 : ¬ (body.length + 4 > body.length + tail.length + 1 + 1 + 1 + 1) := by omega
  simp only [h1, if_false, hunk, h2, Bool.false_eq_true, h3, drop_hdr4]

/-- An unknown payload with the critical bit set is rejected as such (before anything
    that follows it is looked at). -/
theorem c05_reject_critical (fuel : Nat) (u next critByte l1 l2 : Nat) (rest : Bytes) (acc : List Payload)
    (hu : u ≠ 0) (hunk : ∀ d, parseBody u d = none) (hc : 128 ≤ critByte) (hl : 4 ≤ l1 * 256 + l2) :
    parseChain (fuel + 1) (next :: critByte :: l1 :: l2 :: rest) u acc = .unsupportedCritical := by
  unfold parseChain
  simp only [hu, if_false, List.length_cons, u8_zero, u8_one, u16_two]
  rw [need_ok _ _ _ (by omega), Res.bind_ok]
  have h1 : ¬ (Gen.Codec.chain_minlen_check = true ∧ l1 * 256 + l2 < 4) := by omega
  have h2 : Nat.ble 128 critByte = true := Nat.ble_eq_true_of_le hc
  simp only [h1, if_false, hunk, h2, if_true]

/-- the payload types the parser does not know really are unknown to the model (47 = CP, 48 = EAP, 99, 200 …) -/
theorem c05_unknown_types (u : Nat) (h : u < 33 ∨ u = 37 ∨ u = 38 ∨ 46 < u) (d : Bytes) : parseBody u d = none := by
  unfold parseBody
  have : ¬ u = 33 ∧ ¬ u = 34 ∧ ¬ (u = 35 ∨ u = 36) ∧ ¬ u = 39 ∧ ¬ u = 40 ∧ ¬ u = 41 ∧ ¬ u = 42 ∧ ¬ u = 43 ∧
      ¬ (u = 44 ∨ u = 45) ∧ ¬ u = 46 := by omega
  simp [this]

/-! non-vacuity -/

def sampleProposal : Proposal :=
  { num := 1, proto := 1, spi := [],
    transforms := [{ ttype := 1, id := 12, keylen := some 256 }, { ttype := 2, id := 5, keylen := none }] }

def sampleSel : TS :=
  { tsType := 7, ipProto := 6, startPort := 0, endPort := 65535, startAddr := [10, 0, 0, 1], endAddr := [10, 0, 0, 9] }

def sampleMsg : Msg :=
  { hdr := { spiI := [1, 2, 3, 4, 5, 6, 7, 8], spiR := [0, 0, 0, 0, 0, 0, 0, 0], major := 2, minor := 0, exch := 34,
             isResp := false, higher := false, isInit := true, msgId := 0 },
    payloads := [
      { ptype := 33, critical := false, body := .sa [sampleProposal] },
      { ptype := 40, critical := false, body := .nonce (List.replicate 16 7) },
      { ptype := 44, critical := false, body := .ts [sampleSel] },
      { ptype := 42, critical := false, body := .delete 3 [[1, 2, 3, 4], [5, 6, 7, 8]] }],
    enc := [], iv := none }

set_option linter.unusedSimpArgs false in
/-- the sample message (SA with nested proposal/transforms, NONCE, TSi, DELETE with two SPIs)
    satisfies the hypothesis of `c05_roundtrip` -/
example : sampleMsg.WfClear := by
  simp +decide [Msg.WfClear, Header.Wf, sampleMsg, chainWf, Payload.Wf, Body.Wf, Body.typeOk, Body.isSK, Proposal.Wf,
    Transform.Wf, sampleProposal, sampleSel, encBody, encProposals, encProposal, encTransforms, encTransform, encSel, w16]

example : parseMsg (encMsg sampleMsg none) false none = .ok sampleMsg := by decide +kernel
example : 100 < (encMsg sampleMsg none).length := by decide +kernel

end PyIkev2.Props.C05
