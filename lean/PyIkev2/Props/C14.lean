/-
  C14 — netlink/XFRM requests are byte-exact for the kernel ABI and say what was meant.
-/
import PyIkev2.Proofs.Netlink
import PyIkev2.Spec.Uapi

namespace PyIkev2.Props.C14
open PyIkev2 PyIkev2.Impl

def strip (l : List (String × Nat × Nat × Bool)) : List (Nat × Nat × Bool) := l.map fun e => e.2

/-- structure number `id` (source order), laid out by the ctypes algorithm from the `_fields_`
    extracted from the current source, has the offsets, sizes, byte order and total size of the
    kernel structure `spec` -/
def layoutMatches (id : Nat) (spec : List (String × Nat × Nat × Bool)) (size : Nat) : Prop :=
  offsetsN (layoutN id) 0 = strip spec ∧ totalSize (layoutN id) = size

instance (id spec size) : Decidable (layoutMatches id spec size) := by
  unfold layoutMatches; exact inferInstance

instance (t : FT) (v : Val) : Decidable (ValOk t v) := by
  cases t <;> cases v <;> unfold ValOk <;> exact inferInstance

/-- tie to the source: the ctypes structures, in source order (the index is what `layoutN` takes) -/
theorem c14_struct_names_from_source :
    Gen.Layouts.structNames =
      ["NetlinkHeader", "NetlinkErrorMsg", "XfrmAddress", "XfrmSelector", "XfrmUserPolicyId", "XfrmLifetimeCfg",
       "XfrmLifetimeCur", "XfrmUserPolicyInfo", "XfrmUserSaFlush", "XfrmId", "XfrmUserTmpl", "XfrmStats",
       "XfrmUserSaInfo", "XfrmAlgo", "XfrmUserSaId", "XfrmUserAcquire", "XfrmUserExpire"] := by decide

/-- Every ctypes structure of xfrm.py / netlink.py has the layout of its kernel UAPI counterpart
    (<linux/netlink.h>, <linux/xfrm.h>). -/
theorem c14_layouts :
    layoutMatches 0 Spec.Uapi.nlmsghdr Spec.Uapi.nlmsghdr_size ∧
    layoutMatches 1 Spec.Uapi.nlmsgerr Spec.Uapi.nlmsgerr_size ∧
    layoutMatches 3 Spec.Uapi.wrap_sel Spec.Uapi.wrap_sel_size ∧
    layoutMatches 4 Spec.Uapi.xfrm_userpolicy_id Spec.Uapi.xfrm_userpolicy_id_size ∧
    layoutMatches 7 Spec.Uapi.wrap_pol Spec.Uapi.wrap_pol_size ∧
    layoutMatches 8 Spec.Uapi.xfrm_usersa_flush Spec.Uapi.xfrm_usersa_flush_size ∧
    layoutMatches 9 Spec.Uapi.wrap_id Spec.Uapi.wrap_id_size ∧
    layoutMatches 10 Spec.Uapi.xfrm_user_tmpl Spec.Uapi.xfrm_user_tmpl_size ∧
    layoutMatches 12 Spec.Uapi.wrap_sa Spec.Uapi.wrap_sa_size ∧
    layoutMatches 14 Spec.Uapi.xfrm_usersa_id Spec.Uapi.xfrm_usersa_id_size ∧
    layoutMatches 15 Spec.Uapi.xfrm_user_acquire Spec.Uapi.xfrm_user_acquire_size ∧
    layoutMatches 16 Spec.Uapi.xfrm_user_expire Spec.Uapi.xfrm_user_expire_size := by
  decide +kernel

/-- `xfrm_algo` is sent with a fixed 64-octet key tail: name and key length sit at the kernel's
    offsets and the key starts where the kernel's flexible array starts -/
theorem c14_algo_layout :
    (offsetsN (layoutN 13) 0).take 2 = (strip Spec.Uapi.xfrm_algo).take 2 ∧
    ((offsetsN (layoutN 13) 0).drop 2).map (·.1) = ((strip Spec.Uapi.xfrm_algo).drop 2).map (·.1) ∧
    totalSize (layoutN 13) = Spec.Uapi.xfrm_algo_size + 64 := by decide +kernel

/-- Decoding a structure with a layout returns exactly the values it was encoded with —
    for every field list, all in-range values, whatever follows in the message.  With
    `c14_layouts` (ctypes layout = kernel layout) this says: the kernel reads from a request
    the parameters the daemon put in, and the daemon reads from an event the values the
    kernel put in. -/
theorem c14_record_roundtrip (fs : List (FT × Val)) (h : ∀ p ∈ fs, ValOk p.1 p.2) (tail : Bytes) :
    decFields (fs.map (·.1)) (encFields fs ++ tail) = fs.map (·.2) ∧
    (encFields fs).length = totalSize (fs.map (·.1)) :=
  ⟨decFields_encFields fs h tail, encFields_length fs⟩

/-- network order for ports: a 16-bit big-endian field holds the port's high octet first -/
theorem c14_port_network_order (p : Nat) (h : p < 65536) :
    encField (.int 2 true) (.n p) = [p / 256, p % 256] ∧ encField (.int 2 false) (.n p) = [p % 256, p / 256] := by
  constructor
  · simp [encField, wrBE]; omega
  · simp [encField, wrLE, wrBE]; omega

/-- tie to the source: message types, flags and attribute codes equal the kernel's -/
theorem c14_constants_from_source :
    (Spec.Uapi.consts.all fun c => constOf c.1 = c.2) = true := by decide

/-- tie to the source: the attribute walk of kernel events steps over the padding (NLA_ALIGN), so that an attribute is found
    whatever lengths the attributes before it have -/
theorem c14_attributes_aligned_from_source : Gen.Layouts.attrAligned = true := by decide

/-- an attribute walk that pads finds the template behind an attribute of any length: after an attribute of `len` octets
    (4 ≤ len) the walk continues exactly at the next multiple of four -/
theorem c14_attribute_step (fuel len ty : Nat) (hd rest : Bytes) (acc : Option (List (String × Val)))
    (hl : hd.length = (len + 3) / 4 * 4) (h4 : 4 ≤ len) (hlen : rdLE (hd.take 2) = len) (hty : rdLE ((hd.drop 2).take 2) = ty)
    (hne : ty ≠ constOf "XFRMA_TMPL") (hr : rest.length > 0) :
    parseNlAttrs (fuel + 1) (hd ++ rest) acc = parseNlAttrs fuel rest acc := by
  have h2 : 2 ≤ hd.length := by omega
  have htake : (hd ++ rest).take 2 = hd.take 2 := by rw [List.take_append_of_le_length h2]
  have hdrop : ((hd ++ rest).drop 2).take 2 = (hd.drop 2).take 2 := by
    rw [List.drop_append_of_le_length h2, List.take_append_of_le_length (by simp; omega)]
  have hbig : (hd ++ rest).length > 4 := by simp; omega
  have hz : len ≠ 0 := by omega
  conv => lhs; unfold parseNlAttrs
  simp only [hbig, if_true, htake, hdrop, hlen, hty, c14_attributes_aligned_from_source, hne, if_false, hz]
  rw [← hl, List.drop_left]

/-- tie to the source: which argument of `create_sa` / `create_policy` / `delete_sa` feeds which field -/
theorem c14_flows_from_source :
    (Gen.Layouts.flows.map fun f => (f.1, f.2.1.map fun c => (c.2.1, c.2.2.map (·.1)))) =
      [("Xfrm.create_policy",
          [("XfrmUserPolicyInfo", ["sel.family", "sel.daddr", "sel.saddr", "sel.dport", "sel.sport", "sel.dport_mask",
              "sel.sport_mask", "sel.prefixlen_d", "sel.prefixlen_s", "sel.proto", "dir", "index", "action", "lft"]),
           ("XfrmUserTmpl", ["id.daddr", "id.proto", "family", "saddr", "aalgos", "ealgos", "calgos", "mode"])]),
       ("Xfrm.create_sa",
          [("XfrmUserSaInfo", ["sel.family", "sel.daddr", "sel.saddr", "sel.dport", "sel.sport", "sel.dport_mask",
              "sel.sport_mask", "sel.prefixlen_d", "sel.prefixlen_s", "sel.proto", "id.daddr", "id.proto", "id.spi",
              "family", "saddr", "mode", "lft"]),
           ("attr", ["value"]), ("attr", ["value"])]),
       ("Xfrm.delete_sa", [("XfrmUserSaId", ["daddr", "family", "proto", "spi"])]),
       ("Xfrm.flush_policies", [("XfrmUserSaFlush", ["proto"])]),
       ("Xfrm.flush_sas", [("XfrmUserSaFlush", ["proto"])])] := by decide

/-- every field of a request structure decodes to the value the builder put in (zero when the
    builder left it unset), for every layout and every value assignment that fits the fields,
    whatever follows the structure in the message (attributes, next message) -/
theorem c14_struct_decodes (layout : List (String × FT)) (vals : List (String × Val))
    (h : ∀ p ∈ fill layout vals, ValOk p.1 p.2) (tail : Bytes) :
    decFields (layout.map (·.2)) (encFields (fill layout vals) ++ tail) =
      layout.map (fun e => (lookupPath vals e.1).getD (zeroVal e.2)) := by
  have h1 : (fill layout vals).map (·.1) = layout.map (·.2) := by simp [fill]
  have h2 : (fill layout vals).map (·.2) = layout.map (fun e => (lookupPath vals e.1).getD (zeroVal e.2)) := by
    simp [fill]
  rw [← h1, decFields_encFields _ h tail, h2]

/-- reply handling: an NLMSG_ERROR reply carrying a non-zero code makes the request fail -/
theorem c14_reply_error (fuel : Nat) (data : Bytes) (h0 : data.length ≠ 0)
    (ht : getN (parseStruct "NetlinkHeader" data) "type" = constOf "NLMSG_ERROR")
    (he : getN (parseStruct "NetlinkErrorMsg" (data.drop 16)) "error" ≠ 0) :
    replyOutcome (fuel + 1) data = 1 := by
  simp [replyOutcome, h0, ht, he]

/-- an ack (NLMSG_ERROR with code 0) that is the whole reply makes the request succeed -/
theorem c14_reply_ack (fuel : Nat) (data : Bytes)
    (he : getN (parseStruct "NetlinkErrorMsg" (data.drop 16)) "error" = 0)
    (hd : constOf "NLMSG_ERROR" ≠ constOf "NLMSG_DONE")
    (ht : getN (parseStruct "NetlinkHeader" data) "type" = constOf "NLMSG_ERROR")
    (hl : data.length ≤ getN (parseStruct "NetlinkHeader" data) "length") :
    replyOutcome (fuel + 2) data = 0 := by
  by_cases h0 : data.length = 0
  · simp [replyOutcome, h0]
  · have : (data.drop (getN (parseStruct "NetlinkHeader" data) "length")).length = 0 := by
      simp; omega
    simp [replyOutcome, h0, ht, he, hd, this]

/-! non-vacuity -/
example : ValOk (.int 2 true) (.n 500) ∧ ValOk (.raw 4) (.b [1, 2, 3, 4]) := by decide
example : decFields [.int 2 true, .pad 2, .raw 4] (encFields [(.int 2 true, .n 500), (.pad 2, .z), (.raw 4, .b [1, 2, 3, 4])])
    = [.n 500, .z, .b [1, 2, 3, 4]] := by decide +kernel

end PyIkev2.Props.C14
