/-
  C03 — unprotected or forged messages cannot affect an IKE_SA that has keys.

  Composition of the codec model (what `Message.parse` accepts under a key context, C07) with the
  shell model (what `process_message` does with the parse outcome), for EVERY byte string, EVERY
  state of the IKE_SA, every lawful key context and every handler instance.
-/
import PyIkev2.Proofs.Machine
import PyIkev2.Props.C07

namespace PyIkev2.Props.C03
open PyIkev2 PyIkev2.Impl

variable {τ : Type}

/-- `IkeSa.process_message(data)`: parse under the peer's keys, then the shell -/
def processDatagram (H : Handlers τ) (t : τ) (s : Sa) (now : Nat) (peerKeys : CryptoCtx) (d : Bytes) : τ × StepOut :=
  processMessage H t s now (match parseMsg d false (some peerKeys) with | .ok m => some m | _ => none)

/-- what the parser rejects changes nothing and elicits nothing -/
theorem c03_rejected_changes_nothing (H : Handlers τ) (t : τ) (s : Sa) (now : Nat) :
    processMessage H t s now none = (t, { sa := s, out := none, nl := [], escaped := false, ran := 0 }) := rfl

/-- cleartext IKE_SA_INIT to an IKE_SA that has keys: nothing changes, no handler runs, no netlink request;
    the only possible reply is the stored response, and only for a request with the previous Message ID -/
theorem c03_cleartext_init_after_keys (H : Handlers τ) (t : τ) (s : Sa) (now : Nat) (m : Msg)
    (hk : s.core.keyed = true) (hex : m.hdr.exch = 34) :
    let r := processMessage H t s now (some m)
    r.1 = t ∧ r.2.sa = s ∧ r.2.nl = [] ∧ r.2.ran = 0 ∧ r.2.escaped = false ∧
      (r.2.out = none ∨ (r.2.out = s.core.lastResp ∧ m.hdr.isResp = false ∧ m.hdr.msgId + 1 = s.core.peerId)) := by
  have hg : gate s.core m = .drop ∨
      (gate s.core m = .cached ∧ m.hdr.isResp = false ∧ m.hdr.msgId + 1 = s.core.peerId) := by
    unfold gate
    by_cases h1 : m.hdr.isInit = s.core.isInit
    · simp [h1]
    · by_cases h2 : ¬ m.hdr.isResp = true ∧ m.hdr.msgId + 1 = s.core.peerId
      · right
        have h2a : m.hdr.isResp = false := by simpa using h2.1
        simp [h1, hk, hex, h2a, h2.2]
      · left
        have h2b : ¬ (m.hdr.isResp = false ∧ m.hdr.msgId + 1 = s.core.peerId) := by
          intro ⟨a, b⟩; exact h2 ⟨by simp [a], b⟩
        simp [h1, hk, hex]
        intro a b; exact h2b ⟨a, b⟩
  simp only [processMessage]
  rcases hg with hg | ⟨hg, h2, h3⟩
  · rw [hg]; simp
  · rw [hg]; simp [h2, h3]

/-- **Non-interference.**  An IKE_SA that has keys, in any state; any datagram whose trailing checksum is not
    the MAC of the preceding octets under the peer's integrity key (forged cleartext of any exchange type, a
    bit-flipped or truncated ciphertext, a message under another IKE_SA's keys, its own message reflected —
    everything the peer did not protect): the IKE_SA is exactly as before — state, both counters, CHILD_SAs,
    liveness timer, cache —, no handler runs, no netlink request is issued, no exception escapes, and nothing
    is sent except possibly the stored response to a retransmitted IKE_SA_INIT request. -/
theorem c03_noninterference (H : Handlers τ) (t : τ) (s : Sa) (now : Nat) (peerKeys : CryptoCtx) (d : Bytes)
    (hk : s.core.keyed = true)
    (hforged : peerKeys.mac (dropLast d peerKeys.icvLen) ≠ takeLast d peerKeys.icvLen) :
    let r := processDatagram H t s now peerKeys d
    r.1 = t ∧ r.2.sa = s ∧ r.2.nl = [] ∧ r.2.ran = 0 ∧ r.2.escaped = false ∧
      (r.2.out = none ∨ r.2.out = s.core.lastResp) := by
  simp only [processDatagram]
  cases hp : parseMsg d false (some peerKeys) with
  | ok m =>
    have hex : m.hdr.exch = 34 := by
      by_cases hex : m.hdr.exch = 34
      · exact hex
      · exact absurd (C07.c07_accept_requires_valid_checksum d peerKeys m hp hex) hforged
    obtain ⟨a, b, c, e, f, g⟩ := c03_cleartext_init_after_keys H t s now m hk hex
    refine ⟨a, b, c, e, f, ?_⟩
    rcases g with g | g
    · exact Or.inl g
    · exact Or.inr g.1
  | invalidSyntax => exact ⟨rfl, rfl, rfl, rfl, rfl, Or.inl rfl⟩
  | unsupportedCritical => exact ⟨rfl, rfl, rfl, rfl, rfl, Or.inl rfl⟩
  | py e => exact ⟨rfl, rfl, rfl, rfl, rfl, Or.inl rfl⟩
  | hang => exact ⟨rfl, rfl, rfl, rfl, rfl, Or.inl rfl⟩

/-- corollary: a message protected under other keys (another IKE_SA's, or this IKE_SA's own sending keys when
    its own message is reflected) is such a datagram whenever the two MACs differ on it -/
theorem c03_other_keys (H : Handlers τ) (t : τ) (s : Sa) (now : Nat) (peerKeys otherKeys : CryptoCtx) (signed : Bytes)
    (hk : s.core.keyed = true) (hlen : (otherKeys.mac signed).length = peerKeys.icvLen)
    (hsep : peerKeys.mac signed ≠ otherKeys.mac signed) :
    (processDatagram H t s now peerKeys (signed ++ otherKeys.mac signed)).2.sa = s := by
  have := c03_noninterference H t s now peerKeys (signed ++ otherKeys.mac signed) hk (by
    rw [← hlen, dropLast_append, takeLast_append]; exact hsep)
  exact this.2.1

/-- at the controller: a forged datagram leaves every IKE_SA other than the one it is routed to untouched as
    well (routing theorem C16) — stated here for the routed one: the table entry is written back unchanged -/
theorem c03_table_entry_unchanged (sas : List Sa) (i : Nat) (s : Sa) (hi : sas[i]? = some s)
    (hst : s.core.st ≠ stDELETED) (hrk : s.core.st ≠ stREKEYED ∧ s.core.st ≠ stDEL_AFTER_REKEY_IKE_SA_REQ_SENT) :
    afterMessage sas i s = (sas, []) := by
  have hlt : i < sas.length := by
    rcases Nat.lt_or_ge i sas.length with h | h
    · exact h
    · rw [List.getElem?_eq_none h] at hi; exact absurd hi (by simp)
  have hget : sas[i] = s := by
    have := List.getElem?_eq_getElem hlt
    rw [this] at hi
    exact Option.some.inj hi
  have hset : sas.set i s = sas := by
    rw [← hget]; exact List.set_getElem_self hlt
  simp [afterMessage, hst, hrk.1, hrk.2, hset]

/-! non-vacuity: the toy key context is a lawful context; a keyed IKE_SA and a forged datagram exist -/
example : ∃ (c : CryptoCtx) (d : Bytes), c.mac (dropLast d c.icvLen) ≠ takeLast d c.icvLen :=
  ⟨Toy.ctx 16 12, List.replicate 40 0, by decide⟩

end PyIkev2.Props.C03
