/-
  C20 — secrets appear in the log only in verbose (debug) mode.

  The theorems quantify over the COMPLETE table of logging call sites and `raise` sites of the repository, regenerated
  from the source on every run with an abstract class per interpolated expression (extract/gen_log.py).  What is trusted is
  that classification; the C20 record search on the real code validates it on every explored history.
-/
import PyIkev2.Gen.Log

namespace PyIkev2.Props.C20
open PyIkev2

def INFO : Nat := 20
def keyMaterial : Nat := 3
def exceptionText : Nat := 2

/-- no call site at level INFO or above interpolates key material (PSK, SKEYSEED, SK_*, KEYMAT, DH shared secrets, private keys,
    whole credential / keyring / configuration objects, raw netlink request octets) -/
theorem c20_no_secret_at_info :
    (Gen.Log.sites.all fun s => decide (s.2.1 < INFO) || !(s.2.2.contains keyMaterial)) = true := by decide

/-- … and the text of an exception, which several sites log at WARNING / ERROR, never carries key material either: no
    `raise X(message)` site of the repository interpolates any -/
theorem c20_exception_messages_clean :
    (Gen.Log.raises.all fun r => !(r.2.2.contains keyMaterial)) = true := by decide

/-- the root level is DEBUG exactly when `--verbose` is given (else INFO), as the command-line help promises -/
theorem c20_verbosity : Gen.Log.verbosity = "logging.DEBUG if args.verbose else logging.INFO" := by decide

/-- non-vacuity: the table is not empty, it does contain sites that interpolate key material (all of them at DEBUG), and
    sites at ERROR that interpolate exception text -/
theorem c20_table_is_meaningful :
    Gen.Log.sites.length ≥ 60 ∧ Gen.Log.raises.length ≥ 40 ∧
    (Gen.Log.sites.any fun s => s.2.2.contains keyMaterial && decide (s.2.1 = 10)) = true ∧
    (Gen.Log.sites.any fun s => s.2.2.contains exceptionText && decide (s.2.1 ≥ 30)) = true := by decide

end PyIkev2.Props.C20
