/-
  C10 — the kernel SAD always equals the CHILD_SAs the daemon tracks.

  The shell-level part of the property, for EVERY instance of the delegated handlers:
  removing an IKE_SA (delete exchange, fatal error, retransmission time-out) issues DELSA for
  exactly the inbound and outbound SA of every CHILD_SA it tracks and for nothing else, and
  applied to a kernel that holds them it removes exactly those entries; registering a rekeyed
  successor touches neither the kernel nor the CHILD_SA lists.  The per-exchange part (a handler
  installs exactly what it starts tracking) is the handler contract `installsWhatItTracks`,
  evaluated on the real code after every event by the C10 oracle.
-/
import PyIkev2.Proofs.Machine
import PyIkev2.Proofs.HandlersKernel
import PyIkev2.Proofs.WholeSad
import PyIkev2.Proofs.HandlersRekey
import PyIkev2.Proofs.WholeSad2

namespace PyIkev2.Props.C10
open PyIkev2 PyIkev2.Impl

/-- a kernel SAD: the set of (destination address, IPsec protocol, SPI) triples, as a list -/
abbrev Sad := List (Bytes × Nat × Bytes)

/-- effect of one netlink request on the SAD (NEWSA of a present key and DELSA of an absent one are refused) -/
def applyOp (sad : Sad) : NlOp → Sad
  | .newSa d p s => if sad.contains (d, p, s) then sad else sad ++ [(d, p, s)]
  | .delSa d p s => sad.filter (· ≠ (d, p, s))
  | .flushSa => []
  | _ => sad

def applyOps (sad : Sad) (ops : List NlOp) : Sad := ops.foldl applyOp sad

/-- the SAD entries one IKE_SA's CHILD_SAs stand for: outbound towards the peer, inbound towards us -/
def keysOf (s : SaCore) : Sad :=
  s.children.flatMap fun c => [(s.peerAddr, ipsecProto c.proto, c.outSpi), (s.myAddr, ipsecProto c.proto, c.inSpi)]

/-- `delete_child_sas` asks the kernel to delete exactly the tracked pairs, outbound then inbound,
    in tracking order, and stops tracking them -/
theorem c10_removal_deletes_exactly_tracked (s : SaCore) :
    (deleteChildSas s).2 = (keysOf s).map (fun k => NlOp.delSa k.1 k.2.1 k.2.2) ∧ (deleteChildSas s).1.children = [] := by
  constructor
  · simp only [deleteChildSas, keysOf, delChildOps]
    induction s.children with
    | nil => rfl
    | cons c rest ih => simp [List.flatMap_cons, ih, delChildOps]
  · rfl

theorem applyOps_del (sad : Sad) (ks : Sad) :
    applyOps sad (ks.map fun k => NlOp.delSa k.1 k.2.1 k.2.2) = sad.filter (fun e => ¬ ks.contains e) := by
  induction ks generalizing sad with
  | nil =>
    simp only [applyOps, List.map_nil, List.foldl_nil]
    induction sad with
    | nil => rfl
    | cons a r ih =>
      simp only [List.contains_nil, Bool.false_eq_true, not_false_eq_true, decide_true, List.filter_cons_of_pos] at ih ⊢
      rw [← ih]
  | cons k rest ih =>
    simp only [applyOps, List.map_cons, List.foldl_cons] at ih ⊢
    rw [show applyOp sad (NlOp.delSa k.1 k.2.1 k.2.2) = sad.filter (· ≠ k) from rfl, ih, List.filter_filter]
    congr 1
    funext e
    by_cases h : e = k <;> simp [h]

/-- … so after an IKE_SA is removed the kernel holds nothing of what it tracked and everything else
    it held before (no other IKE_SA's SAs are touched) -/
theorem c10_teardown (s : SaCore) (sad : Sad) :
    applyOps sad (deleteChildSas s).2 = sad.filter (fun e => ¬ (keysOf s).contains e) := by
  rw [(c10_removal_deletes_exactly_tracked s).1, applyOps_del]

/-- controller, after a datagram: an IKE_SA that ended is taken out of the table and its pairs are
    deleted; one that did not end causes no netlink request at this level -/
theorem c10_after_message (sas : List Sa) (i : Nat) (s : Sa) :
    (s.core.st = stDELETED → (afterMessage sas i s).2 = (deleteChildSas s.core).2) ∧
    (s.core.st ≠ stDELETED → (afterMessage sas i s).2 = []) := by
  constructor
  · intro h; simp [afterMessage, h, stDELETED, stREKEYED, stDEL_AFTER_REKEY_IKE_SA_REQ_SENT]
  · intro h; simp [afterMessage, h]

/-- IKE_SA rekey: registering the successor emits no netlink request, and the successor is added with
    the CHILD_SA list the handlers gave it (the hand-over itself is the handlers' business) -/
theorem c10_rekey_handover_silent (sas : List Sa) (i : Nat) (s : Sa) (n : SaCore)
    (hs : s.core.st = stREKEYED ∨ s.core.st = stDEL_AFTER_REKEY_IKE_SA_REQ_SENT) (hn : s.succ = some n)
    (hnew : registered (sas.set i s) n = false) :
    (afterMessage sas i s).2 = [] ∧ (afterMessage sas i s).1 = sas.set i s ++ [{ core := n, succ := none }] := by
  have hd : s.core.st ≠ stDELETED := by rcases hs with h | h <;> simp [h, stREKEYED, stDELETED, stDEL_AFTER_REKEY_IKE_SA_REQ_SENT]
  simp [afterMessage, hs, hn, hd, hnew]

/-- the retransmission timer never touches CHILD_SAs or the kernel by itself: a time-out only marks
    the IKE_SA DELETED, and the sweep then deletes exactly its pairs (next theorem) -/
theorem c10_timeout_marks_only (s : Sa) (now : Nat) :
    (checkRetransmission s now).nl = [] ∧ (checkRetransmission s now).sa.core.children = s.core.children := by
  simp only [checkRetransmission]
  split
  · split
    · split <;> simp
    · simp
  · simp

/-- one step of the retransmission sweep on an IKE_SA whose budget is exhausted: it leaves the table
    and exactly its pairs are deleted -/
theorem c10_sweep_removes_with_sas (now fuel i : Nat) (sas : List Sa) (s : Sa) (sent : List (Bytes × Bytes × Msg)) (nl : List NlOp)
    (hi : sas[i]? = some s) (hesc : (checkRetransmission s now).escaped = false)
    (hdel : (checkRetransmission s now).sa.core.st = stDELETED) :
    sweepRtx now (fuel + 1) i sas sent nl =
      sweepRtx now fuel (i + 1)
        ((sas.set i { (checkRetransmission s now).sa with core := (deleteChildSas (checkRetransmission s now).sa.core).1 }).eraseIdx i)
        (sent ++ ((checkRetransmission s now).out.map fun m => (s.core.myAddr, s.core.peerAddr, m)).toList)
        (nl ++ (deleteChildSas (checkRetransmission s now).sa.core).2) := by
  simp [sweepRtx, hi, hesc, hdel]

/-! ### the handler contract the per-exchange code has to meet (checked on the real code by the oracle) -/

/-- a delegated call keeps "kernel = tracked" for its IKE_SA: applying the netlink requests it issued
    to a SAD that held exactly the keys tracked before yields exactly the keys tracked afterwards
    (of the IKE_SA and of its pending successor) -/
def installsWhatItTracks (before : Sa) (o : HOut) : Prop :=
  let track := fun (x : Sa) => keysOf x.core ++ (match x.succ with | some n => keysOf n | none => [])
  ∀ e, e ∈ applyOps (track before) o.nl ↔ e ∈ track o.sa

/-! non-vacuity -/

def demo : SaCore :=
  { st := stDELETED, isInit := true, mySpi := [1], peerSpi := [2], myId := 3, peerId := 0, keyed := true, lastResp := none,
    request := none, rtxAt := 0, rtx := 0, dpdAt := 0, rekeyAt := 0, deleteAt := 0, dpd := 0,
    children := [{ inSpi := [0xa], outSpi := [0xb], proto := 3 }, { inSpi := [0xc], outSpi := [0xd], proto := 2 }],
    pending := [], indices := [], myAddr := [10], peerAddr := [11], cookie := false }

example : applyOps (keysOf demo ++ [([9], 50, [0xe])]) (deleteChildSas demo).2 = [([9], 50, [0xe])] := by decide

/-! ### the handler contract, for the model of the real handlers (Model/Handlers.lean)

  The model kernel is part of the handler model: `trackChild` (create_child_sa + child_sas.append) and `untrackChild`
  (delete_child_sa + child_sas.remove) emit the netlink requests, and a ghost SAD follows the ones the kernel accepts —
  it refuses a key it already holds (EEXIST) and whatever the fault oracle says it refuses.  The harness compares that
  SAD with the model kernel's after every real handler call. -/

/-- **every handler, every generator**: the SAD after the call is what the emitted requests make of the SAD before it -/
theorem c10_concrete_requests_explain_the_sad (now : Nat) (m : Msg) (h : HM HRes)
    (hh : requestHandler now m = some h ∨ responseHandler now m = some h) (me : XSa) (succ : Option XSa) (tape : Tape) (sad : List Key) :
    (h { me := me, succ := succ, tape := tape, sad := sad }).2.sad =
      (h { me := me, succ := succ, tape := tape, sad := sad }).2.nl.foldl applyNl sad := by
  have hk : Keeps (OpsI sad) h := by
    rcases hh with hh | hh
    · exact requestHandler_o sad now m h hh
    · exact responseHandler_o sad now m h hh
  exact hk.keep { me := me, succ := succ, tape := tape, sad := sad } (by simp [OpsI])

/-- **requests** (IKE_SA_INIT, IKE_AUTH, INFORMATIONAL, CREATE_CHILD_SA for a CHILD_SA — new or rekey): if before the call the
    SAD is `base` (what belongs to others) plus the two keys of every CHILD_SA record of this IKE_SA, all different, then so it is
    after the call — whatever the request says, whatever the oracles answer, wherever the kernel refuses: a CHILD_SA is tracked
    exactly when the kernel holds both of its SAs, and a half-installed pair is rolled back -/
theorem c10_concrete_request_keeps_sad_equal_tracked (base : List Key) (now : Nat) (m : Msg) (h : HM HRes)
    (hh : requestHandler now m = some h) (hn : notIkeRekey m) (me : XSa) (succ : Option XSa) (tape : Tape) (sad : List Key)
    (hinv : SadI base me.core.myAddr me.core.peerAddr { me := me, succ := succ, tape := tape, sad := sad }) :
    let o := runH h me succ tape sad
    o.sad = o.nl.foldl applyNl sad ∧ (∀ e, e ∈ o.sad ↔ e ∈ base ∨ e ∈ keysX o.me) ∧ (base ++ keysX o.me).Nodup ∧
      o.me.core.children = o.me.ext.kids.map Child.ref :=
  runH_contract base h (fun a p => requestHandler_s base a p now m h hh hn) (fun sad0 => requestHandler_o sad0 now m h hh) me succ tape sad hinv

/-- **responses** to IKE_SA_INIT, IKE_AUTH, INFORMATIONAL and to a CREATE_CHILD_SA request for a CHILD_SA: likewise -/
theorem c10_concrete_response_keeps_sad_equal_tracked (base : List Key) (a p : Bytes) (m : Msg) (prev : Nat) :
    Keeps (SadI base a p) (processIkeSaInitResponse m) ∧ Keeps (SadI base a p) (processIkeAuthResponse m) ∧
    Keeps (SadI base a p) (childSaResponse prev m) ∧ Keeps (SadI base a p) (processInformationalResponse m) :=
  ⟨processIkeSaInitResponse_s base a p m, processIkeAuthResponse_s base a p m, childSaResponse_s base a p prev m,
   processInformationalResponse_s base a p m⟩

/-- **request generators** (ACQUIRE, EXPIRE, DPD, IKE_SA delete and rekey timers): none touches the kernel or the records -/
theorem c10_concrete_generators_keep_sad_equal_tracked (base : List Key) (a p : Bytes) (x y : TS) (i now : Nat) (c : ChildRef) (hard : Bool) :
    Keeps (SadI base a p) (genAcquireH x y i) ∧ Keeps (SadI base a p) (genExpireH c hard) ∧ Keeps (SadI base a p) generateDpdRequest ∧
    Keeps (SadI base a p) generateDeleteIkeSaRequest ∧ Keeps (SadI base a p) (generateRekeyIkeSaRequest now) :=
  ⟨genAcquireH_s base a p x y i, genExpireH_s base a p c hard, generateDpdRequest_s base a p, generateDeleteIkeSaRequest_s base a p,
   generateRekeyIkeSaRequest_s base a p now⟩

/-- **IKE_SA rekey hand-over**: the only other place where records move.  It asks nothing of the kernel and changes nothing in
    the SAD; the records go to the successor as they are (same addresses, hence same keys), this IKE_SA keeps none -/
theorem c10_concrete_handover (fromTmp : Bool) (s : HSt) (n : XSa) (hn : (if fromTmp then s.tmp else s.succ) = some n)
    (ha : n.core.myAddr = s.me.core.myAddr ∧ n.core.peerAddr = s.me.core.peerAddr) :
    let t := (handOver fromTmp s).2
    t.sad = s.sad ∧ t.nl = s.nl ∧ keysX t.me = [] ∧ (∃ n', t.succ = some n' ∧ keysX n' = keysX s.me ∧ n'.core.st = stESTABLISHED) ∧
      t.me.core.st = stREKEYED := by
  intro t
  have hme : t.me = { (s.me.setKids []) with core := { (s.me.setKids []).core with st := stREKEYED } } := rfl
  have hsucc : t.succ = (if fromTmp then s.tmp else s.succ).map fun n =>
      { (n.setKids s.me.ext.kids) with core := { (n.setKids s.me.ext.kids).core with st := stESTABLISHED } } := rfl
  refine ⟨rfl, rfl, ?_, ?_, rfl⟩
  · rw [hme]; simp [keysX, XSa.setKids]
  · refine ⟨{ (n.setKids s.me.ext.kids) with core := { (n.setKids s.me.ext.kids).core with st := stESTABLISHED } }, ?_, ?_, rfl⟩
    · rw [hsucc, hn]; rfl
    · apply keysX_congr
      · simpa [XSa.setKids] using ha.1
      · simpa [XSa.setKids] using ha.2
      · simp [XSa.setKids]

/-! non-vacuity: an object with one CHILD_SA whose two SAs are in the SAD next to a foreign entry satisfies the invariant -/
example : SadI [([9], 50, [0xe])] [10] [11]
    { me := { core := { demo with children := [{ inSpi := [0xa], outSpi := [0xb], proto := 3 }] },
              ext := { conf := emptyConf,
                       kids := [{ inSpi := [0xa], outSpi := [0xb], orig := emptyConf.proposal, proposal := { emptyConf.proposal with proto := 3 },
                                  tsi := [], tsr := [], mode := 0, lifetime := 0 }] } },
      succ := none, tape := { vals := [] }, sad := [([9], 50, [0xe]), ([11], 50, [0xb]), ([10], 50, [0xa])] } := by
  refine ⟨rfl, rfl, ?_, by decide, by decide⟩
  intro e
  simp [keysX, kidKeys, outKey, inKey, demo, ipsecProto]

/-! ### every delegated call, THROUGH IKE_SA rekeys (no hypothesis on the message, the state or the oracles)

  `FullI base a p s` (Proofs/HandlersRekey.lean): the SAD is `base` (what belongs to other objects) plus the keys of the CHILD_SAs of
  the successor object (`new_ike_sa`) plus the keys of this IKE_SA's CHILD_SAs, all different; a successor has this IKE_SA's
  addresses; and a successor holds CHILD_SAs only in the states after the hand-over (REKEYED, DEL_AFTER_REKEY_IKE_SA_REQ_SENT,
  DELETED).  `CallOk`: a call that returns keeps it; a call that raises keeps it and has either not touched the successor or leaves
  an empty one — so no exception follows a hand-over, and the IKE_SA the shell then deletes never owns SAs through a successor the
  table does not know.  Proved with a small pre/post-condition logic (`Hoare`) for the four functions in which the invariant changes
  in the middle (the two IKE_SA rekey branches and their callers), two state-independent families for the time before the hand-over
  (`SadI`, `SO`) and one for the time after it (`P2`: the state stays in the three states, the successor is not touched), each
  handler guarded by its own state check. -/

theorem c10_concrete_every_request_through_rekeys (base : List Key) (a p : Bytes) (now : Nat) (m : Msg) (h : HM HRes)
    (hh : requestHandler now m = some h) : CallOk base a p h := request_callOk base a p now m h hh

theorem c10_concrete_every_response_through_rekeys (base : List Key) (a p : Bytes) (now : Nat) (m : Msg) (h : HM HRes)
    (hh : responseHandler now m = some h) : CallOk base a p h := response_callOk base a p now m h hh

theorem c10_concrete_every_generator_through_rekeys (base : List Key) (a p : Bytes) (x y : TS) (i now : Nat) (c : ChildRef) (hard : Bool) :
    CallOk base a p (asRequest (genAcquireH x y i)) ∧ CallOk base a p (asRequest (genExpireH c hard)) ∧
    CallOk base a p (asRequest generateDpdRequest) ∧ CallOk base a p (asRequest generateDeleteIkeSaRequest) ∧
    CallOk base a p (asRequest (generateRekeyIkeSaRequest now)) := generators_callOk base a p x y i now c hard

/-- the hand-over itself, from the state the rekey branches reach it in -/
theorem c10_concrete_handover_keeps_everything (base : List Key) (a p : Bytes) (fromTmp : Bool) (s : HSt) (h : G base a p s)
    (hslot : (if fromTmp then s.tmp else s.succ).isSome = true) :
    FullI base a p (handOver fromTmp s).2 ∧ (handOver fromTmp s).2.me.core.st = stREKEYED := handOver_full base a p fromTmp s h hslot

/-! non-vacuity: the demo object with its CHILD_SA and an empty successor satisfies the invariant -/
example : FullI [([9], 50, [0xe])] [10] [11]
    { me := { core := { demo with children := [{ inSpi := [0xa], outSpi := [0xb], proto := 3 }] },
              ext := { conf := emptyConf,
                       kids := [{ inSpi := [0xa], outSpi := [0xb], orig := emptyConf.proposal, proposal := { emptyConf.proposal with proto := 3 },
                                  tsi := [], tsr := [], mode := 0, lifetime := 0 }] } },
      succ := some { core := { demo with children := [], mySpi := [7], st := stINITIAL }, ext := { conf := emptyConf } },
      tape := { vals := [] }, sad := [([9], 50, [0xe]), ([11], 50, [0xb]), ([10], 50, [0xa])] } := by
  refine ⟨⟨rfl, rfl, ?_, by decide, by decide⟩, ?_, ?_⟩
  · intro e
    simp [keysX, kidKeys, outKey, inKey, demo, ipsecProto, keysXo]
  · intro n hn; cases hn; exact ⟨rfl, rfl, rfl⟩
  · intro hne; exact absurd (by decide) hne

/-! ### the whole model, whole histories

  `wholeStep` (Proofs/WholeSad.lean) is one `select` round of the shell instantiated with the concrete handlers — the very function
  the `xiter` replay compares with every real loop iteration — followed by the kernel executing, in order, the netlink requests the
  round issued.  `Sync` says: the kernel SAD is exactly the table's CHILD_SAs, every entry once, every table entry's view of its
  CHILD_SAs the projection of its records — unless the model ever gave two objects one SPI (`clash`; Python objects have identity,
  the model has 64 random bits). -/

theorem keysOfCore_eq (s : SaCore) : keysOfCore s = keysOf s := rfl

/-- the state after start-up (SAD flushed, no IKE_SA) is in sync -/
theorem c10_whole_model_start (tape : Tape) (confs : List (Bytes × Bytes × Conf)) (threshold : Nat) :
    Sync ({ tape := tape, exts := [], confs := confs, sad := [] }, { sas := [], threshold := threshold }) := by
  right
  exact { spis := List.nodup_nil, objs := fun s hs => by simp at hs, sad := fun k => by simp [tableKeys],
          nodup := List.nodup_nil }

/-- **every history of the whole model — any number of IKE_SAs, any interleaving of datagrams (authentic or not, duplicated,
    reordered), ACQUIREs, EXPIREs, status queries, clock ticks with retransmission / DPD / lifetime sweeps, kernel refusals and
    oracle values — up to the first IKE_SA rekey**: after every round the kernel SAD is exactly the two SAs of every CHILD_SA of
    every IKE_SA in the table, each once.

    Partial: the hypothesis `hcalm` stops the statement at the first round that begins an IKE_SA rekey of our own (state
    REK_IKE_SA_REQ_SENT / a successor object exists), and `EvOK` excludes CREATE_CHILD_SA requests that rekey the IKE_SA.  Through an
    IKE_SA rekey the SAs are the *successor's* before it is in the table; the statement for that (`c10_concrete_handover`, the
    SAD = tracked oracle after every event of every campaign) is not lifted to histories. -/
theorem c10_whole_model_history_partial (evs : List (Nat × LoopEv)) (w : XWorld) (c : Ctl) (h0 : Sync (w, c))
    (hcalm : ∀ k, k < evs.length → ∀ s ∈ (wholeRun (w, c) (evs.take k)).2.sas, s.succ = none ∧ s.core.st ≠ stREK_IKE_SA_REQ_SENT)
    (hev : ∀ x ∈ evs, EvOK x.2) (hclash : (wholeRun (w, c) evs).1.clash = false) :
    (∀ k, k ∈ (wholeRun (w, c) evs).1.sad ↔ k ∈ (wholeRun (w, c) evs).2.sas.flatMap (fun s => keysOf s.core)) ∧
    ((wholeRun (w, c) evs).2.sas.flatMap (fun s => keysOf s.core)).Nodup ∧
    ((wholeRun (w, c) evs).2.sas.map (·.core.mySpi)).Nodup := by
  rcases wholeRun_sync evs (w, c) h0 hcalm hev with h | h
  · rw [hclash] at h; cases h
  · exact ⟨h.sad, h.nodup, h.spis⟩

/-- one round: what the kernel holds afterwards is what it held before with the round's netlink requests applied in order -/
theorem c10_whole_model_round_kernel (wc : XWorld × Ctl) (x : Nat × LoopEv) :
    (wholeStep wc x).1.sad = (loopIter concreteHandlers wc.1 wc.2 x.1 x.2).2.nl.foldl applyNl wc.1.sad := rfl

/-! non-vacuity of the history theorem: an ESTABLISHED IKE_SA with one CHILD_SA whose two SAs are in the kernel; a hard EXPIRE
   (DELETE request goes out), an ACQUIRE meanwhile (queued), then the peer stays silent: four retransmissions, the IKE_SA is
   removed with DELSA for both SAs.  Every hypothesis of the theorem holds, the SAD has two entries for the first three rounds
   and none at the end. -/

def exProp : Proposal :=
  { num := 1, proto := 1, spi := [], transforms := [{ ttype := 1, id := 12, keylen := some 256 }, { ttype := 3, id := 12, keylen := none },
      { ttype := 2, id := 5, keylen := none }, { ttype := 4, id := 14, keylen := none }] }
def exCP : Proposal := { exProp with proto := 3 }
def exTs (a : Bytes) : TS := { tsType := 7, ipProto := 0, startPort := 0, endPort := 65535, startAddr := a, endAddr := a }
def exConf : Conf :=
  { proposal := exProp,
    protect := [{ myTs := exTs [10,0,0,1], peerTs := exTs [10,0,0,2], index := 5, mode := 1, lifetime := 300, proposal := exCP }],
    myIdType := 2, myIdData := [97], peerIdType := 2, peerIdData := [98], dpd := 60 * 1024, lifetime := 900 * 1024 }
def exKid : Child :=
  { inSpi := [0xa,0,0,1], outSpi := [0xb,0,0,2], orig := exCP, proposal := exCP, tsi := [exTs [10,0,0,1]], tsr := [exTs [10,0,0,2]],
    mode := 1, lifetime := 300 }
def exCore : SaCore :=
  { st := stESTABLISHED, isInit := true, mySpi := [1,1,1,1,1,1,1,1], peerSpi := [2,2,2,2,2,2,2,2], myId := 2, peerId := 0, keyed := true,
    lastResp := none, request := none, rtxAt := 0, rtx := 0, dpdAt := 100000, rekeyAt := 900000, deleteAt := 930000, dpd := 61440,
    children := [exKid.ref], pending := [], indices := [5], myAddr := [192,168,0,1], peerAddr := [192,168,0,2], cookie := false }
def exW : XWorld :=
  { tape := { vals := [.bytes [1,2,3,4,5,6,7,8], .num 3, .bytes [9,9,9,9], .bytes [7,7], .bytes [5,5], .bytes [6,6]] },
    exts := [([1,1,1,1,1,1,1,1], { conf := exConf, kids := [exKid] })], confs := [([192,168,0,1], [192,168,0,2], exConf)],
    sad := [([192,168,0,2], 50, [0xb,0,0,2]), ([192,168,0,1], 50, [0xa,0,0,1])] }
def exC : Ctl := { sas := [{ core := exCore, succ := none }] }
def exEvs : List (Nat × LoopEv) :=
  [(1000, { expire := some ([0xa,0,0,1], true) }),
   (2000, { acquire := some ([192,168,0,9], [192,168,0,2], exTs [10,0,0,1], exTs [10,0,0,2], 5) }),
   (5000, {}), (20000, {}), (40000, {}), (80000, {}), (160000, {})]

example : Sync (exW, exC) := by
  right
  refine { spis := by decide, objs := ?_, sad := ?_, nodup := by decide }
  · intro s hs
    simp only [exC, List.mem_singleton] at hs
    subst hs
    exact ⟨{ conf := exConf, kids := [exKid] }, by decide, by decide⟩
  · intro k
    have : tableKeys exC.sas = exW.sad := by decide
    rw [this]

example : (∀ k, k < exEvs.length → ∀ s ∈ (wholeRun (exW, exC) (exEvs.take k)).2.sas, s.succ = none ∧ s.core.st ≠ stREK_IKE_SA_REQ_SENT) ∧
    (wholeRun (exW, exC) exEvs).1.clash = false ∧ (wholeRun (exW, exC) (exEvs.take 3)).1.sad.length = 2 ∧
    (wholeRun (exW, exC) (exEvs.take 3)).2.sas.map (·.core.st) = [stDEL_CHILD_REQ_SENT] ∧
    (wholeRun (exW, exC) exEvs).1.sad = [] ∧ (wholeRun (exW, exC) exEvs).2.sas = [] := by decide

example : ∀ x ∈ exEvs, EvOK x.2 := by
  intro x hx
  simp only [exEvs, List.mem_cons, List.not_mem_nil, or_false] at hx
  rcases hx with rfl | rfl | rfl | rfl | rfl | rfl | rfl <;> exact ⟨(by intro h p a b m hd; simp at hd), (by intro h p a b hd; simp at hd)⟩

/-! ### the whole model, whole histories, THROUGH IKE_SA rekeys

  `Sync2` (Proofs/WholeSad2.lean): the kernel SAD is exactly the CHILD_SAs of the table's IKE_SAs, every entry once; every table entry and
  every *pending* successor (the `new_ike_sa` of an entry that has not handed over yet) is an object of its own with an SPI nobody else
  uses; a pending successor holds no CHILD_SA.  The per-call results (`CallOk`, the frozen regime) are lifted by the second contract
  theorem (Proofs/ShellLift2.lean), in which a request / response call may leave the table one registration away from consistency
  (`Trans`) and the controller's `afterMessage` closes the gap in the same step. -/

/-- the successor of every IKE_SA past its hand-over is in the table (a rekeyed IKE_SA does not outlive its successor) -/
def allListedB (c : List Sa) : Bool :=
  c.all fun s => !(decide (inPost s.core.st)) || (match s.succ with | some n => registered c n | none => true)

theorem allListed_of_b (c : List Sa) (h : allListedB c = true) : AllListed c := by
  intro s hs hp n hn
  unfold allListedB at h
  rw [List.all_eq_true] at h
  have := h s hs
  simp only [hp, decide_true, Bool.not_true, Bool.false_or, hn] at this
  exact this

/-- the state after start-up is in sync -/
theorem c10_whole_model_start2 (tape : Tape) (confs : List (Bytes × Bytes × Conf)) (threshold : Nat) :
    Sync2 ({ tape := tape, exts := [], confs := confs, sad := [] }, { sas := [], threshold := threshold }) := by
  right
  exact { spis := List.nodup_nil, objs := fun s hs => by simp at hs, pend := fun s hs => by simp at hs,
          stored := fun s hs => by simp at hs, sad := fun k => by simp [tableKeys], nodup := List.nodup_nil }

/-- **every history of the whole model, IKE_SA rekeys included** — any number of IKE_SAs, any interleaving of datagrams of any content
    (authentic or not, duplicated, reordered; CREATE_CHILD_SA for CHILD_SAs and for the IKE_SA; error replies, INVALID_KE_PAYLOAD and
    TEMPORARY_FAILURE retries), ACQUIREs, EXPIREs, status queries, clock ticks with the retransmission / DPD / lifetime sweeps (the
    rekey timer included), any oracle values and any kernel refusals: after every round the kernel SAD is exactly the two SAs of every
    CHILD_SA of every IKE_SA in the table, each once, and no two table entries share an SPI.

    Hypotheses: the start is in sync; header-only parse and full parse of a datagram are of the same datagram; the model never gave
    two objects one SPI (`clash`); and — the partial part — in every state reached, the successor of an IKE_SA that has handed over
    (REKEYED / DEL_AFTER_REKEY_IKE_SA_REQ_SENT / DELETED) is still in the table.  The last one fails only when a rekeyed IKE_SA
    outlives its successor; there Python's `new_ike_sa` is a live reference and the model's table entry a copy, so the statement
    about the model would not be one about the code (DESIGN §9). -/
theorem c10_whole_model_history_through_rekeys_partial (evs : List (Nat × LoopEv)) (w : XWorld) (c : Ctl) (h0 : Sync2 (w, c))
    (hlisted : ∀ k, k < evs.length → AllListed (wholeRun (w, c) (evs.take k)).2.sas)
    (hev : ∀ x ∈ evs, EvCoherent x.2) (hclash : (wholeRun (w, c) evs).1.clash = false) :
    (∀ k, k ∈ (wholeRun (w, c) evs).1.sad ↔ k ∈ (wholeRun (w, c) evs).2.sas.flatMap (fun s => keysOf s.core)) ∧
    ((wholeRun (w, c) evs).2.sas.flatMap (fun s => keysOf s.core)).Nodup ∧
    ((wholeRun (w, c) evs).2.sas.map (·.core.mySpi)).Nodup := by
  rcases wholeRun_sync2 evs (w, c) h0 hlisted hev with h | h
  · rw [hclash] at h; cases h
  · refine ⟨h.sad, h.nodup, ?_⟩
    have := h.spis
    unfold allSpis at this
    have hsub : ((wholeRun (w, c) evs).2.sas.map (·.core.mySpi)).Sublist
        ((wholeRun (w, c) evs).2.sas.flatMap fun s => s.core.mySpi :: pendSpi s) := by
      induction (wholeRun (w, c) evs).2.sas with
      | nil => exact List.Sublist.slnil
      | cons s rest ih =>
        simp only [List.map_cons, List.flatMap_cons, List.cons_append]
        exact List.Sublist.cons₂ _ ((ih).trans (List.sublist_append_right _ _))
    exact this.sublist hsub

/-- **every history of the whole model, rounds composed the way the implementation composes them** (`wholeRun2`: between two rounds
    an entry past its hand-over drops its successor reference — in Python the successor then *is* a table entry, or has ended; the replay
    of every real iteration hands the model exactly that).  No hypothesis on the reached states is left: from a state in sync, for
    every list of rounds with coherent datagram parses, either the model recorded an SPI clash or the kernel SAD after the last round
    is exactly the two SAs of every CHILD_SA of every IKE_SA in the table, each once, and no two table entries share an SPI. -/
theorem c10_whole_model_history_through_rekeys (evs : List (Nat × LoopEv)) (w : XWorld) (c : Ctl) (h0 : Sync2 (w, c))
    (hstart : AllListed c.sas) (hev : ∀ x ∈ evs, EvCoherent x.2) (hclash : (wholeRun2 (w, c) evs).1.clash = false) :
    (∀ k, k ∈ (wholeRun2 (w, c) evs).1.sad ↔ k ∈ (wholeRun2 (w, c) evs).2.sas.flatMap (fun s => keysOf s.core)) ∧
    ((wholeRun2 (w, c) evs).2.sas.flatMap (fun s => keysOf s.core)).Nodup ∧
    ((wholeRun2 (w, c) evs).2.sas.map (·.core.mySpi)).Nodup := by
  rcases (wholeRun2_sync evs (w, c) ⟨h0, hstart⟩ hev).1 with h | h
  · rw [hclash] at h; cases h
  · refine ⟨h.sad, h.nodup, ?_⟩
    have := h.spis
    unfold allSpis at this
    have hsub : ((wholeRun2 (w, c) evs).2.sas.map (·.core.mySpi)).Sublist
        ((wholeRun2 (w, c) evs).2.sas.flatMap fun s => s.core.mySpi :: pendSpi s) := by
      induction (wholeRun2 (w, c) evs).2.sas with
      | nil => exact List.Sublist.slnil
      | cons s rest ih =>
        simp only [List.map_cons, List.flatMap_cons, List.cons_append]
        exact List.Sublist.cons₂ _ ((ih).trans (List.sublist_append_right _ _))
    exact this.sublist hsub

/-- the empty table after start-up meets both start hypotheses -/
theorem c10_whole_model_start3 (tape : Tape) (confs : List (Bytes × Bytes × Conf)) (threshold : Nat) :
    Sync2 ({ tape := tape, exts := [], confs := confs, sad := [] }, { sas := [], threshold := threshold }) ∧
    AllListed ({ sas := [], threshold := threshold } : Ctl).sas :=
  ⟨c10_whole_model_start2 tape confs threshold, fun s hs => by simp at hs⟩

/-! non-vacuity, with an IKE_SA rekey in it: the peer asks to rekey the IKE_SA of the earlier example (the CHILD_SA goes to the
   successor, the kernel is not touched), then deletes the old IKE_SA; the successor's CHILD_SA expires hard, the peer stays silent,
   the successor is removed with its SAs.  Every hypothesis holds in every prefix; the SAD has two entries up to the end and none then. -/

def rekeyReq : Msg :=
  { hdr := { spiI := exCore.mySpi, spiR := exCore.peerSpi, major := 2, minor := 0, exch := 36, isResp := false, higher := false,
             isInit := false, msgId := 0 },
    payloads := [],
    enc := [mkP ptSA (.sa [{ exProp with spi := [7,7,7,7,7,7,7,7] }]), mkP ptNONCE (.nonce [1,2,3,4]), mkP ptKE (.ke 14 [5,6,7,8])],
    iv := none }
def deleteOld : Msg :=
  { hdr := { rekeyReq.hdr with exch := 37, msgId := 1 }, payloads := [], enc := [mkP ptDELETE (.delete 1 [])], iv := none }
def exW2 : XWorld :=
  { exW with tape := { vals := [.bytes [8,8,8,8,8,8,8,8], .num 3, .bytes [9,9,9,9], .bytes [4,4], .flag true, .bytes [6,6]] } }
def exEvs2 : List (Nat × LoopEv) :=
  [(1000, { datagram := some (some rekeyReq.hdr, some rekeyReq, [192,168,0,1], [192,168,0,2]) }),
   (2000, { datagram := some (some deleteOld.hdr, some deleteOld, [192,168,0,1], [192,168,0,2]) }),
   (3000, { expire := some ([0xa,0,0,1], true) }),
   (6000, {}), (20000, {}), (40000, {}), (80000, {}), (160000, {})]

example : Sync2 (exW2, exC) := by
  right
  refine { spis := by decide, objs := ?_, pend := ?_, stored := ?_, sad := ?_, nodup := by decide }
  · intro s hs
    simp only [exC, List.mem_singleton] at hs
    subst hs
    exact ⟨{ conf := exConf, kids := [exKid] }, by decide, by decide⟩
  · intro s hs _ n hn
    simp only [exC, List.mem_singleton] at hs
    subst hs
    cases hn
  · intro s hs n hn
    simp only [exC, List.mem_singleton] at hs
    subst hs
    cases hn
  · intro k
    have : tableKeys exC.sas = exW2.sad := by decide
    rw [this]

example : ∀ k, k < exEvs2.length → allListedB (wholeRun (exW2, exC) (exEvs2.take k)).2.sas = true := by decide +kernel

example : (wholeRun (exW2, exC) exEvs2).1.clash = false ∧
    (wholeRun (exW2, exC) (exEvs2.take 1)).2.sas.map (fun s => (s.core.st, s.core.children.length)) = [(stREKEYED, 0), (stESTABLISHED, 1)] ∧
    (wholeRun (exW2, exC) (exEvs2.take 1)).1.sad.length = 2 ∧
    (wholeRun (exW2, exC) (exEvs2.take 2)).2.sas.map (fun s => (s.core.st, s.core.children.length)) = [(stESTABLISHED, 1)] ∧
    (wholeRun (exW2, exC) (exEvs2.take 2)).1.sad.length = 2 ∧
    (wholeRun (exW2, exC) exEvs2).1.sad = [] ∧ (wholeRun (exW2, exC) exEvs2).2.sas = [] := by decide +kernel

/-- the same history under `wholeRun2`: after the first round the old entry is REKEYED and has dropped its successor reference -/
example : (wholeRun2 (exW2, exC) (exEvs2.take 1)).2.sas.map (fun s => (s.core.st, s.succ.isSome, s.core.children.length)) =
      [(stREKEYED, false, 0), (stESTABLISHED, false, 1)] ∧
    (wholeRun2 (exW2, exC) exEvs2).1.clash = false ∧ (wholeRun2 (exW2, exC) (exEvs2.take 2)).1.sad.length = 2 ∧
    (wholeRun2 (exW2, exC) exEvs2).1.sad = [] ∧ (wholeRun2 (exW2, exC) exEvs2).2.sas = [] := by decide +kernel

example : AllListed exC.sas := allListed_of_b _ (by decide)

example : ∀ x ∈ exEvs2, EvCoherent x.2 := by
  intro x hx
  simp only [exEvs2, List.mem_cons, List.not_mem_nil, or_false] at hx
  rcases hx with rfl | rfl | rfl | rfl | rfl | rfl | rfl | rfl
  · intro h p a b hd
    simp only [Option.some.injEq, Prod.mk.injEq] at hd
    obtain ⟨rfl, rfl, _, _⟩ := hd
    intro h' m' hh hm
    cases hh; cases hm; exact ⟨rfl, rfl⟩
  · intro h p a b hd
    simp only [Option.some.injEq, Prod.mk.injEq] at hd
    obtain ⟨rfl, rfl, _, _⟩ := hd
    intro h' m' hh hm
    cases hh; cases hm; exact ⟨rfl, rfl⟩
  all_goals (intro h p a b hd; simp at hd)

end PyIkev2.Props.C10
