/-
  C10 — the kernel SAD always equals the CHILD_SAs the daemon tracks.

  The shell-level part of the property, for EVERY instance of the delegated handlers:
  removing an IKE_SA (delete exchange, fatal error, retransmission time-out) issues DELSA for
  exactly the inbound and outbound SA of every CHILD_SA it tracks and for nothing else, and
  applied to a kernel that holds them it removes exactly those entries; registering a rekeyed
  successor touches neither the kernel nor the CHILD_SA lists.  The per-exchange part (a handler
  installs exactly what it starts tracking) is the handler contract `installsWhatItTracks`,
  evaluated on the real code after every event by the C10 oracle.
-/
import PyIkev2.Proofs.Machine

namespace PyIkev2.Props.C10
open PyIkev2 PyIkev2.Impl

/-- a kernel SAD: the set of (destination address, IPsec protocol, SPI) triples, as a list -/
abbrev Sad := List (Bytes × Nat × Bytes)

/-- effect of one netlink request on the SAD (NEWSA of a present key and DELSA of an absent one are refused) -/
def applyOp (sad : Sad) : NlOp → Sad
  | .newSa d p s => if sad.contains (d, p, s) then sad else sad ++ [(d, p, s)]
  | .delSa d p s => sad.filter (· ≠ (d, p, s))
  | .flushSa => []
  | _ => sad

def applyOps (sad : Sad) (ops : List NlOp) : Sad := ops.foldl applyOp sad

/-- the SAD entries one IKE_SA's CHILD_SAs stand for: outbound towards the peer, inbound towards us -/
def keysOf (s : SaCore) : Sad :=
  s.children.flatMap fun c => [(s.peerAddr, ipsecProto c.proto, c.outSpi), (s.myAddr, ipsecProto c.proto, c.inSpi)]

/-- `delete_child_sas` asks the kernel to delete exactly the tracked pairs, outbound then inbound,
    in tracking order, and stops tracking them -/
theorem c10_removal_deletes_exactly_tracked (s : SaCore) :
    (deleteChildSas s).2 = (keysOf s).map (fun k => NlOp.delSa k.1 k.2.1 k.2.2) ∧ (deleteChildSas s).1.children = [] := by
  constructor
  · simp only [deleteChildSas, keysOf, delChildOps]
    induction s.children with
    | nil => rfl
    | cons c rest ih => simp [List.flatMap_cons, ih, delChildOps]
  · rfl

theorem applyOps_del (sad : Sad) (ks : Sad) :
    applyOps sad (ks.map fun k => NlOp.delSa k.1 k.2.1 k.2.2) = sad.filter (fun e => ¬ ks.contains e) := by
  induction ks generalizing sad with
  | nil =>
    simp only [applyOps, List.map_nil, List.foldl_nil]
    induction sad with
    | nil => rfl
    | cons a r ih =>
      simp only [List.contains_nil, Bool.false_eq_true, not_false_eq_true, decide_true, List.filter_cons_of_pos] at ih ⊢
      rw [← ih]
  | cons k rest ih =>
    simp only [applyOps, List.map_cons, List.foldl_cons] at ih ⊢
    rw [show applyOp sad (NlOp.delSa k.1 k.2.1 k.2.2) = sad.filter (· ≠ k) from rfl, ih, List.filter_filter]
    congr 1
    funext e
    by_cases h : e = k <;> simp [h]

/-- … so after an IKE_SA is removed the kernel holds nothing of what it tracked and everything else
    it held before (no other IKE_SA's SAs are touched) -/
theorem c10_teardown (s : SaCore) (sad : Sad) :
    applyOps sad (deleteChildSas s).2 = sad.filter (fun e => ¬ (keysOf s).contains e) := by
  rw [(c10_removal_deletes_exactly_tracked s).1, applyOps_del]

/-- controller, after a datagram: an IKE_SA that ended is taken out of the table and its pairs are
    deleted; one that did not end causes no netlink request at this level -/
theorem c10_after_message (sas : List Sa) (i : Nat) (s : Sa) :
    (s.core.st = stDELETED → (afterMessage sas i s).2 = (deleteChildSas s.core).2) ∧
    (s.core.st ≠ stDELETED → (afterMessage sas i s).2 = []) := by
  constructor
  · intro h; simp [afterMessage, h, stDELETED, stREKEYED, stDEL_AFTER_REKEY_IKE_SA_REQ_SENT]
  · intro h; simp [afterMessage, h]

/-- IKE_SA rekey: registering the successor emits no netlink request, and the successor is added with
    the CHILD_SA list the handlers gave it (the hand-over itself is the handlers' business) -/
theorem c10_rekey_handover_silent (sas : List Sa) (i : Nat) (s : Sa) (n : SaCore)
    (hs : s.core.st = stREKEYED ∨ s.core.st = stDEL_AFTER_REKEY_IKE_SA_REQ_SENT) (hn : s.succ = some n)
    (hnew : registered (sas.set i s) n = false) :
    (afterMessage sas i s).2 = [] ∧ (afterMessage sas i s).1 = sas.set i s ++ [{ core := n, succ := none }] := by
  have hd : s.core.st ≠ stDELETED := by rcases hs with h | h <;> simp [h, stREKEYED, stDELETED, stDEL_AFTER_REKEY_IKE_SA_REQ_SENT]
  simp [afterMessage, hs, hn, hd, hnew]

/-- the retransmission timer never touches CHILD_SAs or the kernel by itself: a time-out only marks
    the IKE_SA DELETED, and the sweep then deletes exactly its pairs (next theorem) -/
theorem c10_timeout_marks_only (s : Sa) (now : Nat) :
    (checkRetransmission s now).nl = [] ∧ (checkRetransmission s now).sa.core.children = s.core.children := by
  simp only [checkRetransmission]
  split
  · split
    · split <;> simp
    · simp
  · simp

/-- one step of the retransmission sweep on an IKE_SA whose budget is exhausted: it leaves the table
    and exactly its pairs are deleted -/
theorem c10_sweep_removes_with_sas (now fuel i : Nat) (sas : List Sa) (s : Sa) (sent : List (Bytes × Bytes × Msg)) (nl : List NlOp)
    (hi : sas[i]? = some s) (hesc : (checkRetransmission s now).escaped = false)
    (hdel : (checkRetransmission s now).sa.core.st = stDELETED) :
    sweepRtx now (fuel + 1) i sas sent nl =
      sweepRtx now fuel (i + 1)
        ((sas.set i { (checkRetransmission s now).sa with core := (deleteChildSas (checkRetransmission s now).sa.core).1 }).eraseIdx i)
        (sent ++ ((checkRetransmission s now).out.map fun m => (s.core.myAddr, s.core.peerAddr, m)).toList)
        (nl ++ (deleteChildSas (checkRetransmission s now).sa.core).2) := by
  simp [sweepRtx, hi, hesc, hdel]

/-! ### the handler contract the per-exchange code has to meet (checked on the real code by the oracle) -/

/-- a delegated call keeps "kernel = tracked" for its IKE_SA: applying the netlink requests it issued
    to a SAD that held exactly the keys tracked before yields exactly the keys tracked afterwards
    (of the IKE_SA and of its pending successor) -/
def installsWhatItTracks (before : Sa) (o : HOut) : Prop :=
  let track := fun (x : Sa) => keysOf x.core ++ (match x.succ with | some n => keysOf n | none => [])
  ∀ e, e ∈ applyOps (track before) o.nl ↔ e ∈ track o.sa

/-! non-vacuity -/

def demo : SaCore :=
  { st := stDELETED, isInit := true, mySpi := [1], peerSpi := [2], myId := 3, peerId := 0, keyed := true, lastResp := none,
    request := none, rtxAt := 0, rtx := 0, dpdAt := 0, rekeyAt := 0, deleteAt := 0, dpd := 0,
    children := [{ inSpi := [0xa], outSpi := [0xb], proto := 3 }, { inSpi := [0xc], outSpi := [0xd], proto := 2 }],
    pending := [], indices := [], myAddr := [10], peerAddr := [11], cookie := false }

example : applyOps (keysOf demo ++ [([9], 50, [0xe])]) (deleteChildSas demo).2 = [([9], 50, [0xe])] := by decide

end PyIkev2.Props.C10
