/-
  C12 — traffic selectors are only ever narrowed and the mode must match.
-/
import PyIkev2.Proofs.Selectors
import PyIkev2.Proofs.HandlersChild
import PyIkev2.Proofs.TwoEndsCreate

namespace PyIkev2.Props.C12
open PyIkev2 PyIkev2.Impl

/-- Containment as implemented coincides with inclusion of the denoted packet sets, for every
    non-empty selector `a` (IPv4 and IPv6, any ports, any protocol incl. the ANY rule). -/
theorem c12_subset_is_packet_inclusion (a b : TS) (hne : a.nonEmpty) :
    tsSubset a b = true ↔ ∀ p : Pkt, a.matches p → b.matches p := by
  rw [tsSubset_iff]
  constructor
  · rintro ⟨h1, h2, h3, h4, h5, h6⟩ p ⟨m1, m2, m3, m4, m5, m6⟩
    refine ⟨m1.trans h1, ?_, by omega, by omega, by omega, by omega⟩
    rcases h2 with h | h
    · exact Or.inl h
    · rcases m2 with m | m
      · -- a matches every protocol; then b's protocol equals a's = ANY
        left; rw [← h]; exact m
      · right; rw [m, h]
  · intro h
    obtain ⟨hp, ha⟩ := hne
    -- witnesses: the four corners of a, with a protocol a allows
    have w1 := h ⟨a.tsType, a.ipProto, a.startPort, a.lo⟩ ⟨rfl, Or.inr rfl, Nat.le_refl _, hp, Nat.le_refl _, ha⟩
    have w2 := h ⟨a.tsType, a.ipProto, a.endPort, a.hi⟩ ⟨rfl, Or.inr rfl, hp, Nat.le_refl _, ha, Nat.le_refl _⟩
    obtain ⟨f1, p1, s1, _, l1, _⟩ := w1
    obtain ⟨_, _, _, e2, _, u2⟩ := w2
    refine ⟨f1, ?_, s1, e2, l1, u2⟩
    by_cases hb : b.ipProto = 0
    · exact Or.inl hb
    · right
      by_cases ha0 : a.ipProto = 0
      · -- a allows every protocol, in particular one that differs from b's
        have w3 := h ⟨a.tsType, b.ipProto + 1, a.startPort, a.lo⟩
          ⟨rfl, Or.inl ha0, Nat.le_refl _, hp, Nat.le_refl _, ha⟩
        rcases w3.2.1 with h3 | h3
        · exact absurd h3 hb
        · simp at h3
      · rcases p1 with h3 | h3
        · exact absurd h3 hb
        · exact h3

/-- range -> network -> range: a prefix block converts to exactly its network and prefix
    length (the widening loop stops at the right size, within the address width), and the
    port convention (0 = any) round-trips. -/
theorem c12_network_roundtrip (w h q port : Nat) (hw : h ≤ w) :
    getNetwork w (2 ^ h * q) (2 ^ h * q + 2 ^ h - 1) = (2 ^ h * q, w - h) ∧
    (let r := fromNetwork w (2 ^ h * q) (w - h) port
     r.1 = 2 ^ h * q ∧ r.2.1 = 2 ^ h * q + 2 ^ h - 1 ∧ (port ≤ 65535 → getPort r.2.2.1 r.2.2.2 = port)) := by
  constructor
  · unfold getNetwork
    rw [hostBits_block w h q 0 (w + 1) (Nat.zero_le _) (by omega)]
    simp only [Prod.mk.injEq, and_true]
    rw [Nat.mul_comm (2 ^ h) q, Nat.mul_div_cancel _ (Nat.pow_pos (by decide))]
  · simp only [fromNetwork]
    have hh : w - (w - h) = h := by omega
    refine ⟨trivial, by rw [hh], ?_⟩
    intro hp
    unfold getPort
    by_cases h0 : port = 0
    · simp [h0]
    · simp [h0]

/-- the widening loop of `get_network` always terminates within the address width -/
theorem c12_get_network_bounded (w lo hi : Nat) : (getNetwork w lo hi).2 ≤ w := by
  unfold getNetwork; simp

/-- Narrowing on the responder: whatever the policy lookup returns is contained in some
    offered TSi/TSr pair **and** in the chosen policy entry; if nothing matches the request is
    refused (TS_UNACCEPTABLE). -/
theorem c12_responder_narrows (tsis tsrs : List TS) (protect : List Policy) (i : Nat) (ctsr ctsi : TS)
    (h : getIpsecConf tsis tsrs protect = some (i, ctsr, ctsi)) :
    ∃ tsi ∈ tsis, ∃ tsr ∈ tsrs, ∃ c ∈ protect, protect[i]? = some c ∧
      tsSubset ctsi tsi = true ∧ tsSubset ctsr tsr = true ∧
      tsSubset ctsi c.peerTs = true ∧ tsSubset ctsr c.myTs = true := by
  exact getIpsecConf_narrows tsis tsrs protect i ctsr ctsi h

/-- … and when nothing matches, no offered pair and no policy entry contain one another: the request is refused -/
theorem c12_refused_iff_no_policy (tsis tsrs : List TS) (protect : List Policy)
    (h : getIpsecConf tsis tsrs protect = none) :
    ∀ tsi ∈ tsis, ∀ tsr ∈ tsrs, ∀ c ∈ protect,
      ¬ (tsSubset tsi c.peerTs = true ∧ tsSubset tsr c.myTs = true) ∧
      ¬ (tsSubset c.peerTs tsi = true ∧ tsSubset c.myTs tsr = true) := by
  intro tsi htsi tsr htsr c hc
  unfold getIpsecConf at h
  have h1 := firstSome_none _ _ h tsi (by simpa using htsi)
  have h2 := firstSome_none _ _ h1 tsr (by simpa using htsr)
  exact matchPolicies_none tsi tsr protect 0 h2 c hc

/-- rekey: accepted only with exactly the selectors of the replaced SA -/
theorem c12_rekey_selectors_equal (reqTsi reqTsr : List TS) (oldTsi oldTsr : TS) :
    rekeyTsOk reqTsi reqTsr oldTsi oldTsr = true ↔ reqTsi = [oldTsr] ∧ reqTsr = [oldTsi] := by
  simp [rekeyTsOk]

/-- mode: a request is accepted only when USE_TRANSPORT_MODE is present exactly for transport policies -/
theorem c12_mode_must_match (policyMode : Nat) (t : Bool) :
    modeOk policyMode t = true ↔ (t = true ∧ policyMode = 0) ∨ (t = false ∧ policyMode = 1) := by
  cases t <;> simp [modeOk]

/-- initiator: a response whose selectors are not contained in something it offered is never installed -/
theorem c12_initiator_rejects_widening (offTsi offTsr : List TS) (respTsi respTsr : TS)
    (h : initiatorTsOk offTsi offTsr respTsi respTsr = true) :
    (∃ x ∈ offTsi, tsSubset respTsi x = true) ∧ (∃ x ∈ offTsr, tsSubset respTsr x = true) := by
  simp only [initiatorTsOk, Bool.and_eq_true, List.any_eq_true] at h
  exact h

/-- containment composes: what is installed is inside the initiator's offer and inside the policy -/
theorem c12_subset_trans (a b c : TS) (h1 : tsSubset a b = true) (h2 : tsSubset b c = true) : tsSubset a c = true := by
  rw [tsSubset_iff] at *
  obtain ⟨a1, a2, a3, a4, a5, a6⟩ := h1
  obtain ⟨b1, b2, b3, b4, b5, b6⟩ := h2
  refine ⟨a1.trans b1, ?_, by omega, by omega, by omega, by omega⟩
  rcases b2 with h | h
  · exact Or.inl h
  · rcases a2 with h' | h'
    · left; rw [← h]; exact h'
    · right; rw [h', h]

/-! non-vacuity -/
def tsA : TS := { tsType := 7, ipProto := 6, startPort := 80, endPort := 80, startAddr := [10, 0, 0, 16], endAddr := [10, 0, 0, 31] }
def tsB : TS := { tsType := 7, ipProto := 0, startPort := 0, endPort := 65535, startAddr := [10, 0, 0, 0], endAddr := [10, 0, 0, 255] }
example : tsA.nonEmpty ∧ tsSubset tsA tsB = true ∧ tsSubset tsB tsA = false := by
  refine ⟨⟨by decide, by decide⟩, by decide, by decide⟩
example : getNetwork 32 (2 ^ 4 * 10485761) (2 ^ 4 * 10485761 + 2 ^ 4 - 1) = (167772176, 28) := by decide
example : getIpsecConf [tsA] [tsB] [{ myTs := tsB, peerTs := tsB, mode := 1 }] = some (0, tsB, tsA) := by decide

/-! ### in the model of the real handlers (Model/Handlers.lean)

  The theorems above are about the pure functions; these are about the handlers that call them — the placement of the calls,
  the order of the checks, what is done with their results, for every request whatsoever. -/

/-- **responder**: whatever request a handler is run on (any exchange type, any payloads, new CHILD_SA, rekey, IKE_AUTH),
    in whatever state, with whatever oracle values: every CHILD_SA record the IKE_SA tracks afterwards was tracked before, or
    its mode is the mode of a policy entry, which is the mode the request asked for (USE_TRANSPORT_MODE present ⇔ transport);
    its local selector lies inside that entry's local selector and inside a TSr the request offered; its remote selector inside
    the entry's remote selector and inside an offered TSi -/
theorem c12_concrete_responder_narrows_and_mode (now : Nat) (request : Msg) (h : HM HRes) (hh : requestHandler now request = some h)
    (me : XSa) (succ : Option XSa) (tape : Tape) (sad : List (Bytes × Nat × Bytes)) :
    ∀ k ∈ (runH h me succ tape sad).me.ext.kids, k ∈ me.ext.kids ∨
      ∃ pol ∈ me.ext.conf.protect, ∃ a b : TS, k.tsi = [a] ∧ k.tsr = [b] ∧ k.mode = pol.mode ∧
        pol.mode = (if (getNotifies request nUSE_TRANSPORT_MODE true).isEmpty then 1 else 0) ∧
        tsSubset a pol.myTs = true ∧ tsSubset b pol.peerTs = true ∧
        (∃ tsr, payTS request ptTSr true = .ok tsr ∧ ∃ x ∈ tsr, tsSubset a x = true) ∧
        (∃ tsi, payTS request ptTSi true = .ok tsi ∧ ∃ y ∈ tsi, tsSubset b y = true) := by
  intro k hk
  rcases requestHandler_kids now request h hh me succ tape sad k hk with h1 | ⟨pol, hp, a, b, h1, h2, h3, h4, h5, h6, h7, h8, _⟩
  · exact Or.inl h1
  · exact Or.inr ⟨pol, hp, a, b, h1, h2, h3, h4, h5, h6, h7, h8⟩

/-- **initiator**: whatever response a handler is run on (any exchange type, any payloads, honest or not), with whatever
    oracle values: every CHILD_SA record the IKE_SA tracks afterwards was tracked before, or it is the outstanding offer `cr`
    narrowed — the mode it asked for, which is also the mode the response carries; one selector per side, each contained in a
    selector it offered; its own inbound SPI.  A response that widens a selector or changes the mode installs nothing. -/
theorem c12_concrete_initiator_never_widens (now : Nat) (response : Msg) (h : HM HRes) (hh : responseHandler now response = some h)
    (me : XSa) (succ : Option XSa) (tape : Tape) (sad : List (Bytes × Nat × Bytes)) (cr : Child) (hcr : me.ext.creating = some cr) :
    ∀ k ∈ (runH h me succ tape sad).me.ext.kids, k ∈ me.ext.kids ∨
      (k.mode = cr.mode ∧ cr.mode = (if (getNotifies response nUSE_TRANSPORT_MODE true).isEmpty then 1 else 0) ∧ k.inSpi = cr.inSpi ∧
       ∃ a b : TS, k.tsi = [a] ∧ k.tsr = [b] ∧ (∃ x ∈ cr.tsi, tsSubset a x = true) ∧ (∃ y ∈ cr.tsr, tsSubset b y = true)) := by
  intro k hk
  rcases responseHandler_kids now response h hh me succ tape sad cr hcr k hk with h1 | ⟨h1, h2, h3, h4, _⟩
  · exact Or.inl h1
  · exact Or.inr ⟨h1, h2, h3, h4⟩

/-! ### both ends (two ends of the handler model, `Proofs/TwoEnds*.lean`) -/

/-- after any sequence of CHILD_SA creations, rekeys and deletions started by either end (one exchange at a time, no handler raising):
    a CHILD_SA the two ends share has the same mode at both ends, and each end's selectors are the other's the other way round -/
theorem c12_concrete_both_ends_hold_mirrored_selectors_and_the_same_mode (now fuel : Nat) (ops : List ChildOp) (a b a' b' : HSt)
    (h : Agree a b) (hx : opRun now fuel (a, b) ops = some (a', b'))
    (ca cb : Child) (ha : ca ∈ a'.me.ext.kids) (hb : cb ∈ b'.me.ext.kids) (hv : ca.view = cb.peerView) :
    ca.mode = cb.mode ∧ ca.tsi = cb.tsr ∧ ca.tsr = cb.tsi := by
  have hag := Agree.opRun now fuel ops a b a' b' h hx
  have := hag.paired ca ha cb hb hv
  simp only [Child.rich, Child.peerRich, Prod.mk.injEq] at this
  exact ⟨this.2.1, this.2.2.1, this.2.2.2⟩

end PyIkev2.Props.C12
