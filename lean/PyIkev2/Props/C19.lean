/-
  C19 — configuration is loaded faithfully or rejected cleanly.
  Theorems over the model of the algorithm / protocol / mode part of the loader, which interprets the tables regenerated from
  configuration.py; plus the extracted facts about defaults, field data flow and error mapping.
-/
import PyIkev2.Model.Config

namespace PyIkev2.Props.C19
open PyIkev2 PyIkev2.Impl

/-- tie to the source: documented defaults, the order in which the transform lists are concatenated, NO_ESN, the AH rule,
    which value feeds which selector (my_subnet/my_port, peer_subnet/peer_port), the identity typing rule, the listen rule -/
theorem c19_rules_from_source :
    Gen.Config.defaults =
      [("_load_auth_conf:id", "'https://github.com/alejandro-perez/pyikev2'"), ("_load_ike_conf:dh", "['14']"),
       ("_load_ike_conf:dpd", "60"), ("_load_ike_conf:encr", "['aes256']"), ("_load_ike_conf:integ", "['sha256']"),
       ("_load_ike_conf:lifetime", "15 * 60"), ("_load_ike_conf:prf", "['sha256']"), ("_load_ipsec_conf:dh", "[]"),
       ("_load_ipsec_conf:encr", "['aes256']"), ("_load_ipsec_conf:index", "random.randint(0, 2 ** 20)"),
       ("_load_ipsec_conf:integ", "['sha256']"), ("_load_ipsec_conf:ip_proto", "'any'"), ("_load_ipsec_conf:ipsec_proto", "'esp'"),
       ("_load_ipsec_conf:lifetime", "5 * 60"), ("_load_ipsec_conf:mode", "'tunnel'"), ("_load_ipsec_conf:my_port", "0"),
       ("_load_ipsec_conf:my_subnet", "ikeconf.my_addr"), ("_load_ipsec_conf:peer_port", "0"),
       ("_load_ipsec_conf:peer_subnet", "ikeconf.peer_addr")] ∧
    Gen.Config.proposals =
      [("_load_ike_conf", ["1", "Proposal.Protocol.IKE", "b''", "encr + integ + prf + dh"]),
       ("_load_ipsec_conf", ["1", "ipsec_proto", "b''", "encr + integ + dh + no_esn"])] ∧
    Gen.Config.ahRule = ["ipsec_proto == Proposal.Protocol.AH", "encr = []"] ∧
    Gen.Config.noEsn = ["[Transform(Transform.Type.ESN, Transform.EsnId.NO_ESN)]"] ∧
    Gen.Config.ipsecFields =
      [("index", "int(conf_dict.get('index', random.randint(0, 2 ** 20)))"), ("lifetime", "int(conf_dict.get('lifetime', 5 * 60))"),
       ("mode", "self._load_from_dict(conf_dict.get('mode', 'tunnel'), _mode_name_to_enum)"),
       ("my_ts", "TrafficSelector.from_network(my_subnet, my_port, ip_proto)"),
       ("peer_ts", "TrafficSelector.from_network(peer_subnet, peer_port, ip_proto)")] ∧
    Gen.Config.idRule = ["'@' in value", "PayloadID.Type.ID_IPV4_ADDR if addr.version == 4 else PayloadID.Type.ID_IPV6_ADDR"] ∧
    Gen.Config.listenRule = ["ikeconf.my_addr not in my_addresses"] := by decide

/-- the name tables: every documented name maps to the transform it names (type, IANA id, key length) -/
theorem c19_tables_from_source :
    Gen.Config.encrTable = [("aes128", (1, 12, 128)), ("aes256", (1, 12, 256))] ∧
    Gen.Config.integTable = [("sha256", (3, 12, -1)), ("sha512", (3, 14, -1)), ("sha1", (3, 2, -1))] ∧
    Gen.Config.prfTable = [("sha1", (2, 2, -1)), ("sha256", (2, 5, -1)), ("sha512", (2, 7, -1))] ∧
    Gen.Config.dhTable.map (·.2.2.1) = [14, 15, 16, 17, 18, 19, 20, 21, 14, 15, 16, 17, 18, 19, 20, 21] ∧
    Gen.Config.ipProtoTable = [("tcp", 6), ("any", 0), ("udp", 17), ("icmp", 1)] ∧
    Gen.Config.modeTable = [("transport", 0), ("tunnel", 1)] ∧ Gen.Config.ipsecProtoTable = [("esp", 3), ("ah", 2)] := by decide

/-- the transforms produced for a list of names are exactly the named ones, in the listed order; an unknown name refuses the list -/
theorem c19_listed_order (t : List (String × Tr)) (names : List String) (out : List Tr) (h : mapNames t names = .ok out) :
    out.length = names.length ∧ ∀ i (hi : i < names.length), tableLookup t names[i] = .ok (out[i]?.getD (0, 0, 0)) := by
  induction names generalizing out with
  | nil =>
    simp [mapNames] at h
    subst h
    exact ⟨rfl, fun i hi => absurd hi (by simp)⟩
  | cons n rest ih =>
    simp only [mapNames, bind] at h
    cases hx : tableLookup t n with
    | configurationError => simp [hx] at h
    | ok x =>
      simp only [hx] at h
      cases hr : mapNames t rest with
      | configurationError => simp [hr] at h
      | ok xs =>
        simp only [hr] at h
        have : out = x :: xs := by
          cases h; rfl
        subst this
        obtain ⟨hl, hv⟩ := ih xs hr
        refine ⟨by simp [hl], ?_⟩
        intro i hi
        cases i with
        | zero => simpa using hx
        | succ j => simpa using hv j (by simpa using hi)

/-- omitted lists take the documented defaults; a value that is not a list is refused -/
theorem c19_defaults_and_typing (t : List (String × Tr)) (dflt : List String) :
    loadAlgs t dflt .absent = mapNames t dflt ∧ loadAlgs t dflt .notList = .configurationError := ⟨rfl, rfl⟩

/-- a CHILD_SA proposal: INTEG ++ DH ++ [NO_ESN] for AH (no encryption transform, whatever `encr` lists), ENCR ++ INTEG ++
    DH ++ [NO_ESN] otherwise, each part exactly the listed (or default) names in order; ports, lifetime and index as given -/
theorem c19_ipsec_proposal_shape (c : IpsecIn) (o : IpsecOut) (h : loadIpsec c = .ok o) :
    ∃ encr integ dh, loadAlgs Gen.Config.encrTable ["aes256"] c.encr = .ok encr ∧
      loadAlgs Gen.Config.integTable ["sha256"] c.integ = .ok integ ∧ loadAlgs Gen.Config.dhTable [] c.dh = .ok dh ∧
      (o.proto = 2 → o.transforms = integ ++ dh ++ [noEsn]) ∧ (o.proto ≠ 2 → o.transforms = encr ++ integ ++ dh ++ [noEsn]) ∧
      o.myPort = c.myPort.getD 0 ∧ o.peerPort = c.peerPort.getD 0 ∧ o.lifetime = c.lifetime.getD 300 ∧ o.index = c.index := by
  simp only [loadIpsec, bind] at h
  cases h1 : tableLookup Gen.Config.ipsecProtoTable (c.proto.getD "esp") with
  | configurationError => simp [h1] at h
  | ok proto =>
    cases h2 : loadAlgs Gen.Config.encrTable ["aes256"] c.encr with
    | configurationError => simp [h1, h2] at h
    | ok encr =>
      cases h3 : loadAlgs Gen.Config.integTable ["sha256"] c.integ with
      | configurationError => simp [h1, h2, h3] at h
      | ok integ =>
        cases h4 : loadAlgs Gen.Config.dhTable [] c.dh with
        | configurationError => simp [h1, h2, h3, h4] at h
        | ok dh =>
          cases h5 : tableLookup Gen.Config.ipProtoTable (c.ipProto.getD "any") with
          | configurationError => simp [h1, h2, h3, h4, h5] at h
          | ok ipp =>
            cases h6 : tableLookup Gen.Config.modeTable (c.mode.getD "tunnel") with
            | configurationError => simp [h1, h2, h3, h4, h5, h6] at h
            | ok mode =>
              simp only [h1, h2, h3, h4, h5, h6, pure] at h
              cases h
              refine ⟨encr, integ, dh, rfl, rfl, rfl, ?_, ?_, rfl, rfl, rfl, rfl⟩
              · intro hp; simp only at hp; simp [hp]
              · intro hp; simp only at hp; simp [hp]

/-- an IKE proposal is ENCR ++ INTEG ++ PRF ++ DH as listed (defaults aes256 / sha256 / sha256 / 14), lifetimes as given or 900 / 60 -/
theorem c19_ike_proposal_shape (c : IkeIn) (o : IkeOut) (h : loadIke c = .ok o) :
    ∃ e i p d, loadAlgs Gen.Config.encrTable ["aes256"] c.encr = .ok e ∧ loadAlgs Gen.Config.integTable ["sha256"] c.integ = .ok i ∧
      loadAlgs Gen.Config.prfTable ["sha256"] c.prf = .ok p ∧ loadAlgs Gen.Config.dhTable ["14"] c.dh = .ok d ∧
      o.transforms = e ++ i ++ p ++ d ∧ o.transforms ≠ [] ∧ o.lifetime = c.lifetime.getD 900 ∧ o.dpd = c.dpd.getD 60 := by
  simp only [loadIke, bind] at h
  cases h1 : loadAlgs Gen.Config.encrTable ["aes256"] c.encr with
  | configurationError => simp [h1] at h
  | ok e =>
    cases h2 : loadAlgs Gen.Config.integTable ["sha256"] c.integ with
    | configurationError => simp [h1, h2] at h
    | ok i =>
      cases h3 : loadAlgs Gen.Config.prfTable ["sha256"] c.prf with
      | configurationError => simp [h1, h2, h3] at h
      | ok p =>
        cases h4 : loadAlgs Gen.Config.dhTable ["14"] c.dh with
        | configurationError => simp [h1, h2, h3, h4] at h
        | ok d =>
          simp only [h1, h2, h3, h4] at h
          by_cases hemp : (e ++ i ++ p ++ d).isEmpty = true
          · rw [if_pos hemp] at h; cases h
          · rw [if_neg hemp] at h
            cases h5 : loadProtect c.protect with
            | configurationError => simp [h5] at h
            | ok pr =>
              simp only [h5, pure] at h
              cases h
              exact ⟨e, i, p, d, rfl, rfl, rfl, rfl, rfl, by simpa using hemp, rfl, rfl⟩

/-- the loader model is total: it returns connections or the configuration error, nothing else (no other outcome exists in
    `CfgRes`; for arbitrary ill-typed dictionaries of the real loader this is checked by the exception-class oracle) -/
theorem c19_model_total (c : IkeIn) : (∃ o, loadIke c = .ok o) ∨ loadIke c = .configurationError := by
  cases h : loadIke c with
  | ok o => exact Or.inl ⟨o, rfl⟩
  | configurationError => exact Or.inr rfl

/-! non-vacuity -/
example : loadIpsec { proto := some "ah", encr := .list ["aes128"], integ := .absent, dh := .list ["19"], ipProto := none, myPort := some 500,
                      peerPort := some 4500, index := some 7, lifetime := none, mode := some "transport" } =
    .ok { proto := 2, transforms := [(3, 12, -1), (4, 19, -1), (5, 0, -1)], ipProto := 0, myPort := 500, peerPort := 4500, index := some 7,
          lifetime := 300, mode := 0 } := by decide

end PyIkev2.Props.C19
