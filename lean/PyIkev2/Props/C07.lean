/-
  C07 — encrypted payloads round-trip; the checksum covers everything before it; padding;
  integrity is verified before decryption; whatever is accepted under a key context has a
  valid checksum.  Property theorems only (lemmas: Proofs/CodecRoundtrip.lean).
-/
import PyIkev2.Proofs.CodecRoundtrip
import PyIkev2.Model.Toy

namespace PyIkev2.Props.C07
open PyIkev2 PyIkev2.Impl

/-- tie to the source: with a key context, a message of any exchange other than IKE_SA_INIT
    that carries no SK payload is rejected by `Message.parse` -/
theorem c07_require_sk_from_source : Gen.Codec.require_sk = true := by decide

/-- For every protected message `to_bytes` can express (any clear and inner payload lists,
    any IV of block size) and every cipher/integrity pair obeying `Sound`, parsing the
    serialised bytes under the same keys returns the same message. -/
theorem c07_roundtrip (m : Msg) (c : CryptoCtx) (S : c.Sound) (h : m.WfEnc c) :
    parseMsg (encMsg m (some c)) false (some c) = .ok m :=
  parseMsg_enc_protected m c S h

/-- A protected message is `signed ++ mac signed`, where `signed` is: the IKE header, every
    octet written before the SK body, the IV and the ciphertext of the padded plaintext —
    i.e. everything from the start of the header to the end of the ciphertext. -/
theorem c07_icv_covers_header_to_ciphertext (m : Msg) (c : CryptoCtx) (iv : Bytes) (hiv : m.iv = some iv) :
    ∃ first total L,
      encMsg m (some c) =
        (encHeader m.hdr first total ++ chainPrefix m.payloads L (firstType m.enc) ++
          (iv ++ c.enc iv (padPlain c.block (encChain m.enc)))) ++
        c.mac (encHeader m.hdr first total ++ chainPrefix m.payloads L (firstType m.enc) ++
          (iv ++ c.enc iv (padPlain c.block (encChain m.enc)))) :=
  encMsg_protected_shape m c iv hiv

/-- The plaintext is padded to a whole number of blocks (at least one pad-length octet),
    the pad length is below the block size and the last plaintext octet equals it. -/
theorem c07_padding (block : Nat) (hb : 0 < block) (clear : Bytes) :
    (padPlain block clear).length % block = 0 ∧
    block - clear.length % block - 1 < block ∧
    (padPlain block clear).getLast? = some (block - clear.length % block - 1) ∧
    (padPlain block clear).take clear.length = clear := by
  have hp := padded_len clear.length block hb
  refine ⟨?_, by omega, by simp [padPlain], by simp [padPlain]⟩
  have : (padPlain block clear).length = clear.length + (block - clear.length % block - 1) + 1 := by
    simp [padPlain]; omega
  rw [this]; exact hp.1

/-- Integrity is verified before decryption: when the checksum does not match, the outcome
    is `InvalidSyntax` whatever the cipher would do with the body. -/
theorem c07_verify_before_decrypt (c : CryptoCtx) (dec' : Bytes → Bytes → Res Bytes) (d : Bytes) (h : Header)
    (ps : List Payload) (ct : Bytes) (inner : Nat)
    (hm : c.mac (dropLast d c.icvLen) ≠ takeLast d c.icvLen) :
    finishSK c d h ps ct inner = .invalidSyntax ∧ finishSK { c with dec := dec' } d h ps ct inner = .invalidSyntax :=
  ⟨finishSK_mac_mismatch c d h ps ct inner hm, finishSK_mac_mismatch { c with dec := dec' } d h ps ct inner hm⟩

/-- Whatever `Message.parse` accepts under a key context — for *every* byte string — either
    carries a checksum equal to the MAC of all preceding octets under that context, or is an
    IKE_SA_INIT message.  (So any change to header, IV, ciphertext or checksum, any truncation
    or extension, and any other integrity key is rejected unless the MAC of the changed
    prefix happens to equal the changed suffix.) -/
theorem c07_accept_requires_valid_checksum (d : Bytes) (c : CryptoCtx) (m : Msg)
    (hok : parseMsg d false (some c) = .ok m) (hex : m.hdr.exch ≠ 34) :
    c.mac (dropLast d c.icvLen) = takeLast d c.icvLen :=
  parseMsg_ok_requires_mac c07_require_sk_from_source d c m hok hex

/-- Changing only checksum octets of a protected message makes parsing fail (no assumption
    on the MAC at all). -/
theorem c07_tamper_icv (signed icv' : Bytes) (c : CryptoCtx) (m : Msg)
    (hlen : icv'.length = c.icvLen) (hne : icv' ≠ c.mac signed) (hex : m.hdr.exch ≠ 34) :
    parseMsg (signed ++ icv') false (some c) ≠ .ok m := by
  intro hok
  have := c07_accept_requires_valid_checksum _ c m hok hex
  rw [← hlen, dropLast_append, takeLast_append] at this
  exact hne this.symm

/-- Changing anything before the checksum (header, IV, ciphertext), or checking under another
    integrity key, fails whenever the MAC separates the two byte strings compared. -/
theorem c07_tamper_body (signed' icv : Bytes) (c : CryptoCtx) (m : Msg)
    (hlen : icv.length = c.icvLen) (hsep : c.mac signed' ≠ icv) (hex : m.hdr.exch ≠ 34) :
    parseMsg (signed' ++ icv) false (some c) ≠ .ok m := by
  intro hok
  have := c07_accept_requires_valid_checksum _ c m hok hex
  rw [← hlen, dropLast_append, takeLast_append] at this
  exact hsep this

/-! non-vacuity: the toy key context of the driver satisfies `Sound` -/
example : (Toy.ctx 16 12).Sound where
  block_pos := by decide
  mac_len := by intro d; simp [Toy.ctx, Toy.polyMac]
  enc_len := by intro iv pt; simp [Toy.ctx, Toy.xorStream]
  dec_enc := by
    intro iv pt h1 h2
    simp only [Toy.ctx] at h1 h2 ⊢
    have hl : (Toy.xorStream iv 16 pt).length = pt.length := by simp [Toy.xorStream]
    have hc : ¬ (iv.length ≠ 16 ∨ (Toy.xorStream iv 16 pt).length % 16 ≠ 0) := by rw [hl]; omega
    rw [if_neg hc]
    congr 1
    apply List.ext_getElem
    · simp [Toy.xorStream]
    · intro i h1' h2'
      simp [Toy.xorStream, Nat.xor_assoc]

end PyIkev2.Props.C07
