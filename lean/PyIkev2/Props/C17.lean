/-
  C17 — no datagram, kernel event or send failure can stop or wedge the daemon.

  The loop-iteration function of the controller model is total: for EVERY table, clock
  reading and event (datagram of any bytes from any address — represented by its two parse
  outcomes —, ACQUIRE / EXPIRE with any field values, control connection, failing
  transmission) and every handler instance it returns a table.  The theorems below
  characterise what an event can and cannot do.
-/
import PyIkev2.Proofs.Machine

namespace PyIkev2.Props.C17
open PyIkev2 PyIkev2.Impl

variable {τ : Type}

/-- a datagram too short to carry an IKE header (the header-only parse raises) interrupts the round and
    changes nothing: no IKE_SA is created, touched or removed, nothing is sent, no netlink request -/
theorem c17_short_datagram (H : Handlers τ) (t : τ) (c : Ctl) (now : Nat) (p : Option Msg) (me peer : Bytes) :
    dispatch H t c now none p me peer = (t, { ctl := c, sent := [], nl := [], escaped := true, ran := 0 }) := rfl

/-- an IKE_SA_INIT request from an address pair without configuration: likewise -/
theorem c17_unknown_peer (H : Handlers τ) (t t' : τ) (c : Ctl) (now : Nat) (h : Header) (p : Option Msg) (me peer : Bytes)
    (hk : h.exch = 34 ∧ h.isResp = false) (hn : H.newSa t now false h.spiI me peer = (t', none)) :
    (dispatch H t c now (some h) p me peer).2.ctl = c ∧ (dispatch H t c now (some h) p me peer).2.sent = [] ∧
    (dispatch H t c now (some h) p me peer).2.nl = [] := by
  simp [dispatch, hk.1, hk.2, hn]

/-- a datagram that is neither of the above can only raise inside a handler — and `_process_request` /
    `_process_response` contain whatever a handler raises: `process_message` never lets an exception out -/
theorem c17_process_message_contains (H : Handlers τ) (t : τ) (s : Sa) (now : Nat) (p : Option Msg) :
    (processMessage H t s now p).2.escaped = false := by
  cases p with
  | none => rfl
  | some m =>
    simp only [processMessage]
    cases gate s.core m with
    | drop => rfl
    | cached => rfl
    | pass =>
      by_cases hr : m.hdr.isResp = true
      · simp only [hr, if_true]
        unfold processResponse
        split
        · rfl
        · cases H.resp t (bumpMyId (touchDpd s now)) now m with
          | mk t' oo =>
            cases oo with
            | none => rfl
            | some o =>
              cases hres : o.res with
              | request r => simp [hres]
              | reply r => simp [hres]
              | ikeError n => simp [hres]
              | otherError n => simp [hres]
              | nothing =>
                simp only [hres]
                split
                · split <;> simp_all
                · rfl
      · simp only [hr, if_false, Bool.false_eq_true]
        unfold processRequest
        split
        · rfl
        · split
          · rfl
          · cases H.req t (touchDpd s now) now m with
            | mk t' oo =>
              cases oo with
              | none => rfl
              | some o => cases o.res <;> rfl

/-- hence routing a datagram to an existing IKE_SA never interrupts the round -/
theorem c17_routed_datagram_contained (H : Handlers τ) (t : τ) (c : Ctl) (now : Nat) (h : Header) (p : Option Msg) (me peer : Bytes)
    (hk : ¬ (h.exch = 34 ∧ h.isResp = false)) :
    (dispatch H t c now (some h) p me peer).2.escaped = false := by
  have hk' : ¬ (h.exch = 34 ∧ ¬ h.isResp = true) := by
    intro ⟨a, b⟩; exact hk ⟨a, by simpa using b⟩
  simp only [dispatch, hk', if_false]
  split
  · rfl
  · split
    · rfl
    · exact c17_process_message_contains H t _ now p

/-- the retransmission timer raises only when a request-outstanding state has no stored request -/
theorem c17_retransmission_safe (s : Sa) (now : Nat) (h : waiting s.core.st = true → s.core.request.isSome) :
    (checkRetransmission s now).escaped = false := by
  simp only [checkRetransmission]
  split
  · rename_i hw
    split
    · split
      · rfl
      · have := h hw
        simp [Option.isNone_iff_eq_none, Option.isSome_iff_exists] at this ⊢
        obtain ⟨r, hr⟩ := this
        simp [hr]
    · rfl
  · rfl

/-- an interrupted round keeps the table it had reached and the next round starts from it: the
    iteration function returns a table for every input (totality is what "the loop comes back" means
    for the model; the bound on executed lines of the real loop is measured by the oracle) -/
theorem c17_always_returns (H : Handlers τ) (t : τ) (c : Ctl) (now : Nat) (ev : LoopEv) :
    ∃ t' o, loopIter H t c now ev = (t', o) := ⟨_, _, rfl⟩

/-- frame: a datagram changes at most the IKE_SA it is routed to (slot `i`) and the end of the table —
    every IKE_SA before it is exactly as it was, so what it does later is what it would have done -/
theorem c17_frame (H : Handlers τ) (t : τ) (c : Ctl) (now : Nat) (h : Header) (p : Option Msg) (me peer : Bytes) (i j : Nat) (s : Sa)
    (hk : ¬ (h.exch = 34 ∧ h.isResp = false))
    (hi : (c.sas.findIdx? fun s => decide (s.core.mySpi = selectedSpi h)) = some i) (hs : c.sas[i]? = some s) (hj : j < i) :
    (dispatch H t c now (some h) p me peer).2.ctl.sas[j]? = c.sas[j]? := by
  have hk' : ¬ (h.exch = 34 ∧ ¬ h.isResp = true) := by
    intro ⟨a, b⟩; exact hk ⟨a, by simpa using b⟩
  have hlt : i < c.sas.length := by
    rcases Nat.lt_or_ge i c.sas.length with h1 | h1
    · exact h1
    · rw [List.getElem?_eq_none h1] at hs; exact absurd hs (by simp)
  simp only [dispatch, hk', if_false, hi, hs]
  -- afterMessage touches slot i and the tail only
  have hset : ∀ x : Sa, (c.sas.set i x)[j]? = c.sas[j]? := fun x => List.getElem?_set_ne (by omega)
  unfold afterMessage
  simp only
  split
  · rw [List.getElem?_eraseIdx_of_lt hj, List.getElem?_set_ne (by omega)]
    split
    · split
      · split
        · exact hset _
        · rw [List.getElem?_append_left (by simp; omega)]; exact hset _
      · exact hset _
    · exact hset _
  · split
    · split
      · split
        · exact hset _
        · rw [List.getElem?_append_left (by simp; omega)]; exact hset _
      · exact hset _
    · exact hset _

end PyIkev2.Props.C17
