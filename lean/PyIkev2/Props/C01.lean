/-
  C01 — peers derive the same keys and install mirror-image IPsec SAs; keys per RFC direction.

  The key material both ends compute is equal by C04 (same function of the same wire values, DH agreement); this
  file proves what happens to it afterwards: the SA each end installs, field by field, as a function of the agreed
  values — for ALL agreed values at once, because the interpretation is symbolic.
-/
import PyIkev2.Model.Mirror
import PyIkev2.Props.C04
import PyIkev2.Proofs.TwoEndsCreate

namespace PyIkev2.Props.C01
open PyIkev2 PyIkev2.Impl

/-- tie to the source: what the model interprets is what the code says today -/
theorem c01_flow_from_source :
    Gen.Calls.roleFlagInitiator = ["True"] ∧ Gen.Calls.roleFlagResponder = ["False"] ∧
    Gen.Calls.createSaParams.length = 15 ∧ Gen.Calls.callOut.length = 15 ∧ Gen.Calls.callIn.length = 15 := by decide

/-- **Mirror images.** The outbound SA of one end is, parameter for parameter, the inbound SA of the other:
    SPI, tunnel source and destination, protocol, mode, algorithms, keys, selectors and ports. -/
theorem c01_mirror :
    outboundSa .initiator = inboundSa .responder ∧ outboundSa .responder = inboundSa .initiator := by decide

/-- **Direction of the keys** (RFC 7296 2.17: initiator-to-responder keys first): the SA from the exchange
    initiator to the responder carries SK_ei / SK_ai, the opposite one SK_er / SK_ar — on both hosts. -/
theorem c01_key_direction :
    field (outboundSa .initiator) "sk_e" = some (.key .ei) ∧ field (outboundSa .initiator) "sk_a" = some (.key .ai) ∧
    field (outboundSa .responder) "sk_e" = some (.key .er) ∧ field (outboundSa .responder) "sk_a" = some (.key .ar) ∧
    field (inboundSa .initiator) "sk_e" = some (.key .er) ∧ field (inboundSa .responder) "sk_e" = some (.key .ei) := by decide

/-- what the initiator→responder SA says, spelled out: SPI chosen by the responder, from the initiator's to the
    responder's address, traffic from TSi to TSr -/
theorem c01_outbound_of_initiator :
    field (outboundSa .initiator) "spi" = some (.spiOf .responder) ∧
    field (outboundSa .initiator) "src" = some (.addr .initiator) ∧ field (outboundSa .initiator) "dst" = some (.addr .responder) ∧
    field (outboundSa .initiator) "src_selector" = some (.net .tsi) ∧ field (outboundSa .initiator) "dst_selector" = some (.net .tsr) ∧
    field (outboundSa .initiator) "src_port" = some (.port .tsi) ∧ field (outboundSa .initiator) "dst_port" = some (.port .tsr) ∧
    field (outboundSa .initiator) "mode" = some .mode ∧ field (outboundSa .initiator) "ipsec_proto" = some .ipsecProto ∧
    field (outboundSa .initiator) "enc_algorithm" = some .encAlg ∧ field (outboundSa .initiator) "auth_algorithm" = some .integAlg := by
  decide

/-- the reverse SA is the same with the two ends exchanged (reversed selectors, other SPI, other keys) -/
theorem c01_reverse_sa :
    field (outboundSa .responder) "spi" = some (.spiOf .initiator) ∧
    field (outboundSa .responder) "src" = some (.addr .responder) ∧ field (outboundSa .responder) "dst" = some (.addr .initiator) ∧
    field (outboundSa .responder) "src_selector" = some (.net .tsr) ∧ field (outboundSa .responder) "dst_selector" = some (.net .tsi) ∧
    field (outboundSa .responder) "src_port" = some (.port .tsr) ∧ field (outboundSa .responder) "dst_port" = some (.port .tsi) := by
  decide

/-- nothing is left uninterpreted: every parameter of every installed SA is one of the agreed values -/
def isUnknown : V → Bool
  | .unknown _ => true
  | _ => false

theorem c01_no_unknown (r : Role) :
    (outboundSa r ++ inboundSa r).all (fun e => ! isUnknown e.2) = true := by cases r <;> decide

/-- deletion names exactly the two SAs that were installed: (peer address, protocol, outbound SPI) and
    (own address, protocol, inbound SPI) -/
theorem c01_delete_matches_install (r : Role) :
    deletedKeys r =
      [[(field (outboundSa r) "dst").getD (.unknown ""), .ipsecProto, (field (outboundSa r) "spi").getD (.unknown "")],
       [(field (inboundSa r) "dst").getD (.unknown ""), .ipsecProto, (field (inboundSa r) "spi").getD (.unknown "")]] := by
  cases r <;> decide

/-- both ends hold the same IKE_SA keys, each protecting with those of its own direction and verifying with the
    peer's (C04), and the MODP shared secret is the same on both sides (proved, C04) -/
theorem c01_ike_keys_agree (k : Keyring) (p g a b : Nat) :
    myCryptoKeys k true = peerCryptoKeys k false ∧ myCryptoKeys k false = peerCryptoKeys k true ∧
    (g ^ a % p) ^ b % p = (g ^ b % p) ^ a % p := by
  have h := C04.c04_role_keys k
  exact ⟨by rw [h.1, h.2.2.2], by rw [h.2.2.1, h.2.1], C04.c04_modp_agreement p g a b⟩

/-! ### both ends (two ends of the handler model, `Proofs/TwoEnds*.lean`) -/

/-- after any sequence of CHILD_SA creations, rekeys and deletions started by either end (one exchange at a time, no handler raising):
    the CHILD_SAs of the two ends are mirror images — for every record at one end there is one at the other with inbound and outbound
    SPI exchanged and the same protocol, and nothing else (as multisets) -/
theorem c01_concrete_child_sas_of_the_two_ends_are_mirror_images (now fuel : Nat) (ops : List ChildOp) (a b a' b' : HSt)
    (h : Agree a b) (hx : opRun now fuel (a, b) ops = some (a', b')) :
    (a'.me.ext.kids.map Child.view).Perm (b'.me.ext.kids.map Child.peerView) :=
  (Agree.opRun now fuel ops a b a' b' h hx).mirror

end PyIkev2.Props.C01
