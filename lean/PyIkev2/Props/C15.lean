/-
  C15 — installed policies mirror the configuration and acquires map back to it.
-/
import PyIkev2.Gen.Calls
import PyIkev2.Proofs.Machine

namespace PyIkev2.Props.C15
open PyIkev2 PyIkev2.Impl

variable {τ : Type}

/-- tie to the source: at start-up the SPD and the SAD are flushed before any policy is installed; on shutdown both are
    flushed; per protect entry three policies are requested — OUT with the entry's selectors, protocol, mode, tunnel
    endpoints and the index, IN and FWD with selectors, ports and endpoints exchanged and no index —; the outbound index
    is `entry index << 3 | OUT` and an ACQUIRE's entry is recovered as `policy index >> 3` -/
theorem c15_flow_from_source :
    Gen.Calls.startup = ["flush_policies", "flush_sas", "create_policies"] ∧
    Gen.Calls.shutdown = ["flush_policies", "flush_sas"] ∧
    Gen.Calls.policyParams = ["src_selector", "dst_selector", "src_port", "dst_port", "ip_proto", "direction", "ipsec_proto", "mode",
                              "src", "dst", "index"] ∧
    Gen.Calls.policyCalls =
      [["src_selector", "dst_selector", "src_port", "dst_port", "ip_proto", "XFRM_POLICY_OUT", "ipsec_proto", "ipsec_conf.mode",
        "ike_conf.my_addr", "ike_conf.peer_addr", "index=index"],
       ["dst_selector", "src_selector", "dst_port", "src_port", "ip_proto", "XFRM_POLICY_IN", "ipsec_proto", "ipsec_conf.mode",
        "ike_conf.peer_addr", "ike_conf.my_addr"],
       ["dst_selector", "src_selector", "dst_port", "src_port", "ip_proto", "XFRM_POLICY_FWD", "ipsec_proto", "ipsec_conf.mode",
        "ike_conf.peer_addr", "ike_conf.my_addr"]] ∧
    Gen.Calls.policyLocals =
      [("src_selector", "ipsec_conf.my_ts.get_network()"), ("dst_selector", "ipsec_conf.peer_ts.get_network()"),
       ("src_port", "ipsec_conf.my_ts.get_port()"), ("dst_port", "ipsec_conf.peer_ts.get_port()"),
       ("ip_proto", "ipsec_conf.my_ts.ip_proto"),
       ("ipsec_proto", "socket.IPPROTO_ESP if ipsec_conf.proposal.protocol_id == Proposal.Protocol.ESP else socket.IPPROTO_AH")] ∧
    Gen.Calls.policyIndex = "ipsec_conf.index << 3 | XFRM_POLICY_OUT" ∧
    Gen.Calls.acquireIndex = "xfrm_acquire.policy.index >> 3" := by decide

/-- the inbound and forward policies are the outbound one with the two ends exchanged: selectors, ports, tunnel endpoints -/
theorem c15_in_fwd_are_out_reversed :
    let out := Gen.Calls.policyCalls.getD 0 []
    let swap := fun (l : List String) => [l.getD 1 "", l.getD 0 "", l.getD 3 "", l.getD 2 "", l.getD 4 "", l.getD 5 "", l.getD 6 "",
                                          l.getD 7 "", l.getD 9 "", l.getD 8 ""]
    (Gen.Calls.policyCalls.getD 1 []).take 5 = (swap out).take 5 ∧ (Gen.Calls.policyCalls.getD 1 []).drop 6 = (swap out).drop 6 ∧
    (Gen.Calls.policyCalls.getD 2 []).take 5 = (swap out).take 5 ∧ (Gen.Calls.policyCalls.getD 2 []).drop 6 = (swap out).drop 6 := by
  decide

/-- index round trip: the entry index put into the outbound policy (`idx << 3 | 1`, a 32-bit field) comes back from an
    ACQUIRE as `>> 3`, and the low bits say "outbound", for every index below 2^29 -/
theorem c15_index_roundtrip (idx : Nat) (h : idx < 2 ^ 29) :
    ((idx <<< 3 ||| 1) % 2 ^ 32) >>> 3 = idx ∧ (idx <<< 3 ||| 1) % 8 = 1 := by
  have h1 : idx <<< 3 ||| 1 = idx * 8 + 1 := by
    rw [← Nat.shiftLeft_add_eq_or_of_lt (by decide : 1 < 2 ^ 3) idx, Nat.shiftLeft_eq]
  rw [h1, Nat.shiftRight_eq_div_pow]
  constructor
  · have : idx * 8 + 1 < 2 ^ 32 := by omega
    rw [Nat.mod_eq_of_lt this]; omega
  · omega

/-- beyond 2^29 the 32-bit field truncates and the round trip fails (so the hypothesis is needed; configuration indices are
    drawn below 2^20 or given explicitly) -/
theorem c15_index_roundtrip_fails_beyond : ((2 ^ 29 <<< 3 ||| 1) % 2 ^ 32) >>> 3 ≠ 2 ^ 29 := by decide

/-- an ACQUIRE whose index names no protect entry of the connection is ignored: nothing is sent, nothing changes -/
theorem c15_acquire_unknown_index_ignored (H : Handlers τ) (t : τ) (s : Sa) (now : Nat) (a b : TS) (i : Nat)
    (hst : s.core.st = stINITIAL ∨ s.core.st = stESTABLISHED) (hi : s.core.indices.contains i = false) :
    processAcquire H t s now a b i = (t, { sa := s }) := by
  have h1 : ¬ (s.core.st ≠ stINITIAL ∧ s.core.st ≠ stESTABLISHED) := by
    rcases hst with h | h <;> simp [h, stINITIAL, stESTABLISHED]
  unfold processAcquire
  rw [if_neg h1, if_pos (by rw [hi]; simp)]

/-- an ACQUIRE re-uses an IKE_SA with the peer's address that we initiated or that is established, else starts a new initiator -/
theorem c15_acquire_new_initiator (H : Handlers τ) (t t' : τ) (c : Ctl) (now : Nat) (me peer : Bytes) (a b : TS) (i : Nat) (n : SaCore)
    (hnone : ∀ s ∈ c.sas, ¬ (s.core.peerAddr = peer ∧ (s.core.isInit = true ∨ s.core.st ≥ stESTABLISHED)))
    (hn : H.newSa t now true (List.replicate 8 0) me peer = (t', some n)) :
    (ctlAcquire H t c now me peer a b i).2.ctl.sas = c.sas ++ [(processAcquire H t' { core := n, succ := none } now a b i).2.sa] := by
  have hf : (c.sas.findIdx? fun s => decide (s.core.peerAddr = peer ∧ (s.core.isInit = true ∨ s.core.st ≥ stESTABLISHED))) = none := by
    rw [List.findIdx?_eq_none_iff]
    intro s hs
    simpa using hnone s hs
  simp only [ctlAcquire]
  rw [hf]
  simp only [hn]

end PyIkev2.Props.C15
