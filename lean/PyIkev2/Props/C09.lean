/-
  C09 — colliding exchanges leave both peers consistent: no crash, no deadlock.

  Proved here (shell model, every handler instance): which states admit which exchange (regenerated from the
  source), that triggers arriving while a request is outstanding are queued in order and lose nothing, that the
  request generators are invoked only in the states they assert, and that no entry point lets an exception out
  unless a generator itself raises.  Agreement of the two peers after overlapping exchanges is NOT proved: it is
  explored exhaustively to a bounded depth and by random walks on the real code (harness/c09.py).
-/
import PyIkev2.Proofs.Machine
import PyIkev2.Gen.Machine
import PyIkev2.Proofs.HandlersCollide

namespace PyIkev2.Props.C09
open PyIkev2 PyIkev2.Impl

variable {τ : Type}

/-- tie to the source: the states each handler admits (`_check_in_states`, `range(...)` expanded) -/
theorem c09_admission_from_source :
    Gen.Machine.admission =
      [("process_create_child_sa_request", [10, 11, 12, 13, 14, 15, 16, 17]),
       ("process_create_child_sa_response", [11, 12, 13]),
       ("process_ike_auth_request", [1]), ("process_ike_auth_response", [3]),
       ("process_ike_sa_init_request", [0]), ("process_ike_sa_init_response", [2]),
       ("process_informational_request", [10, 11, 12, 13, 14, 15, 16, 17, 20]),
       ("process_informational_response", [14, 15, 16, 17])] ∧
    Gen.Machine.stateCodes.map (·.2) = [0, 1, 2, 3, 10, 11, 12, 13, 14, 15, 16, 17, 20, 21] := by decide

/-- every live state answers a request with the expected Message ID: INFORMATIONAL is admitted in all of
    ESTABLISHED … REKEYED, CREATE_CHILD_SA in ESTABLISHED … DPD_REQ_SENT -/
theorem c09_requests_admitted_in_live_states :
    (∀ st, st ∈ [10, 11, 12, 13, 14, 15, 16, 17, 20] →
      st ∈ ((Gen.Machine.admission.find? fun e => e.1 = "process_informational_request").map (·.2)).getD []) ∧
    (∀ st, st ∈ [10, 11, 12, 13, 14, 15, 16, 17] →
      st ∈ ((Gen.Machine.admission.find? fun e => e.1 = "process_create_child_sa_request").map (·.2)).getD []) := by decide

/-- a trigger that arrives while a request is outstanding is queued at the end and changes nothing else -/
theorem c09_acquire_queued (H : Handlers τ) (t : τ) (s : Sa) (now : Nat) (a b : TS) (i : Nat)
    (h : s.core.st ≠ stINITIAL ∧ s.core.st ≠ stESTABLISHED) :
    processAcquire H t s now a b i =
      (t, { sa := { s with core := { s.core with pending := s.core.pending ++ [.acquire a b i] } } }) := by
  simp [processAcquire, h]

theorem c09_expire_queued (H : Handlers τ) (t : τ) (s : Sa) (now : Nat) (spi : Bytes) (hard : Bool)
    (h : s.core.st ≠ stESTABLISHED) :
    processExpire H t s now spi hard =
      (t, { sa := { s with core := { s.core with pending := s.core.pending ++ [.expire spi hard] } } }) := by
  simp [processExpire, h]

/-- the request generators are invoked only in the states they assert: an ACQUIRE generates in INITIAL or
    ESTABLISHED, an EXPIRE / DPD / lifetime only in ESTABLISHED — so their `assert`s cannot fail -/
theorem c09_generators_in_asserted_states (H : Handlers τ) (t : τ) (s : Sa) (now : Nat) :
    (∀ a b i, (processAcquire H t s now a b i).2.ran ≥ 1 → s.core.st = stINITIAL ∨ s.core.st = stESTABLISHED) ∧
    (∀ spi hard, (processExpire H t s now spi hard).2.ran ≥ 1 → s.core.st = stESTABLISHED) ∧
    ((checkDpd H t s now).2.ran ≥ 1 → s.core.st = stESTABLISHED) ∧
    ((checkRekey H t s now).2.ran ≥ 1 → s.core.st = stESTABLISHED) := by
  refine ⟨?_, ?_, ?_, ?_⟩
  · intro a b i h
    unfold processAcquire at h
    split at h
    · simp at h
    · rename_i hst
      by_cases h0 : s.core.st = stINITIAL
      · exact Or.inl h0
      · by_cases h1 : s.core.st = stESTABLISHED
        · exact Or.inr h1
        · exact absurd ⟨h0, h1⟩ hst
  · intro spi hard h
    unfold processExpire at h
    split at h
    · simp at h
    · rename_i hst; simpa using hst
  · intro h
    unfold checkDpd at h
    split at h
    · rename_i hc; exact hc.2
    · simp at h
  · intro h
    unfold checkRekey at h
    split at h
    · rename_i hc; exact hc
    · simp at h

/-- an exception leaves `process_acquire` / `process_expire` / a timer only if the generator itself raised -/
theorem c09_escape_only_from_generator (H : Handlers τ) (t : τ) (s : Sa) (now : Nat) (a b : TS) (i : Nat) :
    (processAcquire H t s now a b i).2.escaped = true →
      ∀ r, (H.genAcquire t s now a b i).2.res ≠ .request r := by
  intro h r hr
  unfold processAcquire at h
  split at h
  · simp at h
  · split at h
    · simp at h
    · simp [hr] at h

/-- the datagram entry point never lets an exception out (whatever the handlers raise): see C17 -/
theorem c09_process_message_total (H : Handlers τ) (t : τ) (s : Sa) (now : Nat) :
    (processMessage H t s now none).2.escaped = false := rfl

/-! ### what the real handlers answer when exchanges cross (RFC 7296 section 2.25), in the model of Model/Handlers.lean

  Exact results — the reply payloads, and that the IKE_SA object, its successor, the kernel and the oracle tape are untouched —
  for every request of the shape concerned, in every state concerned. -/

/-- an IKE_SA rekey request while this end is not plainly ESTABLISHED (its own request outstanding: new CHILD_SA, CHILD_SA rekey,
    IKE_SA rekey, delete, DPD; or already rekeyed): TEMPORARY_FAILURE and nothing else -/
theorem c09_concrete_ike_rekey_while_busy (now : Nat) (request : Msg) (p0 : Proposal) (s : HSt) (h : s.me.core.st ≠ stESTABLISHED) :
    ikeRekeyRequest now request p0 s = (.ok [mkNotify 0 nTEMPORARY_FAILURE [] []], s) :=
  ikeRekeyRequest_busy now request p0 s h

/-- a CHILD_SA request (new or rekey) while this end is rekeying or deleting the IKE_SA: TEMPORARY_FAILURE and nothing else -/
theorem c09_concrete_child_request_while_ike_sa_in_transition (request : Msg) (s : HSt) (sa : List Proposal) (tsi tsr : List TS)
    (h1 : paySA request true = .ok sa) (h2 : payTS request ptTSi true = .ok tsi) (h3 : payTS request ptTSr true = .ok tsr)
    (hst : s.me.core.st = stREK_IKE_SA_REQ_SENT ∨ s.me.core.st = stDEL_IKE_SA_REQ_SENT) :
    childNegotiationReq request s = (.ok [mkNotify 0 nTEMPORARY_FAILURE [] []], s) :=
  childNegotiationReq_ike_busy request s sa tsi tsr h1 h2 h3 hst

/-- a rekey request for a CHILD_SA this end does not (or no longer) have: CHILD_SA_NOT_FOUND naming that protocol and SPI -/
theorem c09_concrete_rekey_of_unknown_child (request : Msg) (s : HSt) (sa : List Proposal) (tsi tsr : List TS) (proto : Nat) (spi d : Bytes)
    (tl : List (Nat × Bytes × Bytes))
    (h1 : paySA request true = .ok sa) (h2 : payTS request ptTSi true = .ok tsi) (h3 : payTS request ptTSr true = .ok tsr)
    (hst : ¬ (s.me.core.st = stREK_IKE_SA_REQ_SENT ∨ s.me.core.st = stDEL_IKE_SA_REQ_SENT))
    (hn : getNotifies request nREKEY_SA true = (proto, spi, d) :: tl) (hk : getKidOut s.me.ext.kids spi = none) :
    childNegotiationReq request s = (.ok [mkNotify proto nCHILD_SA_NOT_FOUND spi []], s) :=
  childNegotiationReq_of_prelude_error request s sa tsi tsr _ h1 h2 h3 hst
    (childRekeyPrelude_unknown request sa tsi tsr s proto spi d tl hn hk) ⟨proto, nCHILD_SA_NOT_FOUND, spi, [], rfl, Or.inl rfl⟩

/-- a rekey request for the very CHILD_SA this end is deleting, or is rekeying itself: TEMPORARY_FAILURE and nothing else -/
theorem c09_concrete_rekey_crossing_own_delete_or_rekey (request : Msg) (s : HSt) (sa : List Proposal) (tsi tsr : List TS) (proto : Nat)
    (spi d : Bytes) (tl : List (Nat × Bytes × Bytes)) (old : Child)
    (h1 : paySA request true = .ok sa) (h2 : payTS request ptTSi true = .ok tsi) (h3 : payTS request ptTSr true = .ok tsr)
    (hst : ¬ (s.me.core.st = stREK_IKE_SA_REQ_SENT ∨ s.me.core.st = stDEL_IKE_SA_REQ_SENT))
    (hn : getNotifies request nREKEY_SA true = (proto, spi, d) :: tl) (hk : getKidOut s.me.ext.kids spi = some old)
    (hb : (s.me.core.st = stDEL_CHILD_REQ_SENT ∧ s.me.ext.deleting.map (childEq old) = some true) ∨
          (s.me.core.st = stREK_CHILD_REQ_SENT ∧ s.me.ext.rekeying.map (childEq old) = some true)) :
    childNegotiationReq request s = (.ok [mkNotify 0 nTEMPORARY_FAILURE [] []], s) :=
  childNegotiationReq_of_prelude_error request s sa tsi tsr _ h1 h2 h3 hst
    (childRekeyPrelude_busy request sa tsi tsr s proto spi d tl old hn hk hb) ⟨0, nTEMPORARY_FAILURE, [], [], rfl, Or.inr rfl⟩

/-! ### which CHILD_SA a DELETE from the peer names

Each end chooses the SPIs of its own inbound SAs, so the same 4-octet value may be the inbound SPI of one CHILD_SA and the
outbound SPI of another.  The peer names a CHILD_SA by the SPI of *its* inbound SA (RFC 7296 1.4.1) — our outbound one.
(The pinned tree matched the value against both directions and deleted the wrong CHILD_SA when values coincided: D17.) -/

/-- a DELETE naming `spi` removes the first CHILD_SA whose *outbound* SPI is `spi` (when its protocol is the payload's), and
    answers with that CHILD_SA's inbound SPI -/
theorem c09_concrete_delete_names_our_outbound_spi (proto : Nat) (spi : Bytes) (acc : List Payload) (s : HSt) (c : Child)
    (hk : getKidOut s.me.ext.kids spi = some c) (hp : c.proposal.proto = proto) :
    c.outSpi = spi ∧ c ∈ s.me.ext.kids ∧
    deleteSpis proto [spi] acc s = (.ok (acc ++ [mkP ptDELETE (.delete proto [c.inSpi])]), (untrackChild c s).2) := by
  refine ⟨?_, ?_, ?_⟩
  · have := List.find?_some hk; exact (by simpa using this : spi = c.outSpi).symm
  · exact List.mem_of_find?_eq_some hk
  · simp only [deleteSpis, HM.bind_def, getMe, hk, hp, if_true, HM.pure_def]
    cases h : untrackChild c s with
    | mk r s' =>
      have : r = .ok () := by
        unfold untrackChild at h; split at h <;> · cases h; rfl
      subst this; rfl

/-- a value that is nobody's outbound SPI deletes nothing — in particular not the CHILD_SA that has it as its inbound SPI -/
theorem c09_concrete_delete_ignores_our_inbound_spis (proto : Nat) (spi : Bytes) (acc : List Payload) (s : HSt)
    (hk : ∀ c ∈ s.me.ext.kids, c.outSpi ≠ spi) :
    deleteSpis proto [spi] acc s = (.ok acc, s) := by
  have : getKidOut s.me.ext.kids spi = none := by
    unfold getKidOut; rw [List.find?_eq_none]; intro c hc; simpa using fun h => hk c hc h.symm
  simp only [deleteSpis, HM.bind_def, getMe, this, HM.pure_def]

/-- non-vacuity: two CHILD_SAs, the first with inbound SPI `v`, the second with outbound SPI `v`: a DELETE naming `v` finds the second -/
example :
    let p : Proposal := ⟨1, 3, [], []⟩
    let k1 : Child := ⟨[1, 2, 3, 4], [9, 9, 9, 9], p, p, [], [], 1, 0⟩
    let k2 : Child := ⟨[5, 6, 7, 8], [1, 2, 3, 4], p, p, [], [], 1, 0⟩
    getKidOut [k1, k2] [1, 2, 3, 4] = some k2 ∧ getKid [k1, k2] [1, 2, 3, 4] = some k1 := by decide

end PyIkev2.Props.C09
