/-
  C09 — colliding exchanges leave both peers consistent: no crash, no deadlock.

  Proved here (shell model, every handler instance): which states admit which exchange (regenerated from the
  source), that triggers arriving while a request is outstanding are queued in order and lose nothing, that the
  request generators are invoked only in the states they assert, and that no entry point lets an exception out
  unless a generator itself raises.  Agreement of the two peers is proved for CHILD_SA exchanges that do not overlap (two ends of
  the handler model exchanging the model's messages): any sequence of creations, rekeys and deletions started by either end —
  with every refusal, every INVALID_KE_PAYLOAD round, the delete that follows a rekey and the delete of a CHILD_SA the initiator
  cannot accept — and of deletions started by both ends at once leaves the ends mirror images of each other, whatever SPI values
  coincide across the ends; and an IKE_SA rekey conversation (with its INVALID_KE_PAYLOAD rounds, its refusals and the deletion of
  the replaced IKE_SA) leaves two successors that agree as their predecessors did and know each other's SPIs.  For overlapping
  exchanges other than crossing deletes it is NOT proved: it is explored exhaustively to a bounded depth and by random walks on the
  real code (harness/c09.py).
-/
import PyIkev2.Proofs.Machine
import PyIkev2.Gen.Machine
import PyIkev2.Proofs.HandlersCollide
import PyIkev2.Proofs.TwoEnds
import PyIkev2.Proofs.TwoEndsCreate
import PyIkev2.Proofs.TwoEndsRekey
import PyIkev2.Proofs.TwoEndsInit
import PyIkev2.Proofs.TwoEndsCross

namespace PyIkev2.Props.C09
open PyIkev2 PyIkev2.Impl

variable {τ : Type}

/-- tie to the source: the states each handler admits (`_check_in_states`, `range(...)` expanded) -/
theorem c09_admission_from_source :
    Gen.Machine.admission =
      [("process_create_child_sa_request", [10, 11, 12, 13, 14, 15, 16, 17]),
       ("process_create_child_sa_response", [11, 12, 13]),
       ("process_ike_auth_request", [1]), ("process_ike_auth_response", [3]),
       ("process_ike_sa_init_request", [0]), ("process_ike_sa_init_response", [2]),
       ("process_informational_request", [10, 11, 12, 13, 14, 15, 16, 17, 20]),
       ("process_informational_response", [14, 15, 16, 17])] ∧
    Gen.Machine.stateCodes.map (·.2) = [0, 1, 2, 3, 10, 11, 12, 13, 14, 15, 16, 17, 20, 21] := by decide

/-- every live state answers a request with the expected Message ID: INFORMATIONAL is admitted in all of
    ESTABLISHED … REKEYED, CREATE_CHILD_SA in ESTABLISHED … DPD_REQ_SENT -/
theorem c09_requests_admitted_in_live_states :
    (∀ st, st ∈ [10, 11, 12, 13, 14, 15, 16, 17, 20] →
      st ∈ ((Gen.Machine.admission.find? fun e => e.1 = "process_informational_request").map (·.2)).getD []) ∧
    (∀ st, st ∈ [10, 11, 12, 13, 14, 15, 16, 17] →
      st ∈ ((Gen.Machine.admission.find? fun e => e.1 = "process_create_child_sa_request").map (·.2)).getD []) := by decide

/-- a trigger that arrives while a request is outstanding is queued at the end and changes nothing else -/
theorem c09_acquire_queued (H : Handlers τ) (t : τ) (s : Sa) (now : Nat) (a b : TS) (i : Nat)
    (h : s.core.st ≠ stINITIAL ∧ s.core.st ≠ stESTABLISHED) :
    processAcquire H t s now a b i =
      (t, { sa := { s with core := { s.core with pending := s.core.pending ++ [.acquire a b i] } } }) := by
  simp [processAcquire, h]

theorem c09_expire_queued (H : Handlers τ) (t : τ) (s : Sa) (now : Nat) (spi : Bytes) (hard : Bool)
    (h : s.core.st ≠ stESTABLISHED) :
    processExpire H t s now spi hard =
      (t, { sa := { s with core := { s.core with pending := s.core.pending ++ [.expire spi hard] } } }) := by
  simp [processExpire, h]

/-- the request generators are invoked only in the states they assert: an ACQUIRE generates in INITIAL or
    ESTABLISHED, an EXPIRE / DPD / lifetime only in ESTABLISHED — so their `assert`s cannot fail -/
theorem c09_generators_in_asserted_states (H : Handlers τ) (t : τ) (s : Sa) (now : Nat) :
    (∀ a b i, (processAcquire H t s now a b i).2.ran ≥ 1 → s.core.st = stINITIAL ∨ s.core.st = stESTABLISHED) ∧
    (∀ spi hard, (processExpire H t s now spi hard).2.ran ≥ 1 → s.core.st = stESTABLISHED) ∧
    ((checkDpd H t s now).2.ran ≥ 1 → s.core.st = stESTABLISHED) ∧
    ((checkRekey H t s now).2.ran ≥ 1 → s.core.st = stESTABLISHED) := by
  refine ⟨?_, ?_, ?_, ?_⟩
  · intro a b i h
    unfold processAcquire at h
    split at h
    · simp at h
    · rename_i hst
      by_cases h0 : s.core.st = stINITIAL
      · exact Or.inl h0
      · by_cases h1 : s.core.st = stESTABLISHED
        · exact Or.inr h1
        · exact absurd ⟨h0, h1⟩ hst
  · intro spi hard h
    unfold processExpire at h
    split at h
    · simp at h
    · rename_i hst; simpa using hst
  · intro h
    unfold checkDpd at h
    split at h
    · rename_i hc; exact hc.2
    · simp at h
  · intro h
    unfold checkRekey at h
    split at h
    · rename_i hc; exact hc
    · simp at h

/-- an exception leaves `process_acquire` / `process_expire` / a timer only if the generator itself raised -/
theorem c09_escape_only_from_generator (H : Handlers τ) (t : τ) (s : Sa) (now : Nat) (a b : TS) (i : Nat) :
    (processAcquire H t s now a b i).2.escaped = true →
      ∀ r, (H.genAcquire t s now a b i).2.res ≠ .request r := by
  intro h r hr
  unfold processAcquire at h
  split at h
  · simp at h
  · split at h
    · simp at h
    · simp [hr] at h

/-- the datagram entry point never lets an exception out (whatever the handlers raise): see C17 -/
theorem c09_process_message_total (H : Handlers τ) (t : τ) (s : Sa) (now : Nat) :
    (processMessage H t s now none).2.escaped = false := rfl

/-! ### what the real handlers answer when exchanges cross (RFC 7296 section 2.25), in the model of Model/Handlers.lean

  Exact results — the reply payloads, and that the IKE_SA object, its successor, the kernel and the oracle tape are untouched —
  for every request of the shape concerned, in every state concerned. -/

/-- an IKE_SA rekey request while this end is not plainly ESTABLISHED (its own request outstanding: new CHILD_SA, CHILD_SA rekey,
    IKE_SA rekey, delete, DPD; or already rekeyed): TEMPORARY_FAILURE and nothing else -/
theorem c09_concrete_ike_rekey_while_busy (now : Nat) (request : Msg) (p0 : Proposal) (s : HSt) (h : s.me.core.st ≠ stESTABLISHED) :
    ikeRekeyRequest now request p0 s = (.ok [mkNotify 0 nTEMPORARY_FAILURE [] []], s) :=
  ikeRekeyRequest_busy now request p0 s h

/-- a CHILD_SA request (new or rekey) while this end is rekeying or deleting the IKE_SA: TEMPORARY_FAILURE and nothing else -/
theorem c09_concrete_child_request_while_ike_sa_in_transition (request : Msg) (s : HSt) (sa : List Proposal) (tsi tsr : List TS)
    (h1 : paySA request true = .ok sa) (h2 : payTS request ptTSi true = .ok tsi) (h3 : payTS request ptTSr true = .ok tsr)
    (hst : s.me.core.st = stREK_IKE_SA_REQ_SENT ∨ s.me.core.st = stDEL_IKE_SA_REQ_SENT) :
    childNegotiationReq request s = (.ok [mkNotify 0 nTEMPORARY_FAILURE [] []], s) :=
  childNegotiationReq_ike_busy request s sa tsi tsr h1 h2 h3 hst

/-- a rekey request for a CHILD_SA this end does not (or no longer) have: CHILD_SA_NOT_FOUND naming that protocol and SPI -/
theorem c09_concrete_rekey_of_unknown_child (request : Msg) (s : HSt) (sa : List Proposal) (tsi tsr : List TS) (proto : Nat) (spi d : Bytes)
    (tl : List (Nat × Bytes × Bytes))
    (h1 : paySA request true = .ok sa) (h2 : payTS request ptTSi true = .ok tsi) (h3 : payTS request ptTSr true = .ok tsr)
    (hst : ¬ (s.me.core.st = stREK_IKE_SA_REQ_SENT ∨ s.me.core.st = stDEL_IKE_SA_REQ_SENT))
    (hn : getNotifies request nREKEY_SA true = (proto, spi, d) :: tl) (hk : getKidOut s.me.ext.kids spi = none) :
    childNegotiationReq request s = (.ok [mkNotify proto nCHILD_SA_NOT_FOUND spi []], s) :=
  childNegotiationReq_of_prelude_error request s sa tsi tsr _ h1 h2 h3 hst
    (childRekeyPrelude_unknown request sa tsi tsr s proto spi d tl hn hk) ⟨proto, nCHILD_SA_NOT_FOUND, spi, [], rfl, Or.inl rfl⟩

/-- a rekey request for the very CHILD_SA this end is deleting, or is rekeying itself: TEMPORARY_FAILURE and nothing else -/
theorem c09_concrete_rekey_crossing_own_delete_or_rekey (request : Msg) (s : HSt) (sa : List Proposal) (tsi tsr : List TS) (proto : Nat)
    (spi d : Bytes) (tl : List (Nat × Bytes × Bytes)) (old : Child)
    (h1 : paySA request true = .ok sa) (h2 : payTS request ptTSi true = .ok tsi) (h3 : payTS request ptTSr true = .ok tsr)
    (hst : ¬ (s.me.core.st = stREK_IKE_SA_REQ_SENT ∨ s.me.core.st = stDEL_IKE_SA_REQ_SENT))
    (hn : getNotifies request nREKEY_SA true = (proto, spi, d) :: tl) (hk : getKidOut s.me.ext.kids spi = some old)
    (hb : (s.me.core.st = stDEL_CHILD_REQ_SENT ∧ s.me.ext.deleting.map (childEq old) = some true) ∨
          (s.me.core.st = stREK_CHILD_REQ_SENT ∧ s.me.ext.rekeying.map (childEq old) = some true)) :
    childNegotiationReq request s = (.ok [mkNotify 0 nTEMPORARY_FAILURE [] []], s) :=
  childNegotiationReq_of_prelude_error request s sa tsi tsr _ h1 h2 h3 hst
    (childRekeyPrelude_busy request sa tsi tsr s proto spi d tl old hn hk hb) ⟨0, nTEMPORARY_FAILURE, [], [], rfl, Or.inr rfl⟩

/-! ### which CHILD_SA a DELETE from the peer names

Each end chooses the SPIs of its own inbound SAs, so the same 4-octet value may be the inbound SPI of one CHILD_SA and the
outbound SPI of another.  The peer names a CHILD_SA by the SPI of *its* inbound SA (RFC 7296 1.4.1) — our outbound one.
(The pinned tree matched the value against both directions and deleted the wrong CHILD_SA when values coincided: D17.) -/

/-- a DELETE naming `spi` removes the first CHILD_SA whose *outbound* SPI is `spi` (when its protocol is the payload's), and
    answers with that CHILD_SA's inbound SPI -/
theorem c09_concrete_delete_names_our_outbound_spi (proto : Nat) (spi : Bytes) (acc : List Payload) (s : HSt) (c : Child)
    (hk : getKidOut s.me.ext.kids spi = some c) (hp : c.proposal.proto = proto) :
    c.outSpi = spi ∧ c ∈ s.me.ext.kids ∧
    deleteSpis proto [spi] acc s = (.ok (acc ++ [mkP ptDELETE (.delete proto [c.inSpi])]), (untrackChild c s).2) := by
  refine ⟨?_, ?_, ?_⟩
  · have := List.find?_some hk; exact (by simpa using this : spi = c.outSpi).symm
  · exact List.mem_of_find?_eq_some hk
  · simp only [deleteSpis, HM.bind_def, getMe, hk, hp, if_true, HM.pure_def]
    cases h : untrackChild c s with
    | mk r s' =>
      have : r = .ok () := by
        unfold untrackChild at h; split at h <;> · cases h; rfl
      subst this; rfl

/-- a value that is nobody's outbound SPI deletes nothing — in particular not the CHILD_SA that has it as its inbound SPI -/
theorem c09_concrete_delete_ignores_our_inbound_spis (proto : Nat) (spi : Bytes) (acc : List Payload) (s : HSt)
    (hk : ∀ c ∈ s.me.ext.kids, c.outSpi ≠ spi) :
    deleteSpis proto [spi] acc s = (.ok acc, s) := by
  have : getKidOut s.me.ext.kids spi = none := by
    unfold getKidOut; rw [List.find?_eq_none]; intro c hc; simpa using fun h => hk c hc h.symm
  simp only [deleteSpis, HM.bind_def, getMe, this, HM.pure_def]

/-- non-vacuity: two CHILD_SAs, the first with inbound SPI `v`, the second with outbound SPI `v`: a DELETE naming `v` finds the second -/
example :
    let p : Proposal := ⟨1, 3, [], []⟩
    let k1 : Child := ⟨[1, 2, 3, 4], [9, 9, 9, 9], p, p, [], [], 1, 0⟩
    let k2 : Child := ⟨[5, 6, 7, 8], [1, 2, 3, 4], p, p, [], [], 1, 0⟩
    getKidOut [k1, k2] [1, 2, 3, 4] = some k2 ∧ getKid [k1, k2] [1, 2, 3, 4] = some k1 := by decide

/-! ### two ends: agreement through CHILD_SA delete exchanges

Two states of the handler model stand for the two ends of one IKE_SA; a message one end's handler returns is the message the
other end's handler is given (checked on the implementation for every protected request of every honest history: evidence
`two_end_honest_requests_verbatim`).  `Agree a b`: both ESTABLISHED, the CHILD_SAs mirror images of each other as multisets of
(inbound SPI, outbound SPI, protocol), each end's own inbound SPIs pairwise different (the kernel refuses a second SA with the
same key), protocols AH or ESP, and (`Paired`) two records that are images of each other as to SPIs and protocol are so as to suite,
mode and traffic selectors (the selectors the other way round).  Nothing is assumed about values coinciding *across* the ends. -/

/-- one delete exchange (`a` asks — hard expiry — `b` answers, `a` processes the answer): no handler raises, each end removes
    exactly the image of the other's CHILD_SA and asks its kernel to delete exactly that pair, `a` is ESTABLISHED again, `b` never
    left its state -/
theorem c09_concrete_delete_exchange (c : Child) (a b : HSt)
    (hsa : a.me.core.st = stESTABLISHED) (hsb : liveStatesAndRekeyed.contains b.me.core.st = true)
    (hm : Mirror a.me.ext.kids b.me.ext.kids) (hnd : (a.me.ext.kids.map Child.inSpi).Nodup) (hc : c ∈ a.me.ext.kids)
    (hproto : c.proposal.proto = 2 ∨ c.proposal.proto = 3) :
    ∃ a2 b1 cb, deleteExchange c a b = some (a2, b1) ∧ cb ∈ b.me.ext.kids ∧ c.view = cb.peerView ∧
      a2.me.ext.kids = removeKid a.me.ext.kids c ∧ b1.me.ext.kids = removeKid b.me.ext.kids cb ∧
      a2.me.core.st = stESTABLISHED ∧ b1.me.core.st = b.me.core.st ∧
      a2.nl = a.nl ++ delPair a.me c ∧ b1.nl = b.nl ++ delPair b.me cb :=
  deleteExchange_eq c a b hsa hsb hm hnd hc hproto

/-- … and the ends agree afterwards as they did before -/
theorem c09_concrete_delete_exchange_keeps_the_ends_agreed (a b : HSt) (h : Agree a b) (c : Child) (hc : c ∈ a.me.ext.kids) :
    ∃ a2 b1, deleteExchange c a b = some (a2, b1) ∧ Agree a2 b1 := h.deleteExchange c hc

/-- both ends delete the same CHILD_SA at the same time (RFC 7296 2.25.1 first case): each removes it, and its kernel SAs, exactly
    once — when the other's request arrives; the replies find nothing left; both are ESTABLISHED again -/
theorem c09_concrete_crossing_deletes (ca cb : Child) (a b : HSt)
    (hsa : a.me.core.st = stESTABLISHED) (hsb : b.me.core.st = stESTABLISHED)
    (hm : Mirror a.me.ext.kids b.me.ext.kids) (hnda : (a.me.ext.kids.map Child.inSpi).Nodup)
    (hndb : (b.me.ext.kids.map Child.inSpi).Nodup) (ha : ca ∈ a.me.ext.kids) (hb : cb ∈ b.me.ext.kids) (hv : ca.view = cb.peerView)
    (hproto : ca.proposal.proto = 2 ∨ ca.proposal.proto = 3) :
    ∃ a3 b3, crossingDeleteExchange ca cb a b = some (a3, b3) ∧
      a3.me.ext.kids = removeKid a.me.ext.kids ca ∧ b3.me.ext.kids = removeKid b.me.ext.kids cb ∧
      a3.me.core.st = stESTABLISHED ∧ b3.me.core.st = stESTABLISHED ∧
      a3.nl = a.nl ++ delPair a.me ca ∧ b3.nl = b.nl ++ delPair b.me cb :=
  crossingDeleteExchange_eq ca cb a b hsa hsb hm hnda hndb ha hb hv hproto

/-- any number of delete exchanges — started by `a`, by `b`, or by both at once, for any of the CHILD_SAs — runs to the end
    without a handler raising and leaves the two ends agreed -/
theorem c09_concrete_any_run_of_delete_exchanges_keeps_the_ends_agreed (a b : HSt) (h : Agree a b) (ops : List DelOp) :
    ∃ a' b', delRun (a, b) ops = some (a', b') ∧ Agree a' b' := h.delRun ops

/-- non-vacuity: two ends with two CHILD_SAs, where `a`'s inbound SPI of the first is also `a`'s outbound SPI of the second (D17's
    setting): they agree, and three exchanges (`b` deletes its second, both delete the remaining one, one more with nothing left)
    leave both ends without CHILD_SAs -/
def exP : Proposal := ⟨1, 3, [], [⟨1, 12, some 256⟩, ⟨3, 12, none⟩]⟩
def exKa1 : Child := ⟨[1, 2, 3, 4], [9, 9, 9, 9], exP, exP, [], [], 1, 300⟩
def exKa2 : Child := ⟨[5, 6, 7, 8], [1, 2, 3, 4], exP, exP, [], [], 1, 300⟩
def exKb1 : Child := ⟨[9, 9, 9, 9], [1, 2, 3, 4], exP, exP, [], [], 1, 300⟩
def exKb2 : Child := ⟨[1, 2, 3, 4], [5, 6, 7, 8], exP, exP, [], [], 1, 300⟩
def exConf : Conf :=
  { proposal := { exP with proto := 1 }, protect := [], myIdType := 2, myIdData := [97], peerIdType := 2, peerIdData := [98],
    dpd := 61440, lifetime := 921600 }
def exCoreA : SaCore :=
  { st := stESTABLISHED, isInit := true, mySpi := [1,1,1,1,1,1,1,1], peerSpi := [2,2,2,2,2,2,2,2], myId := 2, peerId := 0, keyed := true,
    lastResp := none, request := none, rtxAt := 0, rtx := 0, dpdAt := 100000, rekeyAt := 900000, deleteAt := 930000, dpd := 61440,
    children := [exKa1.ref, exKa2.ref], pending := [], indices := [], myAddr := [192,168,0,1], peerAddr := [192,168,0,2], cookie := false }
def exA : HSt := { me := { core := exCoreA, ext := { conf := exConf, kids := [exKa1, exKa2] } }, succ := none, tape := { vals := [] } }
def exB : HSt :=
  { me := { core := { exCoreA with isInit := false, mySpi := [2,2,2,2,2,2,2,2], peerSpi := [1,1,1,1,1,1,1,1], myId := 0, peerId := 2,
                                    children := [exKb1.ref, exKb2.ref], myAddr := [192,168,0,2], peerAddr := [192,168,0,1] },
            ext := { conf := exConf, kids := [exKb1, exKb2] } }, succ := none, tape := { vals := [] } }

example : Agree exA exB := by
  refine ⟨rfl, rfl, ?_, by decide, by decide, by decide, by decide, by unfold Paired; decide⟩
  show List.Perm _ _
  decide

example : (delRun (exA, exB) [.byB 1, .both 0, .byA 0]).map (fun x => (x.1.me.ext.kids, x.2.me.ext.kids, x.1.nl.length, x.2.nl.length)) =
    some ([], [], 4, 4) := by decide +kernel

/-! ### two ends: agreement through CHILD_SA creations and rekeys

`converse`: the responder's request handler on the request in flight, the initiator's response handler on the reply, and again
for every request the latter returns (the retry after INVALID_KE_PAYLOAD, the delete of the replaced CHILD_SA after a rekey, the
delete of a CHILD_SA the initiator cannot accept), until the initiator has nothing more to send. -/

/-- what the responder's CHILD_SA request handler can come to: it raises and nothing changed; or it replies — built on the object
    as it is afterwards — and either tracked exactly one more CHILD_SA (outbound SPI and protocol from a proposal of the request,
    inbound SPI and protocol in the only SA payload of the reply, nothing in the reply that reads as a refusal) or tracked nothing
    and the reply is a single notification -/
theorem c09_concrete_responder_grants_or_refuses (now : Nat) (request : Msg) (x : XSa) (p0 : Proposal) (rest : List Proposal)
    (hsa : paySA request true = .ok (p0 :: rest)) (hp0 : p0.proto ≠ 1) :
    Tri (MeIs x) (processCreateChildSaRequest now request)
      (fun res s => ∃ payloads, res = .reply (mkResponse s.me.core 36 payloads) ∧
        (Granted request x payloads s ∨ (s.me = x ∧ ErrReply payloads)))
      (fun _ s => s.me = x) :=
  processCreateChildSaRequest_tri now request x p0 rest hsa hp0

/-- everything the initiator's CHILD_SA response handler can come to when it returns (`AOut`): refused — back to ESTABLISHED, nothing
    tracked; created — exactly one more CHILD_SA, inbound SPI ours, outbound SPI and suite the reply's first proposal; created and the
    replaced CHILD_SA's deletion requested; not acceptable — nothing tracked, deletion of what the responder created requested;
    INVALID_KE_PAYLOAD — the stored request with another KE payload sent again, nothing else changed -/
theorem c09_concrete_initiator_outcomes (now : Nat) (response : Msg) (y0 : XSa) (c0 : Child) (hc : y0.ext.creating = some c0)
    (hst : y0.core.st ≠ stREK_IKE_SA_REQ_SENT) :
    Tri (MeIs y0) (processCreateChildSaResponse now response) (AOut y0 c0 response) (fun _ _ => True) :=
  processCreateChildSaResponse_tri now response y0 c0 hc hst

/-- a creation (`rekeyed = none`) or rekey conversation between two ends that agree: if no handler raises and the conversation ends
    within `fuel` requests, both ends are ESTABLISHED and mirror images of each other.  `c0`: the record the initiator starts from;
    its SPI must be one the initiator does not use yet. -/
theorem c09_concrete_child_exchange_keeps_the_ends_agreed (now fuel : Nat) (c0 : Child) (rekeyed : Option Child) (a b a' b' : HSt)
    (h : Agree a b) (hfresh : c0.inSpi ∉ a.me.ext.kids.map Child.inSpi) (hproto : c0.proposal.proto = 2 ∨ c0.proposal.proto = 3)
    (hold : ∀ old, rekeyed = some old → old ∈ a.me.ext.kids)
    (hx : childExchange now fuel c0 rekeyed a b = some (a', b')) : Done a' b' :=
  childExchange_done now fuel c0 rekeyed a b a' b' h.done hfresh hproto hold hx

/-- **any sequence of CHILD_SA exchanges** — ACQUIREs, soft and hard expiries at either end, one exchange at a time: if it runs to
    the end (no handler raises, no end draws an SPI it already uses), the ends agree after it as they did before -/
theorem c09_concrete_any_run_of_child_exchanges_keeps_the_ends_agreed (now fuel : Nat) (ops : List ChildOp) (a b a' b' : HSt)
    (h : Agree a b) (hx : opRun now fuel (a, b) ops = some (a', b')) : Agree a' b' :=
  Agree.opRun now fuel ops a b a' b' h hx

/-- non-vacuity: two ends without CHILD_SAs; `a` acquires one, `b` rekeys it, `a` deletes the replacement: every step runs (the
    tapes supply nonces, SPIs and kernel verdicts and are consumed as the model asks), the ends are mirrored after each -/
def exCP : Proposal := ⟨1, 3, [], [⟨1, 12, some 256⟩, ⟨3, 12, none⟩]⟩
def exTs (a : Bytes) : TS := { tsType := 7, ipProto := 0, startPort := 0, endPort := 65535, startAddr := a, endAddr := a }
def exConfA : Conf :=
  { proposal := { exCP with proto := 1 },
    protect := [{ myTs := exTs [10,0,0,1], peerTs := exTs [10,0,0,2], index := 5, mode := 1, lifetime := 300, proposal := exCP }],
    myIdType := 2, myIdData := [97], peerIdType := 2, peerIdData := [98], dpd := 61440, lifetime := 921600 }
def exConfB : Conf :=
  { exConfA with protect := [{ myTs := exTs [10,0,0,2], peerTs := exTs [10,0,0,1], index := 5, mode := 1, lifetime := 300, proposal := exCP }] }
def exA0 : HSt :=
  { me := { core := { exCoreA with children := [] }, ext := { conf := exConfA, kids := [] } }, succ := none,
    tape := { vals := [.bytes [1], .num 0, .bytes [3], .bytes [9,9,9,9], .num 0] } }
def exB0 : HSt :=
  { me := { core := { exCoreA with isInit := false, mySpi := [2,2,2,2,2,2,2,2], peerSpi := [1,1,1,1,1,1,1,1], myId := 0, peerId := 2,
                                    children := [], myAddr := [192,168,0,2], peerAddr := [192,168,0,1] },
            ext := { conf := exConfB, kids := [] } }, succ := none,
    tape := { vals := [.bytes [2], .bytes [8,8,8,8], .num 0, .bytes [4], .num 0] } }
def exC0 : Child :=
  { inSpi := [7,7,7,7], outSpi := [0,0,0,0], orig := exCP, proposal := exCP, tsi := [exTs [10,0,0,1]], tsr := [exTs [10,0,0,2]], mode := 1, lifetime := 300 }
def exC1 : Child :=
  { inSpi := [6,6,6,6], outSpi := [0,0,0,0], orig := exCP, proposal := exCP, tsi := [exTs [10,0,0,2]], tsr := [exTs [10,0,0,1]], mode := 1, lifetime := 300 }
def exKids (x : Option (HSt × HSt)) : Option (List (Bytes × Bytes × Nat) × List (Bytes × Bytes × Nat)) :=
  x.map fun x => (x.1.me.ext.kids.map Child.view, x.2.me.ext.kids.map Child.view)
def exStates (x : Option (HSt × HSt)) : Option (List Nat × List Bool) :=
  x.map fun x => ([x.1.me.core.st, x.2.me.core.st], [x.1.tape.bad, x.2.tape.bad])

example : Agree exA0 exB0 := ⟨rfl, rfl, List.Perm.nil, List.nodup_nil, List.nodup_nil, by decide, by decide, fun _ h => by cases h⟩
example : exKids (opRun 0 4 (exA0, exB0) [.create true exC0]) =
    some ([([7,7,7,7], [8,8,8,8], 3)], [([8,8,8,8], [7,7,7,7], 3)]) := by decide +kernel
example : exKids (opRun 0 4 (exA0, exB0) [.create true exC0, .rekey false 0 exC1]) =
    some ([([9,9,9,9], [6,6,6,6], 3)], [([6,6,6,6], [9,9,9,9], 3)]) := by decide +kernel
example : exKids (opRun 0 4 (exA0, exB0) [.create true exC0, .rekey false 0 exC1, .delete true 0]) = some ([], []) := by
  decide +kernel
example : exStates (opRun 0 4 (exA0, exB0) [.create true exC0, .rekey false 0 exC1, .delete true 0]) =
    some ([10, 10], [false, false]) := by decide +kernel
/-- … and the two records of the created CHILD_SA carry the same suite and mode and each other's selectors -/
def exRich (x : Option (HSt × HSt)) : Option (List (List Transform × Nat × List TS × List TS)) :=
  x.map fun x => x.1.me.ext.kids.map Child.rich ++ x.2.me.ext.kids.map Child.peerRich
example : exRich (opRun 0 4 (exA0, exB0) [.create true exC0]) =
    some [(exCP.transforms, 1, [exTs [10,0,0,1]], [exTs [10,0,0,2]]), (exCP.transforms, 1, [exTs [10,0,0,1]], [exTs [10,0,0,2]])] := by
  decide +kernel

/-! ### two ends: agreement through an IKE_SA rekey

The rekey conversation is `converse` again: CREATE_CHILD_SA with an IKE proposal (responder: a successor object with the CHILD_SAs
handed over, or one error notification and nothing changed; initiator: retry after INVALID_KE_PAYLOAD, back to ESTABLISHED after
TEMPORARY_FAILURE, give up after NO_ADDITIONAL_SAS, or accept — hand over — ask for the deletion of the replaced IKE_SA), then the
INFORMATIONAL exchange that ends the replaced IKE_SA at both ends. -/

/-- the responder's side: a successor that holds this IKE_SA's CHILD_SAs, is ESTABLISHED, knows the initiator's new SPI and whose
    own SPI is in the reply — or one notification and nothing changed -/
theorem c09_concrete_ike_rekey_responder (now : Nat) (request : Msg) (x : XSa) (su tm : Option XSa) (p0 : Proposal) (rest : List Proposal)
    (hsa : paySA request true = .ok (p0 :: rest)) (hp0 : p0.proto = 1) :
    Tri (Objs x su tm) (processCreateChildSaRequest now request)
      (fun res s => ∃ payloads, res = .reply (mkResponse s.me.core 36 payloads) ∧
        (RekeyGranted request x p0 payloads s ∨ ((s.me = x ∧ s.succ = su) ∧ ErrReply payloads)))
      (fun _ _ => True) :=
  processCreateChildSaRequest_ike_tri now request x su tm p0 rest hsa hp0

/-- the initiator's side: the four things its handler can come to (`AOutR`) -/
theorem c09_concrete_ike_rekey_initiator (now : Nat) (response : Msg) (y na0 : XSa) (tm : Option XSa)
    (hst : y.core.st = stREK_IKE_SA_REQ_SENT) :
    Tri (Objs y (some na0) tm) (processCreateChildSaResponse now response) (AOutR now y na0 tm response) (fun _ _ => True) :=
  processCreateChildSaResponse_ike_tri now response y na0 tm hst

/-- **an IKE_SA rekey between two ends that agree** (`RekeyEnd`): if no handler raises and the conversation ends, either both replaced
    objects are DELETED without CHILD_SAs and the successors, promoted, agree as their predecessors did and know each other's SPIs; or
    the rekey was refused and the ends agree as before; or the initiator gave up and both IKE_SAs are gone -/
theorem c09_concrete_ike_rekey_keeps_the_ends_agreed (now fuel : Nat) (a b a' b' : HSt) (h : Agree a b)
    (hconf : a.me.ext.conf.proposal.proto = 1)
    (hspi0 : ∀ na0, (generateRekeyIkeSaRequest now a).2.succ = some na0 → na0.core.mySpi ≠ [])
    (hx : rekeyExchange now fuel a b = some (a', b')) : RekeyEnd a b a' b' :=
  rekeyExchange_outcome now fuel a b a' b' h hconf hspi0 hx

/-- CHILD_SA exchanges, an IKE_SA rekey that succeeds (the replaced IKE_SA is DELETED and has handed its CHILD_SAs over), more
    CHILD_SA exchanges on the successors: the ends agree at the end -/
theorem c09_concrete_child_exchanges_around_an_ike_rekey (now fuel : Nat) (ops1 ops2 : List ChildOp) (a b a1 b1 a2 b2 na nb a3 b3 : HSt)
    (h : Agree a b) (h1 : opRun now fuel (a, b) ops1 = some (a1, b1))
    (hconf : a1.me.ext.conf.proposal.proto = 1)
    (hspi0 : ∀ na0, (generateRekeyIkeSaRequest now a1).2.succ = some na0 → na0.core.mySpi ≠ [])
    (h2 : rekeyExchange now fuel a1 b1 = some (a2, b2))
    (hdel : a2.me.core.st = stDELETED) (hkids : a1.me.ext.kids ≠ []) (hk2 : a2.me.ext.kids = [])
    (hna : promote a2 = some na) (hnb : promote b2 = some nb)
    (h3 : opRun now fuel (na, nb) ops2 = some (a3, b3)) : Agree a3 b3 := by
  have hag1 := Agree.opRun now fuel ops1 a b a1 b1 h h1
  rcases rekeyExchange_outcome now fuel a1 b1 a2 b2 hag1 hconf hspi0 h2 with ⟨na', nb', e1, e2, hag, _⟩ | ⟨hag, _, _⟩ | ⟨_, _, hk⟩
  · rw [hna] at e1; rw [hnb] at e2; cases e1; cases e2
    exact Agree.opRun now fuel ops2 na nb a3 b3 hag h3
  · rw [hag.sta] at hdel; cases hdel
  · rw [hk2] at hk; exact absurd hk.1.symm hkids

/-- non-vacuity: after the ACQUIRE of the example above, `a` rekeys the IKE_SA: both replaced objects are DELETED without CHILD_SAs, the
    promoted successors are ESTABLISHED, each has the other's SPI as its peer SPI, and the CHILD_SA went with them -/
def exIkeP : Proposal :=
  { num := 1, proto := 1, spi := [], transforms := [⟨1, 12, some 256⟩, ⟨3, 12, none⟩, ⟨2, 5, none⟩, ⟨4, 14, none⟩] }
def exA1 : HSt :=
  { exA0 with me := { exA0.me with ext := { exA0.me.ext with conf := { exConfA with proposal := exIkeP } } }, tape := { vals := [.bytes [1], .num 0, .bytes [5,5,5,5,5,5,5,5], .num 7, .bytes [11], .bytes [12], .flag true] } }
def exB1 : HSt :=
  { exB0 with me := { exB0.me with ext := { exB0.me.ext with conf := { exConfB with proposal := exIkeP } } }, tape := { vals := [.bytes [2], .bytes [8,8,8,8], .num 0, .bytes [6,6,6,6,6,6,6,6], .num 9, .bytes [13], .bytes [14], .flag true] } }
def exRekeyed : Option (HSt × HSt) := (opRun 0 4 (exA1, exB1) [.create true exC0]).bind fun x => rekeyExchange 100 6 x.1 x.2
def exOld (x : Option (HSt × HSt)) : Option (List Nat) :=
  x.map fun x => [x.1.me.core.st, x.2.me.core.st, x.1.me.ext.kids.length, x.2.me.ext.kids.length]
def exNewSpis (x : Option (HSt × HSt)) : Option (List (List Bytes)) :=
  x.map fun x => [((promote x.1).map fun n => [n.me.core.mySpi, n.me.core.peerSpi]).getD [],
                  ((promote x.2).map fun n => [n.me.core.mySpi, n.me.core.peerSpi]).getD []]
def exNewKids (x : Option (HSt × HSt)) : Option (List (List (Bytes × Bytes × Nat))) :=
  x.map fun x => [((promote x.1).map fun n => n.me.ext.kids.map Child.view).getD [],
                  ((promote x.2).map fun n => n.me.ext.kids.map Child.peerView).getD []]
example : exOld exRekeyed = some [21, 21, 0, 0] := by decide +kernel
example : exNewSpis exRekeyed =
    some [[[5,5,5,5,5,5,5,5], [6,6,6,6,6,6,6,6]], [[6,6,6,6,6,6,6,6], [5,5,5,5,5,5,5,5]]] := by decide +kernel
example : exNewKids exRekeyed = some [[([7,7,7,7], [8,8,8,8], 3)], [([7,7,7,7], [8,8,8,8], 3)]] := by decide +kernel

/-- **a whole session**: any sequence of CHILD_SA creations, rekeys and deletions and of IKE_SA rekeys, started by either end, one
    conversation at a time (`sessRun`: after an IKE_SA rekey that went through, the session goes on between the two successors;
    after a refused one between the ends as they are; it is over when an initiator gave up): if it runs to the end, the ends agree at
    the end as they did at the start -/
theorem c09_concrete_any_session_keeps_the_ends_agreed (now fuel : Nat) (ops : List SessOp) (a b a' b' : HSt)
    (h : Agree a b) (hx : sessRun now fuel (a, b) ops = some (a', b')) : Agree a' b' :=
  Agree.sessRun now fuel ops a b a' b' h hx

/-- non-vacuity: ACQUIRE at `a`, IKE_SA rekey by `a`, then `b` deletes the CHILD_SA — on the successors, which have each other's SPIs -/
def exSess : Option (HSt × HSt) :=
  sessRun 100 6 (exA1, exB1) [.child (.create true exC0), .rekeyIke true, .child (.delete false 0)]
example : exKids (sessRun 100 6 (exA1, exB1) [.child (.create true exC0), .rekeyIke true]) =
    some ([([7,7,7,7], [8,8,8,8], 3)], [([8,8,8,8], [7,7,7,7], 3)]) := by decide +kernel
example : exKids exSess = some ([], []) := by decide +kernel
example : exSess.map (fun x => [x.1.me.core.mySpi, x.1.me.core.peerSpi, x.2.me.core.mySpi, x.2.me.core.peerSpi]) =
    some [[5,5,5,5,5,5,5,5], [6,6,6,6,6,6,6,6], [6,6,6,6,6,6,6,6], [5,5,5,5,5,5,5,5]] := by decide +kernel
example : exStates exSess = some ([10, 10], [false, false]) := by decide +kernel

/-! ### two ends: from nothing to agreement

IKE_SA_INIT and IKE_AUTH between an initiator object and the responder object the controller creates for its request.  (A COOKIE or
INVALID_KE_PAYLOAD round makes the controller create another responder object; that is the shell's business — C18, C16 — and ends
this conversation.) -/

/-- the responder's IKE_AUTH handler: ESTABLISHED afterwards, with exactly one more CHILD_SA that the reply describes — or with none and
    one notification in the reply -/
theorem c09_concrete_ike_auth_responder (request : Msg) (x : XSa) :
    Tri (MeIs x) (processIkeAuthRequest request)
      (fun res s => ∃ payloads z method data,
        res = .reply (mkResponse z.core 35 (payloads ++ authTail (mkP ptIDr (.ident z.ext.conf.myIdType z.ext.conf.myIdData)) method data)) ∧
        s.me = setSt z stESTABLISHED ∧ AuthGranted request x z payloads)
      (fun _ _ => True) :=
  processIkeAuthRequest_tri request x

/-- the initiator's IKE_AUTH handler: when it returns it is ESTABLISHED, with the CHILD_SA the reply describes or — the reply said no —
    without one; a CHILD_SA it cannot accept makes it raise (the IKE_SA ends) -/
theorem c09_concrete_ike_auth_initiator (response : Msg) (y : XSa) (c0 : Child) (hc : y.ext.creating = some c0)
    (hst : y.core.st = stAUTH_REQ_SENT) :
    Tri (MeIs y) (processIkeAuthResponse response)
      (fun res s => res = .nothing ∧
        ((s.me = setSt y stESTABLISHED ∧ HasErr response = true) ∨
         (HasErr response = false ∧ ∃ z, CreatedX y c0 response z ∧ s.me = setSt z stESTABLISHED)))
      (fun _ _ => True) :=
  processIkeAuthResponse_tri response y c0 hc hst

/-- **from nothing to agreement**: two objects without CHILD_SAs, the responder as the controller creates it (no cookie secret, the
    initiator's SPI as its peer SPI): if no handler raises, they are ESTABLISHED, agree — on the first CHILD_SA, or on none when the
    responder refused it — and have each other's SPI as peer SPI -/
theorem c09_concrete_initial_exchanges_end_in_agreement (now fuel : Nat) (c : Child) (a b a' b' : HSt)
    (hak : a.me.ext.kids = []) (hbk : b.me.ext.kids = []) (hcookie : b.me.core.cookie = false) (hbi : b.me.core.isInit = false)
    (hbp : b.me.core.peerSpi = a.me.core.mySpi) (hp23 : c.proposal.proto = 2 ∨ c.proposal.proto = 3)
    (hx : initExchange now (fuel + 2) c a b = some (a', b')) :
    Agree a' b' ∧ a'.me.core.peerSpi = b'.me.core.mySpi ∧ b'.me.core.peerSpi = a'.me.core.mySpi :=
  initExchange_agree now fuel c a b a' b' hak hbk hcookie hbi hbp hp23 hx

/-- **a whole life**: the initial exchanges, then any session (CHILD_SA creations, rekeys, deletions, IKE_SA rekeys, by either end, one
    conversation at a time): the ends — the last successors — agree at the end -/
theorem c09_concrete_whole_life_keeps_the_ends_agreed (now fuel : Nat) (c : Child) (ops : List SessOp) (a b a1 b1 a' b' : HSt)
    (hak : a.me.ext.kids = []) (hbk : b.me.ext.kids = []) (hcookie : b.me.core.cookie = false) (hbi : b.me.core.isInit = false)
    (hbp : b.me.core.peerSpi = a.me.core.mySpi) (hp23 : c.proposal.proto = 2 ∨ c.proposal.proto = 3)
    (h1 : initExchange now (fuel + 2) c a b = some (a1, b1)) (h2 : sessRun now fuel (a1, b1) ops = some (a', b')) : Agree a' b' :=
  Agree.sessRun now fuel ops a1 b1 a' b' (initExchange_agree now fuel c a b a1 b1 hak hbk hcookie hbi hbp hp23 h1).1 h2

/-- non-vacuity: two objects in INITIAL; after the initial exchanges both are ESTABLISHED, the first CHILD_SA is mirrored, the tapes
    (nonces, public values, AUTH payloads and verdicts, the responder's SPI, kernel verdicts) are used up exactly -/
def exConfA2 : Conf := { exConfA with proposal := exIkeP }
def exConfB2 : Conf := { exConfB with proposal := exIkeP, myIdType := 2, myIdData := [98], peerIdType := 2, peerIdData := [97] }
def exAI : HSt :=
  { me := { core := { exCoreA with st := stINITIAL, children := [], peerSpi := [] }, ext := { conf := exConfA2, kids := [] } }, succ := none, tape := { vals := [.bytes [21], .bytes [22], .flag true, .auth 2 [33], .verdict true, .num 0] } }
def exBI : HSt :=
  { me := { core := { exCoreA with st := stINITIAL, isInit := false, mySpi := [2,2,2,2,2,2,2,2], peerSpi := [1,1,1,1,1,1,1,1], myId := 0, peerId := 0, children := [], myAddr := [192,168,0,2], peerAddr := [192,168,0,1] }, ext := { conf := exConfB2, kids := [] } }, succ := none, tape := { vals := [.bytes [23], .bytes [24], .flag true, .verdict true, .bytes [8,8,8,8], .num 0, .auth 2 [34]] } }
example : exKids (initExchange 0 4 exC0 exAI exBI) = some ([([7,7,7,7], [8,8,8,8], 3)], [([8,8,8,8], [7,7,7,7], 3)]) := by decide +kernel
example : exStates (initExchange 0 4 exC0 exAI exBI) = some ([10, 10], [false, false]) := by decide +kernel
example : (initExchange 0 4 exC0 exAI exBI).map (fun x => [x.1.me.core.peerSpi, x.2.me.core.peerSpi, [x.1.tape.vals.length, x.2.tape.vals.length]]) =
    some [[2,2,2,2,2,2,2,2], [1,1,1,1,1,1,1,1], [0, 0]] := by decide +kernel

/-! ### two ends: CHILD_SA requests that cross -/

/-- **crossing CHILD_SA requests** (two creations, two rekeys — of the same CHILD_SA: RFC 7296 2.25.1, both refused with
    TEMPORARY_FAILURE — or of different ones, or one of each): each end handles the other's request while it waits for its own answer.
    If no handler raises, neither answer calls for a further request, and each kernel accepted what its end installed: the ends agree —
    every granted request added one CHILD_SA to both ends, every refused one none -/
theorem c09_concrete_crossing_child_requests_keep_the_ends_agreed (now : Nat) (ca0 cb0 : Child) (rka rkb : Option Child)
    (a b a3 b3 : HSt) (h : Agree a b)
    (hpa : ca0.proposal.proto = 2 ∨ ca0.proposal.proto = 3) (hpb : cb0.proposal.proto = 2 ∨ cb0.proposal.proto = 3)
    (hx : crossingChildExchange now ca0 cb0 rka rkb a b = some (a3, b3))
    (hnda : (a3.me.ext.kids.map Child.inSpi).Nodup) (hndb : (b3.me.ext.kids.map Child.inSpi).Nodup) : Agree a3 b3 :=
  crossingChildExchange_agree now ca0 cb0 rka rkb a b a3 b3 h hpa hpb hx hnda hndb

/-- non-vacuity: two ACQUIREs that cross — two CHILD_SAs at each end, mirrored crosswise -/
def exAX : HSt := { exA0 with tape := { vals := [.bytes [1], .bytes [3], .bytes [9,9,9,9], .num 0, .num 0] } }
def exBX : HSt := { exB0 with tape := { vals := [.bytes [2], .bytes [4], .bytes [8,8,8,8], .num 0, .num 0] } }
example : exKids (crossingChildExchange 0 exC0 exC1 none none exAX exBX) =
    some ([([9,9,9,9], [6,6,6,6], 3), ([7,7,7,7], [8,8,8,8], 3)], [([8,8,8,8], [7,7,7,7], 3), ([6,6,6,6], [9,9,9,9], 3)]) := by
  decide +kernel
/-- … and two rekeys of the same CHILD_SA that cross: both refused, nothing changed, both ESTABLISHED again -/
def exAY : HSt := { exA0 with tape := { vals := [.bytes [1], .num 0, .bytes [5]] } }
def exBY : HSt := { exB0 with tape := { vals := [.bytes [2], .bytes [8,8,8,8], .num 0, .bytes [6]] } }
def exCrossRekey : Option (HSt × HSt) :=
  (opRun 0 4 (exAY, exBY) [.create true exC0]).bind fun x =>
    match x.1.me.ext.kids, x.2.me.ext.kids with
    | [ka], [kb] => crossingChildExchange 0 { exC0 with inSpi := [4,4,4,4] } exC1 (some ka) (some kb) x.1 x.2
    | _, _ => none
example : exKids exCrossRekey = some ([([7,7,7,7], [8,8,8,8], 3)], [([8,8,8,8], [7,7,7,7], 3)]) := by decide +kernel
example : exStates exCrossRekey = some ([10, 10], [false, false]) := by decide +kernel

/-- both ends delete a CHILD_SA at the same time — different ones (`ca'`, `cb'`: their images at the other end): each end removes the one
    the other names when the request arrives and its own when the answer arrives; both are gone at both ends, which agree again -/
theorem c09_concrete_crossing_deletes_of_different_child_sas (ca cb ca' cb' : Child) (a b : HSt) (h : Agree a b)
    (ha : ca ∈ a.me.ext.kids) (hb : cb ∈ b.me.ext.kids) (ha' : ca' ∈ b.me.ext.kids) (hb' : cb' ∈ a.me.ext.kids)
    (hva : ca.view = ca'.peerView) (hvb : cb.view = cb'.peerView) (hdiff : ca.inSpi ≠ cb'.inSpi) :
    ∃ a3 b3, crossingDeleteExchange ca cb a b = some (a3, b3) ∧ Agree a3 b3 ∧
      a3.me.ext.kids = removeKid (removeKid a.me.ext.kids cb') ca ∧ b3.me.ext.kids = removeKid (removeKid b.me.ext.kids ca') cb :=
  crossingDeleteDifferent_agree ca cb ca' cb' a b h ha hb ha' hb' hva hvb hdiff

/-- non-vacuity: the two ends of the first example (two CHILD_SAs, coinciding SPI values): `a` deletes its first while `b` deletes its
    second (the image of `a`'s second) -/
example : (crossingDeleteExchange exKa1 exKb2 exA exB).map (fun x => (x.1.me.ext.kids, x.2.me.ext.kids)) = some ([], []) := by
  decide +kernel

/-- **sessions with crossing exchanges** (`xRun`): conversations started by one end — CHILD_SA creations, rekeys, deletions, IKE_SA rekeys —
    and pairs of CHILD_SA requests or of deletes that cross, in any order: if the session runs to the end, the ends agree at the end -/
theorem c09_concrete_any_session_with_crossing_exchanges_keeps_the_ends_agreed (now fuel : Nat) (ops : List XOp) (a b a' b' : HSt)
    (h : Agree a b) (hx : xRun now fuel (a, b) ops = some (a', b')) : Agree a' b' :=
  Agree.xRun now fuel ops a b a' b' h hx

/-- … from two objects that hold nothing -/
theorem c09_concrete_whole_life_with_crossing_exchanges (now fuel : Nat) (c : Child) (ops : List XOp) (a b a1 b1 a' b' : HSt)
    (hak : a.me.ext.kids = []) (hbk : b.me.ext.kids = []) (hcookie : b.me.core.cookie = false) (hbi : b.me.core.isInit = false)
    (hbp : b.me.core.peerSpi = a.me.core.mySpi) (hp23 : c.proposal.proto = 2 ∨ c.proposal.proto = 3)
    (h1 : initExchange now (fuel + 2) c a b = some (a1, b1)) (h2 : xRun now fuel (a1, b1) ops = some (a', b')) : Agree a' b' :=
  Agree.xRun now fuel ops a1 b1 a' b' (initExchange_agree now fuel c a b a1 b1 hak hbk hcookie hbi hbp hp23 h1).1 h2

/-- non-vacuity: two ACQUIREs that cross, then two deletes that cross (each end deletes its first CHILD_SA — different ones): nothing left -/
example : exKids (xRun 0 4 (exAX, exBX) [.crossChild exC0 exC1 none none]) =
    some ([([9,9,9,9], [6,6,6,6], 3), ([7,7,7,7], [8,8,8,8], 3)], [([8,8,8,8], [7,7,7,7], 3), ([6,6,6,6], [9,9,9,9], 3)]) := by
  decide +kernel
example : exKids (xRun 0 4 (exAX, exBX) [.crossChild exC0 exC1 none none, .crossDelete 0 0]) = some ([], []) := by decide +kernel
example : exStates (xRun 0 4 (exAX, exBX) [.crossChild exC0 exC1 none none, .crossDelete 0 0]) = some ([10, 10], [false, false]) := by
  decide +kernel

end PyIkev2.Props.C09
