/-
  C09 — colliding exchanges leave both peers consistent: no crash, no deadlock.

  Proved here (shell model, every handler instance): which states admit which exchange (regenerated from the
  source), that triggers arriving while a request is outstanding are queued in order and lose nothing, that the
  request generators are invoked only in the states they assert, and that no entry point lets an exception out
  unless a generator itself raises.  Agreement of the two peers after overlapping exchanges is NOT proved: it is
  explored exhaustively to a bounded depth and by random walks on the real code (harness/c09.py).
-/
import PyIkev2.Proofs.Machine
import PyIkev2.Gen.Machine

namespace PyIkev2.Props.C09
open PyIkev2 PyIkev2.Impl

variable {τ : Type}

/-- tie to the source: the states each handler admits (`_check_in_states`, `range(...)` expanded) -/
theorem c09_admission_from_source :
    Gen.Machine.admission =
      [("process_create_child_sa_request", [10, 11, 12, 13, 14, 15, 16, 17]),
       ("process_create_child_sa_response", [11, 12, 13]),
       ("process_ike_auth_request", [1]), ("process_ike_auth_response", [3]),
       ("process_ike_sa_init_request", [0]), ("process_ike_sa_init_response", [2]),
       ("process_informational_request", [10, 11, 12, 13, 14, 15, 16, 17, 20]),
       ("process_informational_response", [14, 15, 16, 17])] ∧
    Gen.Machine.stateCodes.map (·.2) = [0, 1, 2, 3, 10, 11, 12, 13, 14, 15, 16, 17, 20, 21] := by decide

/-- every live state answers a request with the expected Message ID: INFORMATIONAL is admitted in all of
    ESTABLISHED … REKEYED, CREATE_CHILD_SA in ESTABLISHED … DPD_REQ_SENT -/
theorem c09_requests_admitted_in_live_states :
    (∀ st, st ∈ [10, 11, 12, 13, 14, 15, 16, 17, 20] →
      st ∈ ((Gen.Machine.admission.find? fun e => e.1 = "process_informational_request").map (·.2)).getD []) ∧
    (∀ st, st ∈ [10, 11, 12, 13, 14, 15, 16, 17] →
      st ∈ ((Gen.Machine.admission.find? fun e => e.1 = "process_create_child_sa_request").map (·.2)).getD []) := by decide

/-- a trigger that arrives while a request is outstanding is queued at the end and changes nothing else -/
theorem c09_acquire_queued (H : Handlers τ) (t : τ) (s : Sa) (now : Nat) (a b : TS) (i : Nat)
    (h : s.core.st ≠ stINITIAL ∧ s.core.st ≠ stESTABLISHED) :
    processAcquire H t s now a b i =
      (t, { sa := { s with core := { s.core with pending := s.core.pending ++ [.acquire a b i] } } }) := by
  simp [processAcquire, h]

theorem c09_expire_queued (H : Handlers τ) (t : τ) (s : Sa) (now : Nat) (spi : Bytes) (hard : Bool)
    (h : s.core.st ≠ stESTABLISHED) :
    processExpire H t s now spi hard =
      (t, { sa := { s with core := { s.core with pending := s.core.pending ++ [.expire spi hard] } } }) := by
  simp [processExpire, h]

/-- the request generators are invoked only in the states they assert: an ACQUIRE generates in INITIAL or
    ESTABLISHED, an EXPIRE / DPD / lifetime only in ESTABLISHED — so their `assert`s cannot fail -/
theorem c09_generators_in_asserted_states (H : Handlers τ) (t : τ) (s : Sa) (now : Nat) :
    (∀ a b i, (processAcquire H t s now a b i).2.ran ≥ 1 → s.core.st = stINITIAL ∨ s.core.st = stESTABLISHED) ∧
    (∀ spi hard, (processExpire H t s now spi hard).2.ran ≥ 1 → s.core.st = stESTABLISHED) ∧
    ((checkDpd H t s now).2.ran ≥ 1 → s.core.st = stESTABLISHED) ∧
    ((checkRekey H t s now).2.ran ≥ 1 → s.core.st = stESTABLISHED) := by
  refine ⟨?_, ?_, ?_, ?_⟩
  · intro a b i h
    unfold processAcquire at h
    split at h
    · simp at h
    · rename_i hst
      by_cases h0 : s.core.st = stINITIAL
      · exact Or.inl h0
      · by_cases h1 : s.core.st = stESTABLISHED
        · exact Or.inr h1
        · exact absurd ⟨h0, h1⟩ hst
  · intro spi hard h
    unfold processExpire at h
    split at h
    · simp at h
    · rename_i hst; simpa using hst
  · intro h
    unfold checkDpd at h
    split at h
    · rename_i hc; exact hc.2
    · simp at h
  · intro h
    unfold checkRekey at h
    split at h
    · rename_i hc; exact hc
    · simp at h

/-- an exception leaves `process_acquire` / `process_expire` / a timer only if the generator itself raised -/
theorem c09_escape_only_from_generator (H : Handlers τ) (t : τ) (s : Sa) (now : Nat) (a b : TS) (i : Nat) :
    (processAcquire H t s now a b i).2.escaped = true →
      ∀ r, (H.genAcquire t s now a b i).2.res ≠ .request r := by
  intro h r hr
  unfold processAcquire at h
  split at h
  · simp at h
  · split at h
    · simp at h
    · simp [hr] at h

/-- the datagram entry point never lets an exception out (whatever the handlers raise): see C17 -/
theorem c09_process_message_total (H : Handlers τ) (t : τ) (s : Sa) (now : Nat) :
    (processMessage H t s now none).2.escaped = false := rfl

end PyIkev2.Props.C09
