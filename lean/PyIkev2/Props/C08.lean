/-
  C08 — Message-ID window: a request runs at most once, replays come from the cache, a
  response is accepted only for the single outstanding request.

  All theorems hold for EVERY instance of the delegated handlers (`H : Handlers τ`), i.e.
  whatever the per-exchange code does; the history theorems need only the frame condition
  that no handler writes the peer's counter (`PeerFrame`).
-/
import PyIkev2.Proofs.Machine
import PyIkev2.Proofs.Handlers

namespace PyIkev2.Props.C08
open PyIkev2 PyIkev2.Impl

variable {τ : Type}

/-- a request whose Message ID is the one before the expected one is answered with the stored
    response, byte for byte; it is not executed; nothing but the liveness timer changes -/
theorem c08_request_replay (H : Handlers τ) (t : τ) (s : Sa) (now : Nat) (m : Msg)
    (hgate : gate s.core m = .pass) (hreq : m.hdr.isResp = false) (hid : m.hdr.msgId + 1 = s.core.peerId) :
    processMessage H t s now (some m) =
      (t, { sa := touchDpd s now, out := s.core.lastResp, nl := [], escaped := false, ran := 0 }) := by
  simp only [processMessage, hgate, hreq, Bool.false_eq_true, if_false]
  simp [processRequest, touchDpd, hid]

/-- any other Message ID (neither expected nor the one before) is dropped without effect -/
theorem c08_request_other_dropped (H : Handlers τ) (t : τ) (s : Sa) (now : Nat) (m : Msg)
    (hreq : m.hdr.isResp = false) (h1 : m.hdr.msgId + 1 ≠ s.core.peerId) (h2 : m.hdr.msgId ≠ s.core.peerId) :
    processRequest H t s now m = (t, { sa := s, out := none, nl := [], escaped := false, ran := 0 }) := by
  simp [processRequest, h1, h2]

/-- the expected request is executed exactly once, the counter advances by one (over whatever
    the handler left) and the reply that goes out is the one stored for replays -/
theorem c08_request_next (H : Handlers τ) (t t' : τ) (s : Sa) (now : Nat) (m : Msg) (o : HOut)
    (hid : m.hdr.msgId = s.core.peerId) (hh : H.req t s now m = (t', some o)) :
    let r := (processRequest H t s now m).2
    r.ran = 1 ∧ r.sa.core.peerId = o.sa.core.peerId + 1 ∧ r.out.isSome ∧ r.sa.core.lastResp = r.out := by
  have h1 : ¬ (m.hdr.msgId + 1 = s.core.peerId) := by omega
  simp only [processRequest, h1, hid, hh, if_false, ne_eq, not_true_eq_false]
  cases o.res <;> simp

/-- a request that was executed had the expected ID — so an ID is never executed early -/
theorem c08_executed_only_if_expected (H : Handlers τ) (t : τ) (s : Sa) (now : Nat) (m : Msg)
    (h : (processRequest H t s now m).2.ran ≥ 1) : m.hdr.msgId = s.core.peerId :=
  processRequest_ran_pos H t s now m h

/-- a response is accepted only for the single outstanding request: any other ID changes nothing -/
theorem c08_response_other_dropped (H : Handlers τ) (t : τ) (s : Sa) (now : Nat) (m : Msg)
    (h : m.hdr.msgId ≠ s.core.myId) :
    processResponse H t s now m = (t, { sa := s, out := none, nl := [], escaped := false, ran := 0 }) := by
  simp [processResponse, h]

/-- … and an accepted response consumes the outstanding ID before its handler runs, so a second
    copy of the same response no longer matches -/
theorem c08_response_consumes_id (H : Handlers τ) (t t' : τ) (s : Sa) (now : Nat) (m : Msg)
    (h : m.hdr.msgId = s.core.myId) (hh : H.resp t (bumpMyId s) now m = (t', none)) :
    (processResponse H t s now m).2.sa.core.myId = s.core.myId + 1 := by
  unfold processResponse
  simp only [h, ne_eq, not_true_eq_false, if_false]
  rw [hh]
  rfl

/-- the handler of an accepted response sees the counter already advanced -/
theorem c08_response_handler_sees_next_id (s : Sa) : (bumpMyId s).core.myId = s.core.myId + 1 := rfl

/-- wrong initiator flag, foreign SPIs, or cleartext IKE_SA_INIT after keys: dropped before the window is
    even consulted, nothing changes (the latter may at most obtain the stored IKE_SA_INIT response) -/
theorem c08_gate_closed (H : Handlers τ) (t : τ) (s : Sa) (now : Nat) (m : Msg) (h : gate s.core m ≠ .pass) :
    (processMessage H t s now (some m)).1 = t ∧ (processMessage H t s now (some m)).2.sa = s ∧
    (processMessage H t s now (some m)).2.ran = 0 ∧ (processMessage H t s now (some m)).2.nl = [] := by
  simp only [processMessage]
  cases hg : gate s.core m with
  | drop => simp
  | cached => simp
  | pass => exact absurd hg h

theorem c08_gate_conditions (s : SaCore) (m : Msg) :
    (m.hdr.isInit = s.isInit → gate s m = .drop) ∧
    (m.hdr.isInit ≠ s.isInit → ¬ (s.keyed = true ∧ m.hdr.exch = 34) → m.hdr.exch ≠ 34 →
       (m.hdr.spiI, m.hdr.spiR) ≠ (s.spiI, s.spiR) → gate s m = .drop) := by
  constructor
  · intro h; simp [gate, h]
  · intro h1 h2 h3 h4; simp [gate, h1, h2, h3, h4]

/-- Histories: under ANY duplication, reordering, delay or loss of what arrives — i.e. for every
    list of inputs whatsoever — the Message IDs of the requests that get executed are strictly
    increasing.  Hence no request is ever executed twice and none is executed after a later one. -/
theorem c08_executed_ids_strictly_increasing (H : Handlers τ) (hf : PeerFrame H) :
    ∀ (inputs : List Input) (t : τ) (s : Sa) (acc : List Nat),
      acc.Pairwise (· < ·) → (∀ k ∈ acc, k < s.core.peerId) →
      (runHistory H t s inputs acc).2.2.Pairwise (· < ·) := by
  intro inputs
  induction inputs with
  | nil => intro t s acc h _; simpa [runHistory] using h
  | cons inp rest ih =>
    intro t s acc hp hb
    obtain ⟨now, p⟩ := inp
    simp only [runHistory]
    cases p with
    | none =>
      simp only [processMessage]
      exact ih t s acc hp hb
    | some m =>
      -- the ways processMessage can go
      by_cases hg : gate s.core m = .pass
      · simp only [processMessage, hg]
        by_cases hr : m.hdr.isResp = true
        · -- a response: nothing is appended, the peer counter is untouched
          simp only [hr, if_true, not_true_eq_false, false_and, if_false]
          apply ih _ _ acc hp
          intro k hk
          rw [processResponse_peerId H hf]
          simpa [touchDpd] using hb k hk
        · simp only [hr, if_false, Bool.false_eq_true, not_false_eq_true, true_and]
          have hm := processRequest_peerId_mono H hf.toReq t (touchDpd s now) now m
          by_cases hran : (processRequest H t (touchDpd s now) now m).2.ran ≥ 1
          · have hid := processRequest_ran_pos H t (touchDpd s now) now m hran
            simp only [hran, if_true]
            apply ih
            · rw [List.pairwise_append]
              refine ⟨hp, List.pairwise_singleton _ _, ?_⟩
              intro a ha b hb'
              simp at hb'
              subst hb'
              have := hb a ha
              simp [touchDpd] at hid
              omega
            · intro k hk
              rw [hm.2 hran]
              simp only [List.mem_append, List.mem_singleton] at hk
              rcases hk with hk | hk
              · have := hb k hk; simp [touchDpd]; omega
              · subst hk; simp [touchDpd] at hid ⊢; omega
          · simp only [hran, if_false]
            apply ih _ _ acc hp
            intro k hk
            have h3 := hb k hk
            have h4 := hm.1
            have h5 : (touchDpd s now).core.peerId = s.core.peerId := rfl
            omega
      · obtain ⟨h1, h2, h3, _⟩ := c08_gate_closed H t s now m hg
        have h3' : ¬ ((processMessage H t s now (some m)).2.ran ≥ 1) := by omega
        simp only [h3', and_false, if_false]
        rw [h1, h2]
        exact ih t s acc hp hb

/-- corollary in the property's words: starting from a fresh IKE_SA, whatever arrives in whatever
    order and however often, every Message ID is executed at most once -/
theorem c08_at_most_once (H : Handlers τ) (hf : PeerFrame H) (inputs : List Input) (t : τ) (s : Sa) :
    (runHistory H t s inputs []).2.2.Nodup := by
  have h := c08_executed_ids_strictly_increasing H hf inputs t s [] List.Pairwise.nil (by simp)
  exact h.imp (fun hab => Nat.ne_of_lt hab)

/-- a retransmission is the stored request itself and leaves Message IDs and the stored request alone -/
theorem c08_retransmission_is_the_outstanding_request (s : Sa) (now : Nat) :
    let o := checkRetransmission s now
    (o.out = none ∨ o.out = s.core.request) ∧ o.sa.core.myId = s.core.myId ∧ o.sa.core.peerId = s.core.peerId ∧
      o.sa.core.request = s.core.request := by
  simp only [checkRetransmission]
  split
  · split
    · split <;> simp
    · simp
  · simp

/-- the error reply built by the shell carries version 2.0, the IKE_SA's SPIs, the exchange type of
    the request it answers, the response flag, the sender's role and the request's Message ID -/
theorem c08_error_reply_header (s : SaCore) (exch : Nat) (ps : List Payload) :
    let h := (mkResponse s exch ps).hdr
    h.major = 2 ∧ h.minor = 0 ∧ h.spiI = s.spiI ∧ h.spiR = s.spiR ∧ h.exch = exch ∧ h.isResp = true ∧
      h.isInit = s.isInit ∧ h.msgId = s.peerId := by
  simp [mkResponse]

/-! non-vacuity: a concrete IKE_SA and handler instance meeting the hypotheses -/

def demoSa : Sa :=
  { core := { st := stESTABLISHED, isInit := false, mySpi := [1], peerSpi := [2], myId := 0, peerId := 3, keyed := true,
              lastResp := none, request := none, rtxAt := 0, rtx := 0, dpdAt := 0, rekeyAt := 0, deleteAt := 0, dpd := 60,
              children := [], pending := [], indices := [], myAddr := [10], peerAddr := [11], cookie := false },
    succ := none }

def demoH : Handlers Unit :=
  { req := fun t s _ m => (t, some { sa := s, res := .reply m, nl := [] }),
    resp := fun t s _ _ => (t, some { sa := s, res := .nothing, nl := [] }),
    genAcquire := fun t s _ _ _ _ => (t, { sa := s, res := .nothing, nl := [] }),
    genExpire := fun t s _ _ _ => (t, { sa := s, res := .nothing, nl := [] }),
    genDpd := fun t s _ => (t, { sa := s, res := .nothing, nl := [] }),
    genDeleteIke := fun t s _ => (t, { sa := s, res := .nothing, nl := [] }),
    genRekeyIke := fun t s _ => (t, { sa := s, res := .nothing, nl := [] }),
    newSa := fun t _ _ _ _ _ => (t, none) }

example : PeerFrame demoH :=
  ⟨by intro t s now m t' o h; simp [demoH] at h; subst h; rfl,
   by intro t s now m t' o h; simp [demoH] at h; subst h; rfl,
   by intros; rfl, by intros; rfl⟩

def demoMsg (id : Nat) : Msg :=
  { hdr := { spiI := [2], spiR := [1], major := 2, minor := 0, exch := 37, isResp := false, higher := false,
             isInit := true, msgId := id }, payloads := [], enc := [], iv := none }

-- ids 3, 3, 2, 4, 3, 9 arrive: 3 and 4 are executed, once each
example : (runHistory demoH () demoSa [(1, some (demoMsg 3)), (2, some (demoMsg 3)), (3, some (demoMsg 2)),
    (4, some (demoMsg 4)), (5, some (demoMsg 3)), (6, some (demoMsg 9))] []).2.2 = [3, 4] := by decide

/-! ### the whole model: the shell with the concrete handlers of Model/Handlers.lean

  The frame condition is no longer a hypothesis: it is proved for the model of the real per-exchange handlers and
  request generators (Proofs/Handlers.lean: none of them assigns `peer_msg_id`), so the history theorems hold for the
  model of the complete IKE_SA object, for every oracle tape (every entropy, every cryptographic verdict, every kernel
  answer) and every input history. -/

/-- no handler or generator of the model touches the peer's Message ID counter -/
theorem c08_concrete_peer_frame : PeerFrame concreteHandlers :=
  { req := fun t s now m t' o h => (concrete_req_const t s now m t' o h).1,
    resp := fun t s now m t' o h => (concrete_resp_const t s now m t' o h).1,
    genAcquire := fun t s now a b i => (concrete_genAcquire_const t s now a b i).1,
    genExpire := fun t s now c h => (concrete_genExpire_const t s now c h).1 }

/-- the executed request IDs of the complete model are strictly increasing under any input history and any oracle tape -/
theorem c08_whole_model_executed_ids_strictly_increasing (inputs : List Input) (w : XWorld) (s : Sa) :
    (runHistory concreteHandlers w s inputs []).2.2.Pairwise (· < ·) :=
  c08_executed_ids_strictly_increasing concreteHandlers c08_concrete_peer_frame inputs w s [] List.Pairwise.nil (by simp)

/-- … hence at most once -/
theorem c08_whole_model_at_most_once (inputs : List Input) (w : XWorld) (s : Sa) :
    (runHistory concreteHandlers w s inputs []).2.2.Nodup :=
  c08_at_most_once concreteHandlers c08_concrete_peer_frame inputs w s

/-- the response cache is written by the shell only: whatever a handler of the model does, the stored response, the
    retransmission bookkeeping and the queued events are what they were when it was called -/
theorem c08_concrete_handlers_leave_shell_fields (w : XWorld) (s : Sa) (now : Nat) (m : Msg) (w' : XWorld) (o : HOut)
    (h : concreteHandlers.req w s now m = (w', some o)) :
    o.sa.core.lastResp = s.core.lastResp ∧ o.sa.core.rtx = s.core.rtx ∧ o.sa.core.rtxAt = s.core.rtxAt ∧
    o.sa.core.pending = s.core.pending ∧ o.sa.core.mySpi = s.core.mySpi ∧ o.sa.core.isInit = s.core.isInit := by
  have := concrete_req_const w s now m w' o h
  simp only [CoreConst] at this
  simp [this]

end PyIkev2.Props.C08
