/-
  C13 — retransmission, dead-peer detection and lifetimes are bounded and faithful.
  Statements about the timer functions of the shell model; they hold for every tick sequence
  (every list of clock readings at which the sweep runs) and every handler instance.
-/
import PyIkev2.Proofs.Machine
import PyIkev2.Proofs.HandlersStored
import PyIkev2.Proofs.WholeSad2

namespace PyIkev2.Props.C13
open PyIkev2 PyIkev2.Impl

variable {τ : Type}

/-- run the retransmission timer at the given clock readings (nothing is received in between);
    returns the final IKE_SA and everything that was transmitted, in order -/
def sweeps : Sa → List Nat → Sa × List Msg
  | s, [] => (s, [])
  | s, now :: rest =>
    let o := checkRetransmission s now
    let r := sweeps o.sa rest
    (r.1, o.out.toList ++ r.2)

theorem checkRetransmission_frame (s : Sa) (now : Nat) :
    (checkRetransmission s now).sa.core.request = s.core.request ∧
    ((checkRetransmission s now).sa.core.st = s.core.st ∨ (checkRetransmission s now).sa.core.st = stDELETED) := by
  simp only [checkRetransmission]
  split
  · split
    · split <;> simp
    · simp
  · simp

/-- one sweep emits at most one datagram, which is the stored request, and then the transmission
    counter has grown by exactly one; without emission the counter is unchanged -/
theorem c13_one_sweep (s : Sa) (now : Nat) :
    let o := checkRetransmission s now
    (o.out = none ∧ o.sa.core.rtx = s.core.rtx) ∨
    (o.out = s.core.request ∧ o.sa.core.rtx = s.core.rtx + 1 ∧ s.core.rtx < MAX_RETRANSMISSIONS ∧ waiting s.core.st = true ∧
      s.core.rtxAt < now) := by
  simp only [checkRetransmission]
  split
  · split
    · split
      · simp
      · rename_i h1 h2 h3
        right
        refine ⟨rfl, rfl, by omega, h1, h2⟩
    · simp
  · simp

/-- budget: whatever the tick sequence, the transmissions made by the timer plus the ones already
    counted never exceed the built-in maximum, and every one of them is the stored request -/
theorem c13_budget (ticks : List Nat) : ∀ (s : Sa), s.core.rtx ≤ MAX_RETRANSMISSIONS →
    (sweeps s ticks).2.length + s.core.rtx ≤ MAX_RETRANSMISSIONS ∧
    (∀ m ∈ (sweeps s ticks).2, some m = s.core.request) := by
  induction ticks with
  | nil => intro s h; simp [sweeps]; exact h
  | cons now rest ih =>
    intro s h
    simp only [sweeps]
    have hreq := (checkRetransmission_frame s now).1
    rcases c13_one_sweep s now with ⟨ho, hr⟩ | ⟨ho, hr, hlt, _, _⟩
    · have := ih (checkRetransmission s now).sa (by rw [hr]; exact h)
      rw [ho]
      simp only [Option.toList_none, List.nil_append]
      rw [hr, hreq] at this
      exact this
    · have := ih (checkRetransmission s now).sa (by rw [hr]; omega)
      rw [hr, hreq] at this
      constructor
      · simp only [List.length_append]
        have hl : (checkRetransmission s now).out.toList.length ≤ 1 := by
          cases (checkRetransmission s now).out <;> simp
        omega
      · intro m hm
        simp only [List.mem_append] at hm
        rcases hm with hm | hm
        · rw [ho] at hm
          cases hq : s.core.request with
          | none => simp [hq] at hm
          | some q => simp [hq] at hm; rw [hm]
        · exact this.2 m hm

/-- schedule: after the n-th transmission the next one is due n·2 s after the previous deadline, so the
    scheduled gaps 2, 4, 6, 8 s never decrease -/
theorem c13_backoff (s : Sa) (now : Nat) (h : (checkRetransmission s now).out.isSome) :
    (checkRetransmission s now).sa.core.rtxAt = s.core.rtxAt + (s.core.rtx + 1) * RETRANSMISSION_DELAY * tick := by
  simp only [checkRetransmission] at h ⊢
  split
  · split
    · split
      · rename_i h1 h2 h3; simp [h1, h2, h3] at h
      · rfl
    · rename_i h1 h2; simp [h1, h2] at h
  · rename_i h1; simp [h1] at h

/-- the first deadline is 2 s after the request went out -/
theorem c13_first_deadline (s : Sa) (now : Nat) (r : Msg) :
    (sendRequest s now r).core.rtxAt = now + 2 * tick ∧ (sendRequest s now r).core.rtx = 1 := by
  simp [sendRequest, RETRANSMISSION_DELAY]

/-- time-out: budget used up and the last deadline passed ⇒ the IKE_SA is marked DELETED and nothing is sent
    (the sweep then removes it with its kernel SAs: C10, C16) -/
theorem c13_timeout (s : Sa) (now : Nat) (hw : waiting s.core.st = true) (hd : s.core.rtxAt < now)
    (hb : s.core.rtx ≥ MAX_RETRANSMISSIONS) :
    (checkRetransmission s now).sa.core.st = stDELETED ∧ (checkRetransmission s now).out = none := by
  simp [checkRetransmission, hw, hd, hb]

/-- an answered request is never retransmitted: outside the request-outstanding states the timer does nothing -/
theorem c13_answered_silent (s : Sa) (now : Nat) (hw : waiting s.core.st = false) :
    checkRetransmission s now = { sa := s } := by
  simp [checkRetransmission, hw]

/-- the request-outstanding states are exactly INIT_REQ_SENT, AUTH_REQ_SENT and the seven *_REQ_SENT states 11..17 -/
theorem c13_waiting_states :
    ∀ st, waiting st = true ↔ st = 2 ∨ st = 3 ∨ (11 ≤ st ∧ st ≤ 19) := by
  intro st
  unfold waiting
  rw [decide_eq_true_iff]
  simp only [stNEW_CHILD_REQ_SENT, stREKEYED, stINIT_REQ_SENT, stAUTH_REQ_SENT]
  omega

/-- dead-peer detection: a probe is generated exactly when the IKE_SA is ESTABLISHED and nothing authentic
    arrived for the DPD interval; any accepted message re-arms the timer to `now + dpd` -/
theorem c13_dpd (H : Handlers τ) (t : τ) (s : Sa) (now : Nat) :
    (¬ (s.core.dpdAt < now ∧ s.core.st = stESTABLISHED) → checkDpd H t s now = (t, { sa := s })) ∧
    (s.core.dpdAt < now ∧ s.core.st = stESTABLISHED → (checkDpd H t s now).2.ran = 1) ∧
    (touchDpd s now).core.dpdAt = now + s.core.dpd := by
  refine ⟨?_, ?_, rfl⟩
  · intro h; simp [checkDpd, h]
  · intro h
    simp only [checkDpd, h, and_self, if_true]
    cases (H.genDpd t s now).2.res <;> rfl

/-- lifetimes: only an ESTABLISHED IKE_SA starts anything; past the hard deadline it is deleted, else
    past the rekey time it is rekeyed, else nothing -/
theorem c13_lifetime (H : Handlers τ) (t : τ) (s : Sa) (now : Nat) :
    (s.core.st ≠ stESTABLISHED → checkRekey H t s now = (t, { sa := s })) ∧
    (s.core.st = stESTABLISHED → ¬ s.core.deleteAt < now → ¬ s.core.rekeyAt < now → checkRekey H t s now = (t, { sa := s })) ∧
    (s.core.st = stESTABLISHED → (s.core.deleteAt < now ∨ s.core.rekeyAt < now) → (checkRekey H t s now).2.ran = 1) := by
  refine ⟨?_, ?_, ?_⟩
  · intro h; simp [checkRekey, h]
  · intro h h1 h2; simp [checkRekey, h, h1, h2]
  · intro h h1
    by_cases hd : s.core.deleteAt < now
    · simp only [checkRekey, h, hd, if_true]
      cases (H.genDeleteIke t s now).2.res <;> rfl
    · have hr : s.core.rekeyAt < now := by rcases h1 with h1 | h1; exact absurd h1 hd; exact h1
      simp only [checkRekey, h, hd, hr, if_true, if_false]
      cases (H.genRekeyIke t s now).2.res <;> rfl

/-! non-vacuity: an unanswered request sent at 0, sweeps every second: transmissions at 2 s, 6 s, 12 s, DELETED after 20 s -/

def demo : Sa :=
  { core := { st := stNEW_CHILD_REQ_SENT, isInit := true, mySpi := [1], peerSpi := [2], myId := 2, peerId := 0, keyed := true,
              lastResp := none,
              request := some { hdr := { spiI := [1], spiR := [2], major := 2, minor := 0, exch := 36, isResp := false, higher := false,
                                         isInit := true, msgId := 2 }, payloads := [], enc := [], iv := none },
              rtxAt := 2 * tick, rtx := 1, dpdAt := 0, rekeyAt := 0, deleteAt := 0, dpd := 0, children := [], pending := [],
              indices := [], myAddr := [10], peerAddr := [11], cookie := false }, succ := none }

example : (sweeps demo ((List.range 25).map fun i => i * tick + 1)).2.length = 3 ∧
    (sweeps demo ((List.range 25).map fun i => i * tick + 1)).1.core.st = stDELETED := by decide

/-! ### what is retransmitted is what was sent, for the concrete handlers

  The timer sends `self.request` again (`checkRetransmission`: `out := s.core.request`).  That this is the request the IKE_SA last sent —
  in particular after a COOKIE or INVALID_KE_PAYLOAD retry, where the request is rebuilt — is a fact about every handler and every
  generator: whatever returns a request to the shell has stored exactly that request (Proofs/HandlersStored.lean). -/

theorem runOn_request_stored (w : XWorld) (s : Sa) (h : HM HRes) (hst : ResStored h) (r : Msg) (hr : (runOn w s h).2.res = HRes.request r) :
    (runOn w s h).2.sa.core.request = some r := by
  rw [(runOn_sa w s h).1]
  cases hq : h (startAny w s) with
  | mk x t =>
    cases x with
    | ok v =>
      rw [runOn_res_ok w s h v t hq] at hr
      simp only [hq]
      exact hst.ok _ v t trivial hq r hr
    | error e =>
      have := runOn_res_err w s h e t hq
      rw [hr] at this
      cases this

/-- a response handler that makes the IKE_SA send a (new or retried) request has stored that request -/
theorem c13_concrete_response_sends_what_it_stores (w : XWorld) (s : Sa) (now : Nat) (m : Msg) (w' : XWorld) (o : HOut) (r : Msg)
    (h : concreteHandlers.resp w s now m = (w', some o)) (hr : o.res = HRes.request r) : o.sa.core.request = some r := by
  simp only [concreteHandlers] at h
  split at h
  · rename_i hd hh
    have ho : o = (runOn w s hd).2 := by cases h; rfl
    subst ho
    exact runOn_request_stored w s hd (responseHandler_st now m hd hh) r hr
  · cases h

/-- every request generator (ACQUIRE, EXPIRE, DPD, hard lifetime, rekey timer) has stored the request it returns -/
theorem c13_concrete_generators_send_what_they_store (w : XWorld) (s : Sa) (now : Nat) (a b : TS) (idx : Nat) (ch : ChildRef)
    (hard : Bool) (r : Msg) :
    ((concreteHandlers.genAcquire w s now a b idx).2.res = HRes.request r → (concreteHandlers.genAcquire w s now a b idx).2.sa.core.request = some r) ∧
    ((concreteHandlers.genExpire w s now ch hard).2.res = HRes.request r → (concreteHandlers.genExpire w s now ch hard).2.sa.core.request = some r) ∧
    ((concreteHandlers.genDpd w s now).2.res = HRes.request r → (concreteHandlers.genDpd w s now).2.sa.core.request = some r) ∧
    ((concreteHandlers.genDeleteIke w s now).2.res = HRes.request r → (concreteHandlers.genDeleteIke w s now).2.sa.core.request = some r) ∧
    ((concreteHandlers.genRekeyIke w s now).2.res = HRes.request r → (concreteHandlers.genRekeyIke w s now).2.sa.core.request = some r) :=
  ⟨runOn_request_stored w s _ (res_of_gen (genAcquireH_st a b idx)) r,
   runOn_request_stored w s _ (res_of_gen (genExpireH_st ch hard)) r,
   runOn_request_stored w s _ (res_of_gen generateDpdRequest_st) r,
   runOn_request_stored w s _ (res_of_gen generateDeleteIkeSaRequest_st) r,
   runOn_request_stored w s _ (res_of_gen (generateRekeyIkeSaRequest_st now)) r⟩

/-- … so that, whatever `_process_response` of the whole model sends as a request, the retransmission timer repeats exactly that -/
theorem c13_concrete_retransmission_is_the_request_sent (w : XWorld) (s : Sa) (now : Nat) (m : Msg) (w' : XWorld) (o : HOut) (r : Msg)
    (h : concreteHandlers.resp w s now m = (w', some o)) (hr : o.res = HRes.request r) (later : Nat)
    (hw : waiting (sendRequest o.sa now r).core.st = true) (hd : (sendRequest o.sa now r).core.rtxAt < later)
    (hb : (sendRequest o.sa now r).core.rtx < MAX_RETRANSMISSIONS) :
    (checkRetransmission (sendRequest o.sa now r) later).out = some r := by
  have hst := c13_concrete_response_sends_what_it_stores w s now m w' o r h hr
  have hreq : (sendRequest o.sa now r).core.request = some r := hst
  unfold checkRetransmission
  rw [if_pos hw, if_pos hd, if_neg (Nat.not_le.mpr hb)]
  exact hreq

end PyIkev2.Props.C13
