/-
  C02 — no IKE_SA is established without a valid AUTH over the real exchange.
-/
import PyIkev2.Model.Auth

namespace PyIkev2.Props.C02
open PyIkev2 PyIkev2.Impl

/-- tie to the source: the signed octets, the verification branches, the arguments each role signs and verifies with, the
    origin of the stored IKE_SA_INIT octets (the octets RECEIVED for the peer's message, the octets sent for the own one),
    and the order "identity checks, AUTH verification, CHILD_SA negotiation, ESTABLISHED" of both IKE_AUTH handlers -/
theorem c02_rule_from_source :
    Gen.Auth.signedGenerate = ["message_data + nonce + self.my_crypto.prf.prf(sk_p, payload_id.to_bytes())"] ∧
    Gen.Auth.signedVerify = Gen.Auth.signedGenerate ∧
    Gen.Auth.verifyBranches =
      [("payload_auth.method == PayloadAUTH.Method.PSK and self.configuration.peer_auth.psk",
        "self._generate_psk_auth_payload(self.configuration.peer_auth.psk, data_to_be_signed) != payload_auth"),
       ("payload_auth.method == PayloadAUTH.Method.RSA and self.configuration.peer_auth.pubkey",
        "not self._verify_rsa_auth_payload(payload_auth.auth_data, data_to_be_signed)")] ∧
    Gen.Auth.pskAuth = ["self.my_crypto.prf.prf(psk, b'Key Pad for IKEv2')",
                        "PayloadAUTH(PayloadAUTH.Method.PSK, self.my_crypto.prf.prf(keypad, data_to_be_signed))"] ∧
    Gen.Auth.responderVerify = [["request_payload_auth", "self.ike_sa_init_req_data",
      "ike_sa_init_res.get_payload(Payload.Type.NONCE).nonce", "request_payload_idi", "self.peer_crypto.sk_p"]] ∧
    Gen.Auth.initiatorVerify = [["response_payload_auth", "self.ike_sa_init_res_data",
      "ike_sa_init_req.get_payload(Payload.Type.NONCE).nonce", "response_payload_idr", "self.peer_crypto.sk_p"]] ∧
    Gen.Auth.responderGenerate = [["self.ike_sa_init_res_data", "ike_sa_init_req.get_payload(Payload.Type.NONCE).nonce",
      "response_payload_idr", "self.my_crypto.sk_p"]] ∧
    Gen.Auth.initiatorGenerate = [["self.ike_sa_init_req_data", "ike_sa_init_res.get_payload(Payload.Type.NONCE).nonce",
      "payload_idi", "self.my_crypto.sk_p"]] ∧
    Gen.Auth.storedInit =
      [("generate_ike_sa_init_request:ike_sa_init_req_data", "self.request.to_bytes()"),
       ("process_ike_sa_init_request:ike_sa_init_req_data", "request.received_data"),
       ("process_ike_sa_init_request:ike_sa_init_res_data", "response.to_bytes()"),
       ("process_ike_sa_init_response:ike_sa_init_req_data", "self.request.to_bytes()"),
       ("process_ike_sa_init_response:ike_sa_init_res_data", "response.received_data")] ∧
    Gen.Auth.orderRequest = ["id-check", "id-check", "verify", "child", "established"] ∧
    Gen.Auth.orderResponse = ["id-check", "id-check", "verify", "child", "established"] := by decide

/-- before authentication only the IKE_SA_INIT / IKE_AUTH handlers are admitted: every handler that can install an IPsec
    SA or rekey (CREATE_CHILD_SA, INFORMATIONAL) requires a state from ESTABLISHED on -/
theorem c02_nothing_but_auth_before_established :
    (Gen.Machine.admission.filter fun e => e.2.any (· < 10)).map (·.1) =
      ["process_ike_auth_request", "process_ike_auth_response", "process_ike_sa_init_request", "process_ike_sa_init_response"] := by
  decide

/-- **The decision.** An IKE_AUTH handler reaches ESTABLISHED (and only then attempts the CHILD_SA, i.e. any SA
    installation) only if the presented identity is the configured one, in type and data, and the AUTH payload verified;
    every other case ends in failure with nothing attempted. -/
theorem c02_establish_requires_auth (cfgT : Nat) (cfgD : Bytes) (t : Nat) (d : Bytes) (ok : Bool) (c : Bool) :
    ikeAuthDecision cfgT cfgD t d ok = .established c → t = cfgT ∧ d = cfgD ∧ ok = true := by
  unfold ikeAuthDecision
  by_cases h1 : t ≠ cfgT
  · simp [h1]
  · by_cases h2 : d ≠ cfgD
    · simp [h1, h2]
    · cases ok <;> simp_all

/-- verification succeeds only under the configured credential of the presented method: a shared-key AUTH only if a
    (non-empty) PSK is configured and the data equals prf(prf(PSK, "Key Pad for IKEv2"), octets); a signature only if a
    public key is configured and it verifies; no other method, and no method whose credential is missing -/
theorem c02_verify_only_with_configured_credential {κ : Type} (prf : Bytes → Bytes → Bytes) (sigOk : κ → Bytes → Bytes → Bool)
    (cfg : PeerAuth κ) (method : Nat) (authData octets : Bytes) (h : verifyAuth prf sigOk cfg method authData octets = true) :
    (method = 2 ∧ ∃ psk, cfg.psk = some psk ∧ psk ≠ [] ∧ authData = pskAuth prf psk octets) ∨
    (method = 1 ∧ ∃ k, cfg.pub = some k ∧ sigOk k authData octets = true) := by
  unfold verifyAuth at h
  cases hp : cfg.psk with
  | none =>
    cases hk : cfg.pub with
    | none => simp [hp, hk] at h
    | some k =>
      simp only [hp, hk] at h
      by_cases hm : method = 1
      · right; exact ⟨hm, k, rfl, by simpa [hm] using h⟩
      · simp [hm] at h
  | some psk =>
    simp only [hp] at h
    by_cases hc : method = 2 ∧ psk ≠ []
    · left
      rw [if_pos hc] at h
      exact ⟨hc.1, psk, rfl, hc.2, (of_decide_eq_true h).symm⟩
    · rw [if_neg hc] at h
      cases hk : cfg.pub with
      | none => simp [hk] at h
      | some k =>
        simp only [hk] at h
        by_cases hm : method = 1
        · right; exact ⟨hm, k, rfl, by simpa [hm] using h⟩
        · simp [hm] at h

/-- **One tag binds one message, one nonce, one identity.** Two decompositions of the same signed octets whose
    IKE_SA_INIT parts each carry their own length in the header (as `to_bytes` writes it and the received octets of an
    accepted datagram have it) and whose identity hashes have the prf's length agree in all three parts. -/
theorem c02_octets_unambiguous (m n h m' n' h' : Bytes)
    (hm : 28 ≤ m.length ∧ lenField m = m.length) (hm' : 28 ≤ m'.length ∧ lenField m' = m'.length)
    (hh : h.length = h'.length) (heq : m ++ n ++ h = m' ++ n' ++ h') : m = m' ∧ n = n' ∧ h = h' := by
  -- the header (first 28 octets) is shared, hence the length field, hence the split point
  have hlen : m.length = m'.length := by
    have e1 : ∀ (i : Nat), i < 28 → (m ++ n ++ h).getD i 0 = m.getD i 0 := by
      intro i hi
      simp only [List.getD_eq_getElem?_getD]
      rw [List.append_assoc, List.getElem?_append_left (by omega)]
    have e2 : ∀ (i : Nat), i < 28 → (m' ++ n' ++ h').getD i 0 = m'.getD i 0 := by
      intro i hi
      simp only [List.getD_eq_getElem?_getD]
      rw [List.append_assoc, List.getElem?_append_left (by omega)]
    have hf : lenField m = lenField m' := by
      unfold lenField u32
      rw [← e1 24 (by omega), ← e1 25 (by omega), ← e1 26 (by omega), ← e1 27 (by omega),
          ← e2 24 (by omega), ← e2 25 (by omega), ← e2 26 (by omega), ← e2 27 (by omega), heq]
    rw [← hm.2, ← hm'.2, hf]
  rw [List.append_assoc, List.append_assoc] at heq
  have h1 := List.append_inj heq hlen
  have hl2 : (n ++ h).length = (n' ++ h').length := by rw [h1.2]
  have hn : n.length = n'.length := by simp at hl2; omega
  have h2 := List.append_inj h1.2 hn
  exact ⟨h1.1, h2.1, h2.2⟩

/-- hence (hypothesis: the prf separates the two octet strings, i.e. no collision) a shared-key AUTH accepted for one
    (message, nonce, identity hash) is not the AUTH of another -/
theorem c02_psk_auth_binds (prf : Bytes → Bytes → Bytes) (psk o1 o2 : Bytes)
    (hsep : o1 ≠ o2 → prf (prf psk keyPad) o1 ≠ prf (prf psk keyPad) o2) (h : pskAuth prf psk o1 = pskAuth prf psk o2) : o1 = o2 := by
  by_cases he : o1 = o2
  · exact he
  · exact absurd h (hsep he)

/-! non-vacuity -/
example : ikeAuthDecision 3 [1, 2] 3 [1, 2] true = .established true := by decide
example : ikeAuthDecision 3 [1, 2] 3 [1, 2] false = .failed ∧ ikeAuthDecision 3 [1, 2] 2 [1, 2] true = .failed := by decide
example : verifyAuth (κ := Unit) (fun k d => k ++ d) (fun _ _ _ => false) { psk := some [7], pub := none } 2 ([7] ++ keyPad ++ [9]) [9] = true := by
  decide

end PyIkev2.Props.C02
