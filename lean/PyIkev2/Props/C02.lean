/-
  C02 — no IKE_SA is established without a valid AUTH over the real exchange.
-/
import PyIkev2.Model.Auth
import PyIkev2.Proofs.HandlersAuth

namespace PyIkev2.Props.C02
open PyIkev2 PyIkev2.Impl

/-- tie to the source: the signed octets, the verification branches, the arguments each role signs and verifies with, the
    origin of the stored IKE_SA_INIT octets (the octets RECEIVED for the peer's message, the octets sent for the own one),
    and the order "identity checks, AUTH verification, CHILD_SA negotiation, ESTABLISHED" of both IKE_AUTH handlers -/
theorem c02_rule_from_source :
    Gen.Auth.signedGenerate = ["message_data + nonce + self.my_crypto.prf.prf(sk_p, payload_id.to_bytes())"] ∧
    Gen.Auth.signedVerify = Gen.Auth.signedGenerate ∧
    Gen.Auth.verifyBranches =
      [("payload_auth.method == PayloadAUTH.Method.PSK and self.configuration.peer_auth.psk",
        "self._generate_psk_auth_payload(self.configuration.peer_auth.psk, data_to_be_signed) != payload_auth"),
       ("payload_auth.method == PayloadAUTH.Method.RSA and self.configuration.peer_auth.pubkey",
        "not self._verify_rsa_auth_payload(payload_auth.auth_data, data_to_be_signed)")] ∧
    Gen.Auth.pskAuth = ["self.my_crypto.prf.prf(psk, b'Key Pad for IKEv2')",
                        "PayloadAUTH(PayloadAUTH.Method.PSK, self.my_crypto.prf.prf(keypad, data_to_be_signed))"] ∧
    Gen.Auth.responderVerify = [["request_payload_auth", "self.ike_sa_init_req_data",
      "ike_sa_init_res.get_payload(Payload.Type.NONCE).nonce", "request_payload_idi", "self.peer_crypto.sk_p"]] ∧
    Gen.Auth.initiatorVerify = [["response_payload_auth", "self.ike_sa_init_res_data",
      "ike_sa_init_req.get_payload(Payload.Type.NONCE).nonce", "response_payload_idr", "self.peer_crypto.sk_p"]] ∧
    Gen.Auth.responderGenerate = [["self.ike_sa_init_res_data", "ike_sa_init_req.get_payload(Payload.Type.NONCE).nonce",
      "response_payload_idr", "self.my_crypto.sk_p"]] ∧
    Gen.Auth.initiatorGenerate = [["self.ike_sa_init_req_data", "ike_sa_init_res.get_payload(Payload.Type.NONCE).nonce",
      "payload_idi", "self.my_crypto.sk_p"]] ∧
    Gen.Auth.storedInit =
      [("generate_ike_sa_init_request:ike_sa_init_req_data", "self.request.to_bytes()"),
       ("process_ike_sa_init_request:ike_sa_init_req_data", "request.received_data"),
       ("process_ike_sa_init_request:ike_sa_init_res_data", "response.to_bytes()"),
       ("process_ike_sa_init_response:ike_sa_init_req_data", "self.request.to_bytes()"),
       ("process_ike_sa_init_response:ike_sa_init_res_data", "response.received_data")] ∧
    Gen.Auth.orderRequest = ["id-check", "id-check", "verify", "child", "established"] ∧
    Gen.Auth.orderResponse = ["id-check", "id-check", "verify", "child", "established"] := by decide

/-- before authentication only the IKE_SA_INIT / IKE_AUTH handlers are admitted: every handler that can install an IPsec
    SA or rekey (CREATE_CHILD_SA, INFORMATIONAL) requires a state from ESTABLISHED on -/
theorem c02_nothing_but_auth_before_established :
    (Gen.Machine.admission.filter fun e => e.2.any (· < 10)).map (·.1) =
      ["process_ike_auth_request", "process_ike_auth_response", "process_ike_sa_init_request", "process_ike_sa_init_response"] := by
  decide

/-- **The decision.** An IKE_AUTH handler reaches ESTABLISHED (and only then attempts the CHILD_SA, i.e. any SA
    installation) only if the presented identity is the configured one, in type and data, and the AUTH payload verified;
    every other case ends in failure with nothing attempted. -/
theorem c02_establish_requires_auth (cfgT : Nat) (cfgD : Bytes) (t : Nat) (d : Bytes) (ok : Bool) (c : Bool) :
    ikeAuthDecision cfgT cfgD t d ok = .established c → t = cfgT ∧ d = cfgD ∧ ok = true := by
  unfold ikeAuthDecision
  by_cases h1 : t ≠ cfgT
  · simp [h1]
  · by_cases h2 : d ≠ cfgD
    · simp [h1, h2]
    · cases ok <;> simp_all

/-- verification succeeds only under the configured credential of the presented method: a shared-key AUTH only if a
    (non-empty) PSK is configured and the data equals prf(prf(PSK, "Key Pad for IKEv2"), octets); a signature only if a
    public key is configured and it verifies; no other method, and no method whose credential is missing -/
theorem c02_verify_only_with_configured_credential {κ : Type} (prf : Bytes → Bytes → Bytes) (sigOk : κ → Bytes → Bytes → Bool)
    (cfg : PeerAuth κ) (method : Nat) (authData octets : Bytes) (h : verifyAuth prf sigOk cfg method authData octets = true) :
    (method = 2 ∧ ∃ psk, cfg.psk = some psk ∧ psk ≠ [] ∧ authData = pskAuth prf psk octets) ∨
    (method = 1 ∧ ∃ k, cfg.pub = some k ∧ sigOk k authData octets = true) := by
  unfold verifyAuth at h
  cases hp : cfg.psk with
  | none =>
    cases hk : cfg.pub with
    | none => simp [hp, hk] at h
    | some k =>
      simp only [hp, hk] at h
      by_cases hm : method = 1
      · right; exact ⟨hm, k, rfl, by simpa [hm] using h⟩
      · simp [hm] at h
  | some psk =>
    simp only [hp] at h
    by_cases hc : method = 2 ∧ psk ≠ []
    · left
      rw [if_pos hc] at h
      exact ⟨hc.1, psk, rfl, hc.2, (of_decide_eq_true h).symm⟩
    · rw [if_neg hc] at h
      cases hk : cfg.pub with
      | none => simp [hk] at h
      | some k =>
        simp only [hk] at h
        by_cases hm : method = 1
        · right; exact ⟨hm, k, rfl, by simpa [hm] using h⟩
        · simp [hm] at h

/-- **One tag binds one message, one nonce, one identity.** Two decompositions of the same signed octets whose
    IKE_SA_INIT parts each carry their own length in the header (as `to_bytes` writes it and the received octets of an
    accepted datagram have it) and whose identity hashes have the prf's length agree in all three parts. -/
theorem c02_octets_unambiguous (m n h m' n' h' : Bytes)
    (hm : 28 ≤ m.length ∧ lenField m = m.length) (hm' : 28 ≤ m'.length ∧ lenField m' = m'.length)
    (hh : h.length = h'.length) (heq : m ++ n ++ h = m' ++ n' ++ h') : m = m' ∧ n = n' ∧ h = h' := by
  -- the header (first 28 octets) is shared, hence the length field, hence the split point
  have hlen : m.length = m'.length := by
    have e1 : ∀ (i : Nat), i < 28 → (m ++ n ++ h).getD i 0 = m.getD i 0 := by
      intro i hi
      simp only [List.getD_eq_getElem?_getD]
      rw [List.append_assoc, List.getElem?_append_left (by omega)]
    have e2 : ∀ (i : Nat), i < 28 → (m' ++ n' ++ h').getD i 0 = m'.getD i 0 := by
      intro i hi
      simp only [List.getD_eq_getElem?_getD]
      rw [List.append_assoc, List.getElem?_append_left (by omega)]
    have hf : lenField m = lenField m' := by
      unfold lenField u32
      rw [← e1 24 (by omega), ← e1 25 (by omega), ← e1 26 (by omega), ← e1 27 (by omega),
          ← e2 24 (by omega), ← e2 25 (by omega), ← e2 26 (by omega), ← e2 27 (by omega), heq]
    rw [← hm.2, ← hm'.2, hf]
  rw [List.append_assoc, List.append_assoc] at heq
  have h1 := List.append_inj heq hlen
  have hl2 : (n ++ h).length = (n' ++ h').length := by rw [h1.2]
  have hn : n.length = n'.length := by simp at hl2; omega
  have h2 := List.append_inj h1.2 hn
  exact ⟨h1.1, h2.1, h2.2⟩

/-- hence (hypothesis: the prf separates the two octet strings, i.e. no collision) a shared-key AUTH accepted for one
    (message, nonce, identity hash) is not the AUTH of another -/
theorem c02_psk_auth_binds (prf : Bytes → Bytes → Bytes) (psk o1 o2 : Bytes)
    (hsep : o1 ≠ o2 → prf (prf psk keyPad) o1 ≠ prf (prf psk keyPad) o2) (h : pskAuth prf psk o1 = pskAuth prf psk o2) : o1 = o2 := by
  by_cases he : o1 = o2
  · exact he
  · exact absurd h (hsep he)

/-! non-vacuity -/
example : ikeAuthDecision 3 [1, 2] 3 [1, 2] true = .established true := by decide
example : ikeAuthDecision 3 [1, 2] 3 [1, 2] false = .failed ∧ ikeAuthDecision 3 [1, 2] 2 [1, 2] true = .failed := by decide
example : verifyAuth (κ := Unit) (fun k d => k ++ d) (fun _ _ _ => false) { psk := some [7], pub := none } 2 ([7] ++ keyPad ++ [9]) [9] = true := by
  decide

/-! ### the whole model (shell + concrete handlers of Model/Handlers.lean)

  `_verify_auth_payload` is an oracle of the model: its verdict is read from the tape.  The theorems below say that nothing
  but a positive verdict of that oracle can take an IKE_SA out of the pre-established states, make it track a CHILD_SA or make
  it ask the kernel for anything — for every request and response of every exchange type with any payloads, every value of
  every other oracle (SPIs, nonces, DH values and outcomes, cookies, the AUTH payload we generate, kernel answers), in every
  pre-established state, for histories of any length.  What the verdict itself means is the subject of the theorems above. -/

/-- one handler call -/
theorem c02_whole_model_handlers_before_auth (w : XWorld) (s : Sa) (now : Nat) (m : Msg) (w' : XWorld) (o : HOut)
    (hp : PreAuthSa w s) :
    (concreteHandlers.req w s now m = (w', some o) → PreAuthSa w' o.sa ∧ o.nl = []) ∧
    (concreteHandlers.resp w s now m = (w', some o) → PreAuthSa w' o.sa ∧ o.nl = []) :=
  ⟨concrete_req_preauth w s now m w' o hp, concrete_resp_preauth w s now m w' o hp⟩

/-- one datagram through `process_message` -/
theorem c02_whole_model_message_before_auth (w : XWorld) (s : Sa) (now : Nat) (p : Option Msg) (hp : PreAuthSa w s) :
    let r := processMessage concreteHandlers w s now p
    (PreAuthSa r.1 r.2.sa ∨ (r.2.sa.core.st = stDELETED ∧ r.2.sa.core.children = [])) ∧ r.2.nl = [] :=
  ⟨(processMessage_preauth w s now p hp).1, (processMessage_preauth w s now p hp).2.1⟩

/-- feed a history of datagrams to one IKE_SA object until it ends; collect the netlink requests -/
def feed : XWorld → Sa → List (Nat × Option Msg) → List NlOp → XWorld × Sa × List NlOp
  | w, s, [], acc => (w, s, acc)
  | w, s, (now, p) :: rest, acc =>
    if s.core.st = stDELETED then (w, s, acc)
    else
      let r := processMessage concreteHandlers w s now p
      feed r.1 r.2.sa rest (acc ++ r.2.nl)

/-- **no establishment without a positive AUTH verdict**: whatever arrives, in whatever order and however often, an IKE_SA
    that starts before authentication is never ESTABLISHED (nor in any later state except DELETED), never tracks a CHILD_SA
    and never asks the kernel for anything, as long as the oracle never answers that the peer's AUTH payload verified -/
theorem c02_whole_model_never_established_without_verdict (inputs : List (Nat × Option Msg)) (w : XWorld) (s : Sa) (acc : List NlOp)
    (hp : PreAuthSa w s ∨ (s.core.st = stDELETED ∧ s.core.children = [])) :
    let r := feed w s inputs acc
    (r.2.1.core.st < 10 ∨ r.2.1.core.st = stDELETED) ∧ r.2.1.core.children = [] ∧ r.2.2 = acc := by
  induction inputs generalizing w s acc with
  | nil =>
    simp only [feed]
    rcases hp with hp | hp
    · exact ⟨Or.inl hp.1, hp.2.1, trivial⟩
    · exact ⟨Or.inr hp.1, hp.2, trivial⟩
  | cons inp rest ih =>
    obtain ⟨now, p⟩ := inp
    simp only [feed]
    split
    · rename_i hd
      rcases hp with hp | hp
      · have := hp.1; simp only [stDELETED] at hd; omega
      · exact ⟨Or.inr hp.1, hp.2, rfl⟩
    · rename_i hd
      rcases hp with hp | hp
      · have hstep := processMessage_preauth w s now p hp
        have := ih (processMessage concreteHandlers w s now p).1 (processMessage concreteHandlers w s now p).2.sa
          (acc ++ (processMessage concreteHandlers w s now p).2.nl) hstep.1
        simpa [hstep.2.1] using this
      · exact absurd hp.1 hd

/-! non-vacuity: a fresh responder object with an arbitrary tape that lacks a positive verdict is "before authentication" -/
example : PreAuthSa { tape := { vals := [.bytes [1], .verdict false, .flag true, .num 3] }, exts := [], confs := [] }
    { core := { st := stINITIAL, isInit := false, mySpi := [1], peerSpi := [2], myId := 0, peerId := 0, keyed := false, lastResp := none,
                request := none, rtxAt := 0, rtx := 0, dpdAt := 0, rekeyAt := 0, deleteAt := 0, dpd := 0, children := [], pending := [],
                indices := [], myAddr := [10], peerAddr := [11], cookie := false }, succ := none } := by
  refine ⟨by decide, rfl, rfl, ?_, ?_⟩
  · intro v hv; simp at hv; rcases hv with rfl | rfl | rfl | rfl <;> simp
  · intro e he; simp [XWorld.extOf] at he

end PyIkev2.Props.C02
