/-
  Before authentication nothing is established, tracked or installed — for the concrete handlers.

  `PreAuth`: the IKE_SA is in one of the four pre-established states, tracks no CHILD_SA, the call has issued no netlink
  request, and the oracle tape holds no positive verdict of `_verify_auth_payload`.  Every handler and every generator keeps
  it: the only two places that lead to ESTABLISHED come after `popAuthVerify`, which cannot return without such a verdict.
-/
import PyIkev2.Proofs.Handlers

namespace PyIkev2.Impl
open PyIkev2

variable {α β : Type}

/-- the computation raises in every state that satisfies `I` -/
structure Fails (I : HSt → Prop) (m : HM α) : Prop where
  fail : ∀ s, I s → ∃ e, (m s).1 = .error e

theorem Keeps.bind_fails {I : HSt → Prop} {m : HM α} {f : α → HM β} (hm : Keeps I m) (hf : Fails I m) : Keeps I (m >>= f) := by
  constructor
  intro s h
  rw [HM.bind_def]
  have h1 := hm.keep s h
  obtain ⟨e, he⟩ := hf.fail s h
  cases hr : m s with
  | mk r s' =>
    rw [hr] at h1 he
    simp only at he
    subst he
    exact h1

def noTrueVerdict (t : Tape) : Prop := ∀ v ∈ t.vals, v ≠ TVal.verdict true

def PreAuth (s : HSt) : Prop :=
  s.me.core.st < 10 ∧ noTrueVerdict s.tape ∧ s.me.ext.kids = [] ∧ s.me.core.children = [] ∧ s.nl = [] ∧ s.succ = none

theorem popVal_pre : Keeps PreAuth popVal := by
  constructor
  intro s h
  unfold popVal
  split
  · simpa [PreAuth, noTrueVerdict] using h
  · rename_i v rest hv
    obtain ⟨h1, h2, h3⟩ := h
    refine ⟨h1, ?_, h3⟩
    intro x hx
    apply h2 x
    rw [hv]
    exact List.mem_cons_of_mem _ hx

theorem popVal_nil (s : HSt) (h : s.tape.vals = []) : popVal s = (.ok none, { s with tape := { s.tape with bad := true } }) := by
  unfold popVal; rw [h]

theorem popVal_cons (s : HSt) (v : TVal) (rest : List TVal) (h : s.tape.vals = v :: rest) :
    popVal s = (.ok (some v), { s with tape := { s.tape with vals := rest } }) := by
  unfold popVal; rw [h]

/-- `_verify_auth_payload` cannot say yes when the tape has no positive verdict -/
theorem popAuthVerify_fails : Fails PreAuth popAuthVerify := by
  constructor
  intro s h
  unfold popAuthVerify
  rw [HM.bind_def]
  cases hv : s.tape.vals with
  | nil =>
    rw [popVal_nil s hv]
    exact ⟨_, rfl⟩
  | cons v rest =>
    rw [popVal_cons s v rest hv]
    have hv' : v ≠ TVal.verdict true := h.2.1 v (by rw [hv]; exact List.mem_cons_self ..)
    cases v with
    | verdict b =>
      cases b with
      | true => exact absurd rfl hv'
      | false => exact ⟨_, rfl⟩
    | bytes b => exact ⟨_, rfl⟩
    | flag b => exact ⟨_, rfl⟩
    | num n => exact ⟨_, rfl⟩
    | auth m d => exact ⟨_, rfl⟩

theorem checkInStates_fails (l : List Nat) (hl : ∀ x ∈ l, 10 ≤ x) : Fails PreAuth (checkInStates l) := by
  constructor
  intro s h
  have hn : l.contains s.me.core.st = false := by
    cases hc : l.contains s.me.core.st with
    | false => rfl
    | true =>
      have hm : s.me.core.st ∈ l := by simpa using hc
      have := hl _ hm
      have := h.1
      omega
  refine ⟨excStateError, ?_⟩
  show ((getMe >>= fun me => if l.contains me.core.st = true then pure () else HM.raise excStateError) s).1 = _
  rw [HM.bind_def]
  have hm : ¬ s.me.core.st ∈ l := by simpa using hn
  simp [getMe, hm, HM.raise]

theorem assertState_fails (l : List Nat) (hl : ∀ x ∈ l, 10 ≤ x) : Fails PreAuth (assertState l) := by
  constructor
  intro s h
  have hn : l.contains s.me.core.st = false := by
    cases hc : l.contains s.me.core.st with
    | false => rfl
    | true =>
      have hm : s.me.core.st ∈ l := by simpa using hc
      have := hl _ hm
      have := h.1
      omega
  refine ⟨excPython, ?_⟩
  show ((getMe >>= fun me => if l.contains me.core.st = true then pure () else HM.raise excPython) s).1 = _
  rw [HM.bind_def]
  have hm : ¬ s.me.core.st ∈ l := by simpa using hn
  simp [getMe, hm, HM.raise]

theorem liveStates_ge : ∀ x ∈ liveStates, 10 ≤ x := by decide
theorem liveStatesAndRekeyed_ge : ∀ x ∈ liveStatesAndRekeyed, 10 ≤ x := by decide

macro "keeps_a" : tactic => `(tactic| repeat' (first
  | exact Keeps.pure _
  | exact Keeps.raise _
  | exact Keeps.read _
  | exact Keeps.liftE _
  | (apply Keeps.bind_liftE; intro _ _)
  | exact KeepsOpt.none
  | apply KeepsOpt.some
  | (simp only [keepsAuth]; done)
  | (apply Keeps.bind_fails
     · (simp only [keepsAuth]; done)
     · first
       | exact popAuthVerify_fails
       | (apply checkInStates_fails; decide)
       | (apply assertState_fails; decide))
  | apply Keeps.bind
  | apply Keeps.tryCatch
  | intro _
  | split
  | (simp only [modCore, modExt, modMe, setState, markBad]; apply Keeps.modify; intro s h;
     simp_all [PreAuth, noTrueVerdict, stINIT_RES_SENT, stINIT_REQ_SENT, stAUTH_REQ_SENT]; done)
  | (apply Keeps.modify; intro s h; simp_all [PreAuth, noTrueVerdict]; done)
  | dsimp only))

section auth

attribute [keepsAuth] popVal_pre

@[keepsAuth] theorem markBad_a : Keeps PreAuth markBad := by unfold markBad; keeps_a
@[keepsAuth] theorem popBytes_a : Keeps PreAuth popBytes := by unfold popBytes; keeps_a
@[keepsAuth] theorem popBytesOrFail_a : Keeps PreAuth popBytesOrFail := by unfold popBytesOrFail; keeps_a
@[keepsAuth] theorem popOk_a : Keeps PreAuth popOk := by unfold popOk; keeps_a
@[keepsAuth] theorem popNum_a : Keeps PreAuth popNum := by unfold popNum; keeps_a
@[keepsAuth] theorem popAuthGen_a : Keeps PreAuth popAuthGen := by unfold popAuthGen; keeps_a
@[keepsAuth] theorem popAuthVerify_a : Keeps PreAuth popAuthVerify := by unfold popAuthVerify; keeps_a
@[keepsAuth] theorem getPayload_a (m pt e) : Keeps PreAuth (getPayload m pt e) := Keeps.liftE _
@[keepsAuth] theorem abortOnErrorNotifies_a (m e i) : Keeps PreAuth (abortOnErrorNotifies m e i) := by
  unfold abortOnErrorNotifies; keeps_a
@[keepsAuth] theorem getMe_a : Keeps PreAuth getMe := by unfold getMe; keeps_a
@[keepsAuth] theorem checkInStates_a (l) : Keeps PreAuth (checkInStates l) := by unfold checkInStates; keeps_a
@[keepsAuth] theorem assertState_a (l) : Keeps PreAuth (assertState l) := by unfold assertState; keeps_a
@[keepsAuth] theorem getSlot_a (sl) : Keeps PreAuth (getSlot sl) := by
  cases sl
  · simp only [getSlot]; keeps_a
  · constructor; intro s h; simp only [getSlot]; split <;> exact h
  · constructor; intro s h; simp only [getSlot]; split <;> exact h

/-- a modification of an object that leaves its state, its CHILD_SA records and their projection alone -/
def AuthSafe (f : XSa → XSa) : Prop := ∀ x, (f x).core.st = x.core.st ∧ (f x).ext.kids = x.ext.kids ∧ (f x).core.children = x.core.children

theorem modSlot_a (sl) (f : XSa → XSa) (hf : AuthSafe f) : Keeps PreAuth (modSlot sl f) := by
  unfold modSlot; apply Keeps.modify; intro s h
  cases sl
  · have := hf s.me; simp_all [PreAuth]
  · simp_all [PreAuth]
  · exact h

macro "keeps_a2" : tactic => `(tactic| repeat' (first
  | exact Keeps.pure _
  | exact Keeps.raise _
  | exact Keeps.read _
  | exact Keeps.liftE _
  | (apply Keeps.bind_liftE; intro _ _)
  | exact KeepsOpt.none
  | apply KeepsOpt.some
  | (simp only [keepsAuth]; done)
  | (apply modSlot_a; intro x; simp; done)
  | (apply Keeps.bind_fails
     · (simp only [keepsAuth]; done)
     · first
       | exact popAuthVerify_fails
       | (apply checkInStates_fails; decide)
       | (apply assertState_fails; decide))
  | apply Keeps.bind
  | apply Keeps.tryCatch
  | intro _
  | split
  | (simp only [modCore, modExt, modMe, setState, markBad]; apply Keeps.modify; intro s h;
     simp_all [PreAuth, noTrueVerdict, stINIT_RES_SENT, stINIT_REQ_SENT, stAUTH_REQ_SENT]; done)
  | (apply Keeps.modify; intro s h; simp_all [PreAuth, noTrueVerdict]; done)
  | dsimp only))

@[keepsAuth] theorem cookieGate_a (x m) : Keeps PreAuth (cookieGate x m) := by
  unfold cookieGate; keeps_a2
@[keepsAuth] theorem negotiateIkeRequest_a (sl m e) : Keeps PreAuth (negotiateIkeRequest sl m e) := by
  unfold negotiateIkeRequest; keeps_a2
@[keepsAuth] theorem processIkeSaInitRequest_a (m) : Keeps PreAuth (processIkeSaInitRequest m) := by
  unfold processIkeSaInitRequest; keeps_a2
@[keepsAuth] theorem generateIkeNegotiation_a (sl) : Keeps PreAuth (generateIkeNegotiation sl) := by
  unfold generateIkeNegotiation; keeps_a2
@[keepsAuth] theorem generateChildNegotiation_a (k) : Keeps PreAuth (generateChildNegotiation k) := by
  unfold generateChildNegotiation; keeps_a2
@[keepsAuth] theorem generateIkeSaInitRequest_a (k) : Keeps PreAuth (generateIkeSaInitRequest k) := by
  unfold generateIkeSaInitRequest; keeps_a2
@[keepsAuth] theorem handleInvalidKe_a (d) : Keeps PreAuth (handleInvalidKe d) := by
  unfold handleInvalidKe; keeps_a2
@[keepsAuth] theorem negotiateIkeResponse_a (sl m e r) : Keeps PreAuth (negotiateIkeResponse sl m e r) := by
  unfold negotiateIkeResponse; keeps_a2
@[keepsAuth] theorem generateIkeAuthRequest_a : Keeps PreAuth generateIkeAuthRequest := by
  unfold generateIkeAuthRequest; keeps_a2
@[keepsAuth] theorem processIkeSaInitResponse_a (m) : Keeps PreAuth (processIkeSaInitResponse m) := by
  unfold processIkeSaInitResponse; keeps_a2
@[keepsAuth] theorem processIkeAuthRequest_a (m) : Keeps PreAuth (processIkeAuthRequest m) := by
  unfold processIkeAuthRequest; keeps_a2
@[keepsAuth] theorem processIkeAuthResponse_a (m) : Keeps PreAuth (processIkeAuthResponse m) := by
  unfold processIkeAuthResponse; keeps_a2
@[keepsAuth] theorem processInformationalRequest_a (m) : Keeps PreAuth (processInformationalRequest m) := by
  unfold processInformationalRequest; keeps_a2
@[keepsAuth] theorem processCreateChildSaRequest_a (now m) : Keeps PreAuth (processCreateChildSaRequest now m) := by
  unfold processCreateChildSaRequest; keeps_a2
@[keepsAuth] theorem processCreateChildSaResponse_a (now m) : Keeps PreAuth (processCreateChildSaResponse now m) := by
  unfold processCreateChildSaResponse; keeps_a2
@[keepsAuth] theorem processInformationalResponse_a (m) : Keeps PreAuth (processInformationalResponse m) := by
  unfold processInformationalResponse; keeps_a2

theorem requestHandler_a (now m h) (hh : requestHandler now m = some h) : Keeps PreAuth h := by
  unfold requestHandler at hh
  repeat' split at hh
  all_goals first | (cases hh; simp only [keepsAuth]) | (simp at hh)

theorem responseHandler_a (now m h) (hh : responseHandler now m = some h) : Keeps PreAuth h := by
  unfold responseHandler at hh
  repeat' split at hh
  all_goals first | (cases hh; simp only [keepsAuth]) | (simp at hh)

end auth

/-! ### in the shell's vocabulary -/

theorem runH_nl (h : HM HRes) (me : XSa) (succ : Option XSa) (tape : Tape) (sad : List (Bytes × Nat × Bytes)) :
    (runH h me succ tape sad).nl = (h { me := me, succ := succ, tape := tape, sad := sad }).2.nl := by
  unfold runH
  split <;> simp_all
  all_goals (rename_i heq; rw [heq])

theorem runH_tape (h : HM HRes) (me : XSa) (succ : Option XSa) (tape : Tape) (sad : List (Bytes × Nat × Bytes)) :
    (runH h me succ tape sad).tape = (h { me := me, succ := succ, tape := tape, sad := sad }).2.tape := by
  unfold runH
  split <;> simp_all
  all_goals (rename_i heq; rw [heq])

theorem runH_succ (h : HM HRes) (me : XSa) (succ : Option XSa) (tape : Tape) (sad : List (Bytes × Nat × Bytes)) :
    (runH h me succ tape sad).succ = (h { me := me, succ := succ, tape := tape, sad := sad }).2.succ := by
  unfold runH
  split <;> simp_all
  all_goals (rename_i heq; rw [heq])

/-- an IKE_SA object of the whole model before authentication: pre-established state, no CHILD_SA (neither in the shell's
    view nor in the record the handlers keep), no successor, and no positive AUTH verdict anywhere on the oracle tape -/
def PreAuthSa (w : XWorld) (s : Sa) : Prop :=
  s.core.st < 10 ∧ s.core.children = [] ∧ s.succ = none ∧ noTrueVerdict w.tape ∧
  ∀ e, w.extOf s.core.mySpi = some e → e.kids = []

theorem find_map_replace (l : List (Bytes × Ext)) (spi : Bytes) (e : Ext) (h : ∃ x ∈ l, x.1 = spi) :
    (l.map fun x => if x.1 = spi then (spi, e) else x).find? (fun x => decide (x.1 = spi)) = some (spi, e) := by
  induction l with
  | nil => obtain ⟨x, hx, _⟩ := h; cases hx
  | cons y rest ih =>
    simp only [List.map_cons, List.find?_cons]
    by_cases hy : y.1 = spi
    · simp [hy]
    · simp only [hy, if_false, decide_false]
      obtain ⟨x, hx, hxs⟩ := h
      rcases List.mem_cons.mp hx with rfl | hx'
      · exact absurd hxs hy
      · exact ih ⟨x, hx', hxs⟩

theorem XWorld.extOf_put_same (w : XWorld) (spi : Bytes) (e : Ext) : (w.put spi e).extOf spi = some e := by
  unfold XWorld.put XWorld.extOf
  split
  · rename_i hany
    simp only [List.any_eq_true, decide_eq_true_eq] at hany
    simp only [find_map_replace w.exts spi e hany, Option.map_some]
  · rename_i hany
    simp only [List.any_eq_true, decide_eq_true_eq, not_exists, not_and] at hany
    rw [List.find?_append]
    have : List.find? (fun e => decide (e.1 = spi)) w.exts = none := by
      rw [List.find?_eq_none]
      intro x hx
      simpa using hany x hx
    simp [this]

theorem XWorld.put_tape (w : XWorld) (spi : Bytes) (e : Ext) : (w.put spi e).tape = w.tape := by
  unfold XWorld.put; split <;> rfl

/-- running anything that keeps `PreAuth` on an object that is before authentication gives back such an object, and the
    call has asked nothing of the kernel -/
theorem runOn_preauth (w : XWorld) (s : Sa) (h : HM HRes) (hk : Keeps PreAuth h) (hp : PreAuthSa w s) :
    PreAuthSa (runOn w s h).1 (runOn w s h).2.sa ∧ (runOn w s h).2.nl = [] ∧
    True := by
  obtain ⟨h1, h2, h3, h4, h5⟩ := hp
  have hinit : PreAuth { me := (w.obj s.core).1, succ := none, tape := { w.tape with bad := w.tape.bad || (w.obj s.core).2 || false }, sad := w.sad } := by
    refine ⟨?_, ?_, ?_, ?_, rfl, rfl⟩
    · unfold XWorld.obj; split <;> simpa using h1
    · exact h4
    · unfold XWorld.obj
      split
      · rename_i e he; simpa using h5 e he
      · rfl
    · unfold XWorld.obj; split <;> simpa using h2
  have hfin := hk.keep _ hinit
  obtain ⟨f1, f2, f3, f4, f5, f6⟩ := hfin
  unfold runOn
  simp only [h3, runH_me, runH_nl, runH_tape, runH_succ, f6]
  refine ⟨⟨f1, f4, by simp, by rw [XWorld.put_tape]; exact f2, ?_⟩, f5, by trivial⟩
  intro e he
  rw [XWorld.extOf_put_same] at he
  cases he
  exact f3

theorem concrete_req_preauth (w : XWorld) (s : Sa) (now : Nat) (m : Msg) (w' : XWorld) (o : HOut) (hp : PreAuthSa w s)
    (h : concreteHandlers.req w s now m = (w', some o)) : PreAuthSa w' o.sa ∧ o.nl = [] := by
  simp only [concreteHandlers] at h
  split at h
  · rename_i hd hh
    have := runOn_preauth w s hd (requestHandler_a now m hd hh) hp
    cases h
    exact ⟨this.1, this.2.1⟩
  · cases h

theorem concrete_resp_preauth (w : XWorld) (s : Sa) (now : Nat) (m : Msg) (w' : XWorld) (o : HOut) (hp : PreAuthSa w s)
    (h : concreteHandlers.resp w s now m = (w', some o)) : PreAuthSa w' o.sa ∧ o.nl = [] := by
  simp only [concreteHandlers] at h
  split at h
  · rename_i hd hh
    have := runOn_preauth w s hd (responseHandler_a now m hd hh) hp
    cases h
    exact ⟨this.1, this.2.1⟩
  · cases h

theorem concrete_req_none (w : XWorld) (s : Sa) (now : Nat) (m : Msg) (w' : XWorld)
    (h : concreteHandlers.req w s now m = (w', none)) : w' = w := by
  simp only [concreteHandlers] at h
  split at h
  · cases h
  · cases h; rfl

theorem concrete_resp_none (w : XWorld) (s : Sa) (now : Nat) (m : Msg) (w' : XWorld)
    (h : concreteHandlers.resp w s now m = (w', none)) : w' = w := by
  simp only [concreteHandlers] at h
  split at h
  · cases h
  · cases h; rfl

/-- the shell's own writes (counters, cache, timers) do not matter to `PreAuthSa` -/
theorem PreAuthSa.of_core_eq {w : XWorld} {s t : Sa} (hp : PreAuthSa w s) (h1 : t.core.st = s.core.st)
    (h2 : t.core.children = s.core.children) (h3 : t.succ = s.succ) (h4 : t.core.mySpi = s.core.mySpi) : PreAuthSa w t := by
  obtain ⟨a, b, c, d, e⟩ := hp
  exact ⟨by rw [h1]; exact a, by rw [h2]; exact b, by rw [h3]; exact c, d, by rw [h4]; exact e⟩

/-- before authentication or ended -/
def PreAuthOrEnded (w : XWorld) (s : Sa) : Prop := PreAuthSa w s ∨ (s.core.st = stDELETED ∧ s.core.children = [])

/-- **whole model, one datagram**: an IKE_SA that is before authentication stays there or ends, tracks no CHILD_SA and
    asks nothing of the kernel, whatever the datagram and whatever the oracles answer short of a positive AUTH verdict -/
theorem processMessage_preauth (w : XWorld) (s : Sa) (now : Nat) (p : Option Msg) (hp : PreAuthSa w s) :
    PreAuthOrEnded (processMessage concreteHandlers w s now p).1 (processMessage concreteHandlers w s now p).2.sa ∧
    (processMessage concreteHandlers w s now p).2.nl = [] ∧
    noTrueVerdict (processMessage concreteHandlers w s now p).1.tape := by
  have hv := hp.2.2.2.1
  unfold processMessage
  split
  · exact ⟨Or.inl hp, rfl, hv⟩
  · rename_i m
    split
    · exact ⟨Or.inl hp, rfl, hv⟩
    · exact ⟨Or.inl hp, rfl, hv⟩
    · have hp' : PreAuthSa w (touchDpd s now) := hp.of_core_eq rfl rfl rfl rfl
      split
      · -- response
        unfold processResponse
        split
        · exact ⟨Or.inl hp', rfl, hv⟩
        · have hp'' : PreAuthSa w (bumpMyId (touchDpd s now)) := hp'.of_core_eq rfl rfl rfl rfl
          cases hq : concreteHandlers.resp w (bumpMyId (touchDpd s now)) now m with
          | mk w' oo =>
            cases oo with
            | none =>
              have := concrete_resp_none w _ now m w' hq
              subst this
              exact ⟨Or.inl hp'', rfl, hv⟩
            | some o =>
              simp only []
              have ho := concrete_resp_preauth w _ now m w' o hp'' hq
              have hst : o.sa.core.st ≠ stESTABLISHED := by
                have := ho.1.1; simp only [stESTABLISHED]; omega
              cases hr : o.res <;> simp only [hr]
              · exact ⟨Or.inl (ho.1.of_core_eq rfl rfl rfl rfl), ho.2, ho.1.2.2.2.1⟩
              · exact ⟨Or.inl (ho.1.of_core_eq rfl rfl rfl rfl), ho.2, ho.1.2.2.2.1⟩
              · simp only [hst, if_false]
                exact ⟨Or.inl ho.1, ho.2, ho.1.2.2.2.1⟩
              · exact ⟨Or.inr ⟨rfl, ho.1.2.1⟩, ho.2, ho.1.2.2.2.1⟩
              · exact ⟨Or.inr ⟨rfl, ho.1.2.1⟩, ho.2, ho.1.2.2.2.1⟩
      · -- request
        unfold processRequest
        split
        · exact ⟨Or.inl hp', rfl, hv⟩
        · split
          · exact ⟨Or.inl hp', rfl, hv⟩
          · cases hq : concreteHandlers.req w (touchDpd s now) now m with
            | mk w' oo =>
              cases oo with
              | none =>
                have := concrete_req_none w _ now m w' hq
                subst this
                exact ⟨Or.inl hp', rfl, hv⟩
              | some o =>
                simp only []
                have ho := concrete_req_preauth w _ now m w' o hp' hq
                cases hr : o.res <;> simp only [hr]
                · exact ⟨Or.inl (ho.1.of_core_eq rfl rfl rfl rfl), ho.2, ho.1.2.2.2.1⟩
                · exact ⟨Or.inl (ho.1.of_core_eq rfl rfl rfl rfl), ho.2, ho.1.2.2.2.1⟩
                · exact ⟨Or.inl (ho.1.of_core_eq rfl rfl rfl rfl), ho.2, ho.1.2.2.2.1⟩
                · exact ⟨Or.inr ⟨rfl, ho.1.2.1⟩, ho.2, ho.1.2.2.2.1⟩
                · exact ⟨Or.inr ⟨rfl, ho.1.2.1⟩, ho.2, ho.1.2.2.2.1⟩

end PyIkev2.Impl
