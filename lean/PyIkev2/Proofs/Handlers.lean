/-
  Reasoning principles for the handler monad (Model/Handlers.lean) and the frame / invariant lemmas about every
  handler and generator that the property theorems use.

  `Keeps I m`: the computation `m` leaves every state that satisfies `I` in a state that satisfies `I`, whether it
  returns or raises (the state survives an exception in Python and in the model).
-/
import PyIkev2.Model.Whole
import PyIkev2.Proofs.KeepsAttr

namespace PyIkev2.Impl
open PyIkev2

variable {α β : Type}

structure Keeps (I : HSt → Prop) (m : HM α) : Prop where
  keep : ∀ s, I s → I (m s).2

theorem HM.bind_def (m : HM α) (f : α → HM β) (s : HSt) :
    (m >>= f) s = match m s with
      | (.ok a, s') => f a s'
      | (.error e, s') => (.error e, s') := rfl

theorem HM.pure_def (a : α) (s : HSt) : (pure a : HM α) s = (.ok a, s) := rfl

theorem Keeps.pure {I : HSt → Prop} (a : α) : Keeps I (pure a : HM α) := ⟨fun _ h => h⟩

theorem Keeps.bind {I : HSt → Prop} {m : HM α} {f : α → HM β} (hm : Keeps I m) (hf : ∀ a, Keeps I (f a)) :
    Keeps I (m >>= f) := by
  constructor
  intro s h
  rw [HM.bind_def]
  have h1 := hm.keep s h
  cases hr : m s with
  | mk r s' =>
    rw [hr] at h1
    cases r with
    | ok a => exact (hf a).keep s' h1
    | error e => exact h1

theorem Keeps.raise {I : HSt → Prop} (e : Exc) : Keeps I (HM.raise e : HM α) := ⟨fun _ h => h⟩

theorem Keeps.modify {I : HSt → Prop} {f : HSt → HSt} (hf : ∀ s, I s → I (f s)) : Keeps I (HM.modify f) := ⟨fun s h => hf s h⟩

/-- the continuation of a state read may assume whatever the invariant says about the object read -/
theorem Keeps.bind_getMe {I : HSt → Prop} {f : XSa → HM β} (P : XSa → Prop) (hP : ∀ s, I s → P s.me)
    (hf : ∀ x, P x → Keeps I (f x)) : Keeps I (getMe >>= f) := by
  constructor
  intro s h
  rw [HM.bind_def]
  exact (hf s.me (hP s h)).keep s h

/-- what an `except` clause may select -/
structure KeepsOpt (I : HSt → Prop) (o : Option (HM α)) : Prop where
  keep : ∀ k, o = some k → Keeps I k

theorem KeepsOpt.none {I : HSt → Prop} : KeepsOpt I (Option.none : Option (HM α)) := ⟨by intro k h; cases h⟩
theorem KeepsOpt.some {I : HSt → Prop} {k : HM α} (h : Keeps I k) : KeepsOpt I (Option.some k) :=
  ⟨by intro k' h'; cases h'; exact h⟩

theorem Keeps.tryCatch {I : HSt → Prop} {m : HM α} {h : Exc → Option (HM α)} (hm : Keeps I m)
    (hh : ∀ e, KeepsOpt I (h e)) : Keeps I (HM.tryCatch m h) := by
  constructor
  intro s hs
  unfold HM.tryCatch
  have h1 := hm.keep s hs
  cases hr : m s with
  | mk r s' =>
    rw [hr] at h1
    cases r with
    | ok a => exact h1
    | error e =>
      simp only
      cases hk : h e with
      | none => exact h1
      | some k => exact ((hh e).keep k hk).keep s' h1

/-- reading the state does not change it -/
theorem Keeps.read {I : HSt → Prop} (g : HSt → Except Exc α) : Keeps I (fun s => (g s, s) : HM α) := ⟨fun _ h => h⟩

/-- a lifted pure look-up: the state is untouched, and the continuation may assume what the look-up returned -/
theorem Keeps.liftE {I : HSt → Prop} (x : Except Exc α) : Keeps I (Impl.liftE x) := ⟨fun _ h => h⟩

theorem Keeps.bind_liftE {I : HSt → Prop} {x : Except Exc α} {f : α → HM β} (hf : ∀ a, x = .ok a → Keeps I (f a)) :
    Keeps I (Impl.liftE x >>= f) := by
  constructor
  intro s h
  rw [HM.bind_def]
  cases x with
  | ok a => exact (hf a rfl).keep s h
  | error e => exact h

/-! ## the fields no handler or generator ever assigns

  `peer_msg_id`, `last_sent_response_data`, the retransmission bookkeeping, `pending_events`, the liveness and hard
  lifetime deadlines belong to the shell; the role, the own SPI, the addresses, `cookie_secret` and the configuration are
  fixed at construction.  This is the frame condition of the window theorems (C08) and of the routing theorems (C16). -/

def CoreConst (a b : SaCore) : Prop :=
  a.peerId = b.peerId ∧ a.isInit = b.isInit ∧ a.mySpi = b.mySpi ∧ a.myAddr = b.myAddr ∧ a.peerAddr = b.peerAddr ∧
  a.lastResp = b.lastResp ∧ a.pending = b.pending ∧ a.indices = b.indices ∧ a.dpd = b.dpd ∧ a.cookie = b.cookie ∧
  a.rtx = b.rtx ∧ a.rtxAt = b.rtxAt ∧ a.dpdAt = b.dpdAt ∧ a.deleteAt = b.deleteAt

theorem CoreConst.refl (a : SaCore) : CoreConst a a := by simp [CoreConst]

def ConstI (c : SaCore) (s : HSt) : Prop := CoreConst s.me.core c

macro "keeps_c" : tactic => `(tactic| repeat' (first
  | exact Keeps.pure _
  | exact Keeps.raise _
  | exact Keeps.read _
  | exact Keeps.liftE _
  | (apply Keeps.bind_liftE; intro _ _)
  | (simp only [keepsConst]; done)
  | apply Keeps.bind
  | intro _
  | split
  | (simp only [modCore, modExt, modMe, setState, emitNl, addKid, dropKid, markBad]; apply Keeps.modify; intro s h;
     simp_all [ConstI, CoreConst, XSa.setKids]; done)
  | (apply Keeps.modify; intro s h; simp_all [ConstI, CoreConst, XSa.setKids]; done)))

section const
variable (c : SaCore)

@[keepsConst] theorem popVal_c : Keeps (ConstI c) popVal := by
  constructor; intro s h; unfold popVal; split <;> exact h
@[keepsConst] theorem markBad_c : Keeps (ConstI c) markBad := by unfold markBad; keeps_c
@[keepsConst] theorem popBytes_c : Keeps (ConstI c) popBytes := by unfold popBytes; keeps_c
@[keepsConst] theorem popBytesOrFail_c : Keeps (ConstI c) popBytesOrFail := by unfold popBytesOrFail; keeps_c
@[keepsConst] theorem popOk_c : Keeps (ConstI c) popOk := by unfold popOk; keeps_c
@[keepsConst] theorem popNum_c : Keeps (ConstI c) popNum := by unfold popNum; keeps_c
@[keepsConst] theorem popAuthGen_c : Keeps (ConstI c) popAuthGen := by unfold popAuthGen; keeps_c
@[keepsConst] theorem popAuthVerify_c : Keeps (ConstI c) popAuthVerify := by unfold popAuthVerify; keeps_c
@[keepsConst] theorem getPayload_c (m pt e) : Keeps (ConstI c) (getPayload m pt e) := Keeps.liftE _
@[keepsConst] theorem abortOnErrorNotifies_c (m e i) : Keeps (ConstI c) (abortOnErrorNotifies m e i) := by
  unfold abortOnErrorNotifies; keeps_c
@[keepsConst] theorem getMe_c : Keeps (ConstI c) getMe := by unfold getMe; keeps_c
@[keepsConst] theorem setState_c (st) : Keeps (ConstI c) (setState st) := by keeps_c
@[keepsConst] theorem emitNl_c (l) : Keeps (ConstI c) (emitNl l) := by keeps_c
@[keepsConst] theorem addKid_c (k) : Keeps (ConstI c) (addKid k) := by keeps_c
@[keepsConst] theorem dropKid_c (k) : Keeps (ConstI c) (dropKid k) := by keeps_c
@[keepsConst] theorem handOver_c (b) : Keeps (ConstI c) (handOver b) := by
  unfold handOver; apply Keeps.modify; intro s h; simp_all [ConstI, CoreConst, XSa.setKids]
@[keepsConst] theorem checkInStates_c (l) : Keeps (ConstI c) (checkInStates l) := by unfold checkInStates; keeps_c
@[keepsConst] theorem assertState_c (l) : Keeps (ConstI c) (assertState l) := by unfold assertState; keeps_c
theorem trackChild_me (k : Child) (s : HSt) :
    (trackChild k s).2.me = s.me ∨ (trackChild k s).2.me = s.me.setKids (s.me.ext.kids ++ [k]) := by
  unfold trackChild
  simp only
  split
  · exact Or.inl rfl
  · split
    · exact Or.inl rfl
    · split
      · exact Or.inl rfl
      · exact Or.inr rfl
@[keepsConst] theorem trackChild_c (k) : Keeps (ConstI c) (trackChild k) := by
  constructor; intro s h
  rcases trackChild_me k s with h1 | h1 <;> (simp only [ConstI, h1]; simpa [ConstI, CoreConst, XSa.setKids] using h)
theorem untrackChild_me (k : Child) (s : HSt) :
    (untrackChild k s).2.me = s.me ∨ (untrackChild k s).2.me = s.me.setKids (removeKid s.me.ext.kids k) := by
  unfold untrackChild
  split
  · exact Or.inr rfl
  · exact Or.inl rfl
@[keepsConst] theorem untrackChild_c (k) : Keeps (ConstI c) (untrackChild k) := by
  constructor; intro s h
  rcases untrackChild_me k s with h1 | h1 <;> (simp only [ConstI, h1]; simpa [ConstI, CoreConst, XSa.setKids] using h)
@[keepsConst] theorem getSlot_c (sl) : Keeps (ConstI c) (getSlot sl) := by
  cases sl
  · simp only [getSlot]; keeps_c
  · constructor; intro s h; simp only [getSlot]; split <;> exact h
  · constructor; intro s h; simp only [getSlot]; split <;> exact h
@[keepsConst] theorem modSlot_c (sl) (f : XSa → XSa) (hf : ∀ x, CoreConst (f x).core x.core) : Keeps (ConstI c) (modSlot sl f) := by
  unfold modSlot; apply Keeps.modify; intro s h
  cases sl
  · have := hf s.me; simp_all [ConstI, CoreConst]
  · exact h
  · exact h
@[keepsConst] theorem newXSa_c (cf now i p a b) : Keeps (ConstI c) (newXSa cf now i p a b) := by unfold newXSa; keeps_c


macro "keeps_c2" : tactic => `(tactic| repeat' (first
  | exact Keeps.pure _
  | exact Keeps.raise _
  | exact Keeps.read _
  | exact Keeps.liftE _
  | (apply Keeps.bind_liftE; intro _ _)
  | exact KeepsOpt.none
  | apply KeepsOpt.some
  | (simp only [keepsConst]; done)
  | (apply modSlot_c; intro x; simp [CoreConst]; done)
  | apply Keeps.bind
  | apply Keeps.tryCatch
  | intro _
  | split
  | (simp only [modCore, modExt, modMe, setState, emitNl, addKid, dropKid, markBad]; apply Keeps.modify; intro s h;
     simp_all [ConstI, CoreConst, XSa.setKids]; done)
  | (apply Keeps.modify; intro s h; simp_all [ConstI, CoreConst, XSa.setKids]; done)
  | dsimp only))

@[keepsConst] theorem cookieGate_c (x m) : Keeps (ConstI c) (cookieGate x m) := by
  unfold cookieGate; keeps_c2
@[keepsConst] theorem negotiateIkeRequest_c (sl m e) : Keeps (ConstI c) (negotiateIkeRequest sl m e) := by
  unfold negotiateIkeRequest; keeps_c2
@[keepsConst] theorem processIkeSaInitRequest_c (m) : Keeps (ConstI c) (processIkeSaInitRequest m) := by
  unfold processIkeSaInitRequest; keeps_c2
@[keepsConst] theorem generateIkeNegotiation_c (sl) : Keeps (ConstI c) (generateIkeNegotiation sl) := by
  unfold generateIkeNegotiation; keeps_c2
@[keepsConst] theorem generateChildNegotiation_c (k) : Keeps (ConstI c) (generateChildNegotiation k) := by
  unfold generateChildNegotiation; keeps_c2
@[keepsConst] theorem generateIkeSaInitRequest_c (k) : Keeps (ConstI c) (generateIkeSaInitRequest k) := by
  unfold generateIkeSaInitRequest; keeps_c2
@[keepsConst] theorem generateCreateChildSaRequest_c (k r) : Keeps (ConstI c) (generateCreateChildSaRequest k r) := by
  unfold generateCreateChildSaRequest; keeps_c2
@[keepsConst] theorem generateDeleteChildSaRequest_c (k) : Keeps (ConstI c) (generateDeleteChildSaRequest k) := by
  unfold generateDeleteChildSaRequest; keeps_c2
@[keepsConst] theorem generateDpdRequest_c : Keeps (ConstI c) generateDpdRequest := by
  unfold generateDpdRequest; keeps_c2
@[keepsConst] theorem generateDeleteIkeSaRequest_c : Keeps (ConstI c) generateDeleteIkeSaRequest := by
  unfold generateDeleteIkeSaRequest; keeps_c2
@[keepsConst] theorem generateRekeyIkeSaRequest_c (now) : Keeps (ConstI c) (generateRekeyIkeSaRequest now) := by
  unfold generateRekeyIkeSaRequest; keeps_c2
@[keepsConst] theorem genAcquireH_c (a b i) : Keeps (ConstI c) (genAcquireH a b i) := by
  unfold genAcquireH; keeps_c2
@[keepsConst] theorem genExpireH_c (k h) : Keeps (ConstI c) (genExpireH k h) := by
  unfold genExpireH; keeps_c2
@[keepsConst] theorem childRekeyPrelude_c (m sa a b) : Keeps (ConstI c) (childRekeyPrelude m sa a b) := by
  unfold childRekeyPrelude; keeps_c2
@[keepsConst] theorem childNonce_c (m) : Keeps (ConstI c) (childNonce m) := by
  unfold childNonce; keeps_c2
@[keepsConst] theorem childKe_c (m p) : Keeps (ConstI c) (childKe m p) := by
  unfold childKe; keeps_c2
@[keepsConst] theorem childCreateResponder_c (p a b m pol) : Keeps (ConstI c) (childCreateResponder p a b m pol) := by
  unfold childCreateResponder; keeps_c2
@[keepsConst] theorem childNegotiationReqBody_c (m) : Keeps (ConstI c) (childNegotiationReqBody m) := by
  unfold childNegotiationReqBody; keeps_c2
@[keepsConst] theorem childNegotiationReq_c (m) : Keeps (ConstI c) (childNegotiationReq m) := by
  unfold childNegotiationReq
  keeps_c2
@[keepsConst] theorem processIkeAuthRequest_c (m) : Keeps (ConstI c) (processIkeAuthRequest m) := by
  unfold processIkeAuthRequest; keeps_c2


@[keepsConst] theorem deleteSpis_c (proto) (l acc) : Keeps (ConstI c) (deleteSpis proto l acc) := by
  induction l generalizing acc with
  | nil => unfold deleteSpis; keeps_c2
  | cons spi rest ih =>
    unfold deleteSpis
    have := ih
    keeps_c2
    all_goals exact ih _
@[keepsConst] theorem deleteLoop_c (l acc) : Keeps (ConstI c) (deleteLoop l acc) := by
  induction l generalizing acc with
  | nil => unfold deleteLoop; keeps_c2
  | cons p rest ih =>
    unfold deleteLoop
    keeps_c2
    all_goals exact ih _
@[keepsConst] theorem processInformationalRequest_c (m) : Keeps (ConstI c) (processInformationalRequest m) := by
  unfold processInformationalRequest; keeps_c2
@[keepsConst] theorem ikeRekeyRequest_c (now m p) : Keeps (ConstI c) (ikeRekeyRequest now m p) := by
  unfold ikeRekeyRequest; keeps_c2
@[keepsConst] theorem processCreateChildSaRequest_c (now m) : Keeps (ConstI c) (processCreateChildSaRequest now m) := by
  unfold processCreateChildSaRequest; keeps_c2
@[keepsConst] theorem handleInvalidKe_c (d) : Keeps (ConstI c) (handleInvalidKe d) := by
  unfold handleInvalidKe; keeps_c2
@[keepsConst] theorem negotiateIkeResponse_c (sl m e r) : Keeps (ConstI c) (negotiateIkeResponse sl m e r) := by
  unfold negotiateIkeResponse; keeps_c2
@[keepsConst] theorem generateIkeAuthRequest_c : Keeps (ConstI c) generateIkeAuthRequest := by
  unfold generateIkeAuthRequest; keeps_c2
@[keepsConst] theorem processIkeSaInitResponse_c (m) : Keeps (ConstI c) (processIkeSaInitResponse m) := by
  unfold processIkeSaInitResponse; keeps_c2
@[keepsConst] theorem childNegotiationResBody_c (m) : Keeps (ConstI c) (childNegotiationResBody m) := by
  unfold childNegotiationResBody; keeps_c2
@[keepsConst] theorem childNegotiationRes_c (m) : Keeps (ConstI c) (childNegotiationRes m) := by
  unfold childNegotiationRes; keeps_c2
@[keepsConst] theorem processIkeAuthResponse_c (m) : Keeps (ConstI c) (processIkeAuthResponse m) := by
  unfold processIkeAuthResponse; keeps_c2
@[keepsConst] theorem ikeRekeyResponse_c (now m x) : Keeps (ConstI c) (ikeRekeyResponse now m x) := by
  unfold ikeRekeyResponse; keeps_c2
@[keepsConst] theorem childSaResponse_c (prev m) : Keeps (ConstI c) (childSaResponse prev m) := by
  unfold childSaResponse; keeps_c2
@[keepsConst] theorem processCreateChildSaResponse_c (now m) : Keeps (ConstI c) (processCreateChildSaResponse now m) := by
  unfold processCreateChildSaResponse; keeps_c2
@[keepsConst] theorem processInformationalResponse_c (m) : Keeps (ConstI c) (processInformationalResponse m) := by
  unfold processInformationalResponse; keeps_c2

/-- every request handler, every response handler -/
theorem requestHandler_c (now m h) (hh : requestHandler now m = some h) : Keeps (ConstI c) h := by
  unfold requestHandler at hh
  repeat' split at hh
  all_goals first | (cases hh; simp only [keepsConst]) | (simp at hh)

theorem responseHandler_c (now m h) (hh : responseHandler now m = some h) : Keeps (ConstI c) h := by
  unfold responseHandler at hh
  repeat' split at hh
  all_goals first | (cases hh; simp only [keepsConst]) | (simp at hh)

end const

/-! ### from `Keeps` to the shell's vocabulary -/

theorem runH_me (h : HM HRes) (me : XSa) (succ : Option XSa) (tape : Tape) (sad : List (Bytes × Nat × Bytes)) :
    (runH h me succ tape sad).me = (h { me := me, succ := succ, tape := tape, sad := sad }).2.me := by
  unfold runH
  split <;> simp_all
  all_goals (rename_i heq; rw [heq])

theorem asRequest_keeps {I : HSt → Prop} {h : HM Msg} (hh : Keeps I h) : Keeps I (asRequest h) := by
  unfold asRequest
  apply Keeps.bind hh
  intro _
  exact Keeps.pure _

/-- whatever a computation that keeps the constant fields is run on, the object the shell gets back has them unchanged -/
theorem runOn_const (w : XWorld) (s : Sa) (h : HM HRes) (hk : Keeps (ConstI s.core) h) :
    CoreConst (runOn w s h).2.sa.core s.core := by
  unfold runOn
  simp only [runH_me]
  apply hk.keep
  simp [ConstI, XWorld.obj]
  split <;> exact CoreConst.refl _

/-- **frame theorem of the concrete handlers**: no request handler, response handler or request generator of the
    model ever assigns the peer's message counter, the response cache, the retransmission bookkeeping, the pending
    events, the liveness and hard-lifetime deadlines, the role, the own SPI, the addresses or the cookie flag -/
theorem concrete_req_const (w : XWorld) (s : Sa) (now : Nat) (m : Msg) (w' : XWorld) (o : HOut)
    (h : concreteHandlers.req w s now m = (w', some o)) : CoreConst o.sa.core s.core := by
  simp only [concreteHandlers] at h
  split at h
  · rename_i hd hh
    have := runOn_const w s hd (requestHandler_c s.core now m hd hh)
    cases h
    exact this
  · cases h

theorem concrete_resp_const (w : XWorld) (s : Sa) (now : Nat) (m : Msg) (w' : XWorld) (o : HOut)
    (h : concreteHandlers.resp w s now m = (w', some o)) : CoreConst o.sa.core s.core := by
  simp only [concreteHandlers] at h
  split at h
  · rename_i hd hh
    have := runOn_const w s hd (responseHandler_c s.core now m hd hh)
    cases h
    exact this
  · cases h

theorem concrete_genAcquire_const (w : XWorld) (s : Sa) (now : Nat) (a b : TS) (i : Nat) :
    CoreConst (concreteHandlers.genAcquire w s now a b i).2.sa.core s.core :=
  runOn_const w s _ (asRequest_keeps (genAcquireH_c s.core a b i))

theorem concrete_genExpire_const (w : XWorld) (s : Sa) (now : Nat) (c : ChildRef) (hard : Bool) :
    CoreConst (concreteHandlers.genExpire w s now c hard).2.sa.core s.core :=
  runOn_const w s _ (asRequest_keeps (genExpireH_c s.core c hard))

theorem concrete_genDpd_const (w : XWorld) (s : Sa) (now : Nat) :
    CoreConst (concreteHandlers.genDpd w s now).2.sa.core s.core :=
  runOn_const w s _ (asRequest_keeps (generateDpdRequest_c s.core))

theorem concrete_genDeleteIke_const (w : XWorld) (s : Sa) (now : Nat) :
    CoreConst (concreteHandlers.genDeleteIke w s now).2.sa.core s.core :=
  runOn_const w s _ (asRequest_keeps (generateDeleteIkeSaRequest_c s.core))

theorem concrete_genRekeyIke_const (w : XWorld) (s : Sa) (now : Nat) :
    CoreConst (concreteHandlers.genRekeyIke w s now).2.sa.core s.core :=
  runOn_const w s _ (asRequest_keeps (generateRekeyIkeSaRequest_c s.core now))

end PyIkev2.Impl
