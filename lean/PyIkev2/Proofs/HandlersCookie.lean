/-
  Cookies in the concrete handler model: the cookie check is the first thing `_process_ike_sa_negotiation_request` does that
  consults an oracle, and when it refuses nothing else has happened.
-/
import PyIkev2.Proofs.HandlersAuth

namespace PyIkev2.Impl
open PyIkev2

/-- under load a request without the valid cookie consumes the cookie oracle and nothing else, changes nothing and is
    answered with the expected cookie -/
theorem cookieGate_refuses (x : XSa) (m : Msg) (s : HSt) (expected : Bytes) (rest : List TVal)
    (hc : x.core.cookie = true) (ht : s.tape.vals = TVal.bytes expected :: rest)
    (hbad : ∀ p sp d tl, getNotifies m nCOOKIE false = (p, sp, d) :: tl → d ≠ expected) :
    cookieGate x m s = (.error (excCookie expected), { s with tape := { s.tape with vals := rest } }) := by
  unfold cookieGate
  simp only [hc, if_true, HM.bind_def, popBytes, popVal, ht]
  cases hn : getNotifies m nCOOKIE false with
  | nil => rfl
  | cons a tl =>
    obtain ⟨p, sp, d⟩ := a
    have := hbad p sp d tl hn
    simp only [HM.pure_def]
    rw [if_pos this]
    rfl

theorem cookieGate_accepts (x : XSa) (m : Msg) (s : HSt) (expected : Bytes) (rest : List TVal) (p : Nat) (sp : Bytes) (tl)
    (hc : x.core.cookie = true) (ht : s.tape.vals = TVal.bytes expected :: rest)
    (hn : getNotifies m nCOOKIE false = (p, sp, expected) :: tl) :
    cookieGate x m s = (.ok (), { s with tape := { s.tape with vals := rest } }) := by
  unfold cookieGate
  simp only [hc, if_true, HM.bind_def, popBytes, popVal, ht, hn, HM.pure_def, if_true]
  rw [if_neg (by simp)]
  rfl

theorem cookieGate_off (x : XSa) (m : Msg) (s : HSt) (hc : x.core.cookie = false) : cookieGate x m s = (.ok (), s) := by
  unfold cookieGate
  simp [hc]
  rfl

theorem bind_cases {α β} {m : HM α} {f : α → HM β} (s : HSt) (G : Except Exc β × HSt → Prop)
    (he : ∀ e s', m s = (.error e, s') → G (.error e, s')) (ho : ∀ a s', m s = (.ok a, s') → G (f a s')) : G ((m >>= f) s) := by
  rw [HM.bind_def]
  cases hr : m s with
  | mk r s' =>
    cases r with
    | ok a => exact ho a s' hr
    | error e => exact he e s' hr

/-- same object, same successor, same netlink requests, same oracle values still to come -/
def SameBut (s0 s : HSt) : Prop := s.me = s0.me ∧ s.succ = s0.succ ∧ s.nl = s0.nl ∧ s.tape.vals = s0.tape.vals

theorem liftE_same (s0 : HSt) {α} (x : Except Exc α) : Keeps (SameBut s0) (liftE x) := Keeps.liftE _

/-- **cookie first**: a responder IKE_SA that was handed the cookie secret answers a request without the valid cookie with the
    expected cookie (or, when SA / NONCE / KE is missing, with the error for that) — having consulted no oracle but the cookie
    HMAC (no DH key pair, no shared secret), assigned nothing to the object, and asked nothing of the kernel -/
theorem negotiateIkeRequest_cookie_first (s : HSt) (m : Msg) (enc : Bool) (expected : Bytes) (rest : List TVal)
    (hc : s.me.core.cookie = true) (ht : s.tape.vals = TVal.bytes expected :: rest)
    (hbad : ∀ p sp d tl, getNotifies m nCOOKIE false = (p, sp, d) :: tl → d ≠ expected) :
    (∃ e, (negotiateIkeRequest .me m enc s).1 = .error e) ∧ (negotiateIkeRequest .me m enc s).2.me = s.me ∧
    (negotiateIkeRequest .me m enc s).2.succ = s.succ ∧ (negotiateIkeRequest .me m enc s).2.nl = s.nl ∧
    ((negotiateIkeRequest .me m enc s).2.tape.vals = s.tape.vals ∨ (negotiateIkeRequest .me m enc s).2.tape.vals = rest) := by
  have hs : SameBut s s := ⟨rfl, rfl, rfl, rfl⟩
  let G : Except Exc (List Payload) × HSt → Prop := fun r =>
    (∃ e, r.1 = .error e) ∧ r.2.me = s.me ∧ r.2.succ = s.succ ∧ r.2.nl = s.nl ∧ (r.2.tape.vals = s.tape.vals ∨ r.2.tape.vals = rest)
  have gerr : ∀ e s', SameBut s s' → G (.error e, s') := fun e s' h => ⟨⟨e, rfl⟩, h.1, h.2.1, h.2.2.1, Or.inl h.2.2.2⟩
  show G (negotiateIkeRequest .me m enc s)
  unfold negotiateIkeRequest
  -- three pure look-ups
  refine bind_cases s G (fun e s' h => gerr e s' (by have := (liftE_same s (paySA m enc)).keep s hs; rwa [h] at this)) ?_
  intro a1 s1 h1
  have hs1 : SameBut s s1 := by have := (liftE_same s (paySA m enc)).keep s hs; rwa [h1] at this
  refine bind_cases s1 G (fun e s' h => gerr e s' (by have := (liftE_same s (payNonce m enc)).keep s1 hs1; rwa [h] at this)) ?_
  intro a2 s2 h2
  have hs2 : SameBut s s2 := by have := (liftE_same s (payNonce m enc)).keep s1 hs1; rwa [h2] at this
  refine bind_cases s2 G (fun e s' h => gerr e s' (by have := (liftE_same s (payKE m enc)).keep s2 hs2; rwa [h] at this)) ?_
  intro a5 s6 h6
  have hs6 : SameBut s s6 := by have := (liftE_same s (payKE m enc)).keep s2 hs2; rwa [h6] at this
  -- the object the routine works on is `self`
  refine bind_cases s6 G (fun e s' h => by simp [getSlot, getMe] at h) ?_
  intro x s7 h7
  have hx : x = s6.me ∧ s7 = s6 := by simp [getSlot, getMe] at h7; exact ⟨h7.1.symm, h7.2.symm⟩
  obtain ⟨rfl, rfl⟩ := hx
  -- the cookie check refuses
  have hck := cookieGate_refuses s7.me m s7 expected rest (by rw [hs6.1]; exact hc) (by rw [hs6.2.2.2]; exact ht) hbad
  refine bind_cases s7 G (fun e s' h => ?_) (fun a s' h => by rw [hck] at h; cases h)
  rw [hck] at h
  cases h
  exact ⟨⟨_, rfl⟩, hs6.1, hs6.2.1, hs6.2.2.1, Or.inr rfl⟩

/-- the complete answer of `process_ike_sa_init_request` under load: COOKIE with the expected value, nothing else -/
theorem processIkeSaInitRequest_cookie (me : XSa) (succ : Option XSa) (m : Msg) (expected : Bytes) (rest : List TVal) (bad : Bool)
    (ps : List Proposal) (nonce : Bytes) (g : Nat) (ke : Bytes) (sad : List (Bytes × Nat × Bytes))
    (hst : me.core.st = stINITIAL) (hc : me.core.cookie = true)
    (h1 : paySA m false = .ok ps) (h2 : payNonce m false = .ok nonce) (h3 : payKE m false = .ok (g, ke))
    (hbad : ∀ p sp d tl, getNotifies m nCOOKIE false = (p, sp, d) :: tl → d ≠ expected) :
    let o := runH (processIkeSaInitRequest m) me succ { vals := TVal.bytes expected :: rest, bad := bad } sad
    o.res = .ikeError (mkNotify 0 nCOOKIE [] expected) ∧ o.me = me ∧ o.succ = succ ∧ o.nl = [] ∧ o.tape.vals = rest := by
  intro o
  have hck : ∀ s : HSt, s.me = me → s.tape.vals = TVal.bytes expected :: rest →
      cookieGate me m s = (.error (excCookie expected), { s with tape := { s.tape with vals := rest } }) :=
    fun s _ ht => cookieGate_refuses me m s expected rest hc ht hbad
  have : processIkeSaInitRequest m { me := me, succ := succ, tape := { vals := TVal.bytes expected :: rest, bad := bad }, sad := sad } =
      (.error (excCookie expected), { me := me, succ := succ, tape := { vals := rest, bad := bad }, sad := sad }) := by
    unfold processIkeSaInitRequest negotiateIkeRequest
    simp only [HM.bind_def, checkInStates, getMe, hst, liftE, h1, h2, h3, HM.pure_def, getSlot]
    simp only [stINITIAL, List.contains_cons, List.contains_nil, beq_self_eq_true, Bool.or_false, if_true, HM.pure_def]
    rw [hck _ rfl rfl]
  refine ⟨?_, ?_, ?_, ?_, ?_⟩
  · show (runH (processIkeSaInitRequest m) me succ { vals := TVal.bytes expected :: rest, bad := bad } sad).res = _
    unfold runH; rw [this]; simp [excCookie]
  · show (runH (processIkeSaInitRequest m) me succ { vals := TVal.bytes expected :: rest, bad := bad } sad).me = _
    rw [runH_me, this]
  · show (runH (processIkeSaInitRequest m) me succ { vals := TVal.bytes expected :: rest, bad := bad } sad).succ = _
    rw [runH_succ, this]
  · show (runH (processIkeSaInitRequest m) me succ { vals := TVal.bytes expected :: rest, bad := bad } sad).nl = _
    rw [runH_nl, this]
  · show (runH (processIkeSaInitRequest m) me succ { vals := TVal.bytes expected :: rest, bad := bad } sad).tape.vals = _
    rw [runH_tape, this]

end PyIkev2.Impl
