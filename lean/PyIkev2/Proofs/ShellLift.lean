/-
  Lifting a per-call contract of the delegated handlers through the shell (Model/Machine.lean), for ANY handler instance.

  `T t c K` : table `c`, handler world `t` and kernel SAD `K` are consistent (whatever that means for the instance);
  `A t K`   : what the handlers believe about the kernel is accurate (needed by the calls that install something);
  `C s`     : a per-object side condition the calls preserve;
  `MsgOK m` : a side condition on incoming requests.

  A `Contract` says every delegated call on the table entry it is run on re-establishes `T` for the table with the entry
  replaced and the kernel advanced by the netlink requests the call issued.  The theorems of this file say every entry
  point of the shell — up to one whole loop iteration — then does the same for the requests *it* reports.
-/
import PyIkev2.Proofs.HandlersKernel

namespace PyIkev2.Impl
open PyIkev2

variable {τ : Type}

def applyNls (K : List Key) (ops : List NlOp) : List Key := ops.foldl applyNl K

@[simp] theorem applyNls_nil (K : List Key) : applyNls K [] = K := rfl
theorem applyNls_append (K : List Key) (a b : List NlOp) : applyNls K (a ++ b) = applyNls (applyNls K a) b := by
  simp [applyNls, List.foldl_append]

/-- `b` is `a` with only fields changed that the shell owns and that no notion of consistency looks at -/
def ShellEq (a b : Sa) : Prop :=
  b.succ = a.succ ∧ b.core.children = a.core.children ∧ b.core.mySpi = a.core.mySpi ∧
  b.core.myAddr = a.core.myAddr ∧ b.core.peerAddr = a.core.peerAddr

theorem ShellEq.refl (a : Sa) : ShellEq a a := ⟨rfl, rfl, rfl, rfl, rfl⟩

structure Contract (H : Handlers τ) (T : τ → List Sa → List Key → Prop) (A : τ → List Key → Prop) (C : Sa → Prop)
    (MsgOK : Msg → Prop) : Prop where
  shellT : ∀ (t : τ) (c : List Sa) (K : List Key) (i : Nat) (a b : Sa), T t (c.set i a) K → ShellEq a b → T t (c.set i b) K
  shellC : ∀ (a b : Sa), C a → ShellEq a b → (b.core.st = a.core.st ∨ b.core.st = stDELETED) → C b
  calmSucc : ∀ (s : Sa), C s → s.succ = none
  req : ∀ (t : τ) (c : List Sa) (K : List Key) (i : Nat) (s : Sa) (now : Nat) (m : Msg) (t' : τ) (o : HOut), i < c.length → T t (c.set i s) K → A t K → C s → MsgOK m → H.req t s now m = (t', some o) →
    T t' (c.set i o.sa) (applyNls K o.nl) ∧ C o.sa
  reqNone : ∀ (t : τ) (s : Sa) (now : Nat) (m : Msg) (t' : τ), H.req t s now m = (t', none) → t' = t
  req34 : ∀ (t : τ) (s : Sa) (now : Nat) (m : Msg) (t' : τ) (o : HOut), H.req t s now m = (t', some o) → m.hdr.exch = 34 → o.sa.core.children = s.core.children
  resp : ∀ (t : τ) (c : List Sa) (K : List Key) (i : Nat) (s : Sa) (now : Nat) (m : Msg) (t' : τ) (o : HOut), i < c.length → T t (c.set i s) K → A t K → C s → H.resp t s now m = (t', some o) →
    T t' (c.set i o.sa) (applyNls K o.nl) ∧ C o.sa
  respNone : ∀ (t : τ) (s : Sa) (now : Nat) (m : Msg) (t' : τ), H.resp t s now m = (t', none) → t' = t
  genAcquire : ∀ (t : τ) (c : List Sa) (K : List Key) (i : Nat) (s : Sa) (now : Nat) (a b : TS) (idx : Nat) (t' : τ) (o : HOut), i < c.length → T t (c.set i s) K → C s → H.genAcquire t s now a b idx = (t', o) →
    T t' (c.set i o.sa) (applyNls K o.nl) ∧ C o.sa
  genExpire : ∀ (t : τ) (c : List Sa) (K : List Key) (i : Nat) (s : Sa) (now : Nat) (ch : ChildRef) (hard : Bool) (t' : τ) (o : HOut), i < c.length → T t (c.set i s) K → C s → H.genExpire t s now ch hard = (t', o) →
    T t' (c.set i o.sa) (applyNls K o.nl) ∧ C o.sa
  genDpd : ∀ (t : τ) (c : List Sa) (K : List Key) (i : Nat) (s : Sa) (now : Nat) (t' : τ) (o : HOut), i < c.length → T t (c.set i s) K → C s → H.genDpd t s now = (t', o) →
    T t' (c.set i o.sa) (applyNls K o.nl) ∧ C o.sa
  genDeleteIke : ∀ (t : τ) (c : List Sa) (K : List Key) (i : Nat) (s : Sa) (now : Nat) (t' : τ) (o : HOut), i < c.length → T t (c.set i s) K → C s → H.genDeleteIke t s now = (t', o) →
    T t' (c.set i o.sa) (applyNls K o.nl) ∧ C o.sa
  /-- the only call after which the per-object condition need not hold -/
  genRekeyIke : ∀ (t : τ) (c : List Sa) (K : List Key) (i : Nat) (s : Sa) (now : Nat) (t' : τ) (o : HOut), i < c.length → T t (c.set i s) K → C s → H.genRekeyIke t s now = (t', o) →
    T t' (c.set i o.sa) (applyNls K o.nl)
  newSa : ∀ (t : τ) (c : List Sa) (K : List Key) (now : Nat) (isInit : Bool) (peerSpi a p : Bytes) (t' : τ) (n : SaCore), T t c K → H.newSa t now isInit peerSpi a p = (t', some n) →
    T t' (c ++ [{ core := n, succ := none }]) K ∧ C { core := n, succ := none } ∧ n.children = [] ∧ (A t K → A t' K)
  newSaNone : ∀ (t : τ) (c : List Sa) (K : List Key) (now : Nat) (isInit : Bool) (peerSpi a p : Bytes) (t' : τ), T t c K → H.newSa t now isInit peerSpi a p = (t', none) → T t' c K
  remove : ∀ (t : τ) (c : List Sa) (K : List Key) (i : Nat) (s : Sa), i < c.length → T t (c.set i s) K → T t (c.eraseIdx i) (applyNls K (deleteChildSas s.core).2)
  forget : ∀ (t : τ) (c : List Sa) (K : List Key) (x : Sa), T t (c ++ [x]) K → x.core.children = [] → T t c K

section lift
variable {H : Handlers τ} {T : τ → List Sa → List Key → Prop} {A : τ → List Key → Prop} {C : Sa → Prop} {MsgOK : Msg → Prop}

/-- a generator call followed by `_send_request` (or by the exception leaving the entry point) -/
theorem genStep (hc : Contract H T A C MsgOK) (c : List Sa) (K : List Key) (i : Nat) (now : Nat) (t' : τ) (o : HOut)
    (hT : T t' (c.set i o.sa) (applyNls K o.nl)) (hC : C o.sa) (r : τ × StepOut)
    (hr : r = (match o.res with
      | .request r => (t', { sa := sendRequest o.sa now r, out := some r, nl := o.nl, ran := 1 })
      | _ => (t', { sa := o.sa, nl := o.nl, escaped := true, ran := 1 }))) :
    T r.1 (c.set i r.2.sa) (applyNls K r.2.nl) ∧ C r.2.sa := by
  subst hr
  cases o.res with
  | request m =>
    exact ⟨hc.shellT _ _ _ _ _ _ hT ⟨rfl, rfl, rfl, rfl, rfl⟩, hc.shellC _ _ hC ⟨rfl, rfl, rfl, rfl, rfl⟩ (Or.inl rfl)⟩
  | reply m => exact ⟨hT, hC⟩
  | nothing => exact ⟨hT, hC⟩
  | ikeError m => exact ⟨hT, hC⟩
  | otherError m => exact ⟨hT, hC⟩

theorem processAcquire_T (hc : Contract H T A C MsgOK) (t : τ) (c : List Sa) (K : List Key) (i : Nat) (s : Sa) (now : Nat)
    (a b : TS) (idx : Nat) (hi : i < c.length) (hT : T t (c.set i s) K) (hC : C s) :
    T (processAcquire H t s now a b idx).1 (c.set i (processAcquire H t s now a b idx).2.sa)
      (applyNls K (processAcquire H t s now a b idx).2.nl) ∧ C (processAcquire H t s now a b idx).2.sa := by
  unfold processAcquire
  split
  · exact ⟨hc.shellT _ _ _ _ _ _ hT ⟨rfl, rfl, rfl, rfl, rfl⟩, hc.shellC _ _ hC ⟨rfl, rfl, rfl, rfl, rfl⟩ (Or.inl rfl)⟩
  · split
    · exact ⟨hT, hC⟩
    · cases hq : H.genAcquire t s now a b idx with
      | mk t' o =>
        have h := hc.genAcquire t c K i s now a b idx t' o hi hT hC hq
        exact genStep hc c K i now t' o h.1 h.2 _ rfl

theorem processExpire_T (hc : Contract H T A C MsgOK) (t : τ) (c : List Sa) (K : List Key) (i : Nat) (s : Sa) (now : Nat)
    (spi : Bytes) (hard : Bool) (hi : i < c.length) (hT : T t (c.set i s) K) (hC : C s) :
    T (processExpire H t s now spi hard).1 (c.set i (processExpire H t s now spi hard).2.sa)
      (applyNls K (processExpire H t s now spi hard).2.nl) ∧ C (processExpire H t s now spi hard).2.sa := by
  unfold processExpire
  split
  · exact ⟨hc.shellT _ _ _ _ _ _ hT ⟨rfl, rfl, rfl, rfl, rfl⟩, hc.shellC _ _ hC ⟨rfl, rfl, rfl, rfl, rfl⟩ (Or.inl rfl)⟩
  · split
    · exact ⟨hT, hC⟩
    · rename_i ch _
      cases hq : H.genExpire t s now ch hard with
      | mk t' o =>
        have h := hc.genExpire t c K i s now ch hard t' o hi hT hC hq
        exact genStep hc c K i now t' o h.1 h.2 _ rfl

theorem pendingLoop_T (hc : Contract H T A C MsgOK) (c : List Sa) (K : List Key) (i : Nat) (now : Nat) (hi : i < c.length)
    (ps : List Pend) : ∀ (t : τ) (s : Sa) (nl : List NlOp), T t (c.set i s) (applyNls K nl) → C s →
      T (pendingLoop H t now ps s nl).1 (c.set i (pendingLoop H t now ps s nl).2.sa) (applyNls K (pendingLoop H t now ps s nl).2.nl) ∧
      C (pendingLoop H t now ps s nl).2.sa := by
  induction ps with
  | nil => intro t s nl hT hC; exact ⟨hT, hC⟩
  | cons p rest ih =>
    intro t s nl hT hC
    unfold pendingLoop
    have hT' : T t (c.set i { s with core := { s.core with pending := s.core.pending.erase p } }) (applyNls K nl) :=
      hc.shellT _ _ _ _ _ _ hT ⟨rfl, rfl, rfl, rfl, rfl⟩
    have hC' : C { s with core := { s.core with pending := s.core.pending.erase p } } :=
      hc.shellC _ _ hC ⟨rfl, rfl, rfl, rfl, rfl⟩ (Or.inl rfl)
    cases p with
    | acquire a b idx =>
      simp only
      have h1 := processAcquire_T hc t c (applyNls K nl) i _ now a b idx hi hT' hC'
      rw [← applyNls_append] at h1
      split
      · exact h1
      · split
        · exact h1
        · exact ih _ _ _ h1.1 h1.2
    | expire spi hard =>
      simp only
      have h1 := processExpire_T hc t c (applyNls K nl) i _ now spi hard hi hT' hC'
      rw [← applyNls_append] at h1
      split
      · exact h1
      · split
        · exact h1
        · exact ih _ _ _ h1.1 h1.2

theorem processRequest_T (hc : Contract H T A C MsgOK) (t : τ) (c : List Sa) (K : List Key) (i : Nat) (s : Sa) (now : Nat)
    (m : Msg) (hi : i < c.length) (hT : T t (c.set i s) K) (hA : A t K) (hC : C s) (hm : MsgOK m) :
    T (processRequest H t s now m).1 (c.set i (processRequest H t s now m).2.sa) (applyNls K (processRequest H t s now m).2.nl) ∧
      C (processRequest H t s now m).2.sa := by
  unfold processRequest
  split
  · exact ⟨hT, hC⟩
  · split
    · exact ⟨hT, hC⟩
    · cases hq : H.req t s now m with
      | mk t' oo =>
        cases oo with
        | none => simp only; rw [hc.reqNone _ _ _ _ _ hq]; exact ⟨hT, hC⟩
        | some o =>
          have h := hc.req t c K i s now m t' o hi hT hA hC hm hq
          simp only
          cases o.res with
          | reply r => exact ⟨hc.shellT _ _ _ _ _ _ h.1 ⟨rfl, rfl, rfl, rfl, rfl⟩, hc.shellC _ _ h.2 ⟨rfl, rfl, rfl, rfl, rfl⟩ (Or.inl rfl)⟩
          | request r => exact ⟨hc.shellT _ _ _ _ _ _ h.1 ⟨rfl, rfl, rfl, rfl, rfl⟩, hc.shellC _ _ h.2 ⟨rfl, rfl, rfl, rfl, rfl⟩ (Or.inl rfl)⟩
          | nothing => exact ⟨hc.shellT _ _ _ _ _ _ h.1 ⟨rfl, rfl, rfl, rfl, rfl⟩, hc.shellC _ _ h.2 ⟨rfl, rfl, rfl, rfl, rfl⟩ (Or.inl rfl)⟩
          | ikeError n => exact ⟨hc.shellT _ _ _ _ _ _ h.1 ⟨rfl, rfl, rfl, rfl, rfl⟩, hc.shellC _ _ h.2 ⟨rfl, rfl, rfl, rfl, rfl⟩ (Or.inr rfl)⟩
          | otherError n => exact ⟨hc.shellT _ _ _ _ _ _ h.1 ⟨rfl, rfl, rfl, rfl, rfl⟩, hc.shellC _ _ h.2 ⟨rfl, rfl, rfl, rfl, rfl⟩ (Or.inr rfl)⟩

theorem processResponse_T (hc : Contract H T A C MsgOK) (t : τ) (c : List Sa) (K : List Key) (i : Nat) (s : Sa) (now : Nat)
    (m : Msg) (hi : i < c.length) (hT : T t (c.set i s) K) (hA : A t K) (hC : C s) :
    T (processResponse H t s now m).1 (c.set i (processResponse H t s now m).2.sa) (applyNls K (processResponse H t s now m).2.nl) ∧
      C (processResponse H t s now m).2.sa := by
  unfold processResponse
  have hTb : T t (c.set i (bumpMyId s)) K := hc.shellT _ _ _ _ _ _ hT ⟨rfl, rfl, rfl, rfl, rfl⟩
  have hCb : C (bumpMyId s) := hc.shellC _ _ hC ⟨rfl, rfl, rfl, rfl, rfl⟩ (Or.inl rfl)
  split
  · exact ⟨hT, hC⟩
  · cases hq : H.resp t (bumpMyId s) now m with
    | mk t' oo =>
      cases oo with
      | none => simp only; rw [hc.respNone _ _ _ _ _ hq]; exact ⟨hTb, hCb⟩
      | some o =>
        have h := hc.resp t c K i (bumpMyId s) now m t' o hi hTb hA hCb hq
        simp only
        cases o.res with
        | request r => exact ⟨hc.shellT _ _ _ _ _ _ h.1 ⟨rfl, rfl, rfl, rfl, rfl⟩, hc.shellC _ _ h.2 ⟨rfl, rfl, rfl, rfl, rfl⟩ (Or.inl rfl)⟩
        | reply r => exact ⟨hc.shellT _ _ _ _ _ _ h.1 ⟨rfl, rfl, rfl, rfl, rfl⟩, hc.shellC _ _ h.2 ⟨rfl, rfl, rfl, rfl, rfl⟩ (Or.inl rfl)⟩
        | ikeError n => exact ⟨hc.shellT _ _ _ _ _ _ h.1 ⟨rfl, rfl, rfl, rfl, rfl⟩, hc.shellC _ _ h.2 ⟨rfl, rfl, rfl, rfl, rfl⟩ (Or.inr rfl)⟩
        | otherError n => exact ⟨hc.shellT _ _ _ _ _ _ h.1 ⟨rfl, rfl, rfl, rfl, rfl⟩, hc.shellC _ _ h.2 ⟨rfl, rfl, rfl, rfl, rfl⟩ (Or.inr rfl)⟩
        | nothing =>
          simp only
          split
          · have hp := pendingLoop_T hc c K i now hi o.sa.core.pending t' o.sa o.nl h.1 h.2
            cases hpl : pendingLoop H t' now o.sa.core.pending o.sa o.nl with
            | mk t2 p =>
              rw [hpl] at hp
              simp only
              split
              · exact ⟨hc.shellT _ _ _ _ _ _ hp.1 ⟨rfl, rfl, rfl, rfl, rfl⟩, hc.shellC _ _ hp.2 ⟨rfl, rfl, rfl, rfl, rfl⟩ (Or.inr rfl)⟩
              · exact hp
          · exact h

theorem processMessage_T (hc : Contract H T A C MsgOK) (t : τ) (c : List Sa) (K : List Key) (i : Nat) (s : Sa) (now : Nat)
    (parsed : Option Msg) (hi : i < c.length) (hT : T t (c.set i s) K) (hA : A t K) (hC : C s)
    (hm : ∀ m, parsed = some m → MsgOK m) :
    T (processMessage H t s now parsed).1 (c.set i (processMessage H t s now parsed).2.sa)
      (applyNls K (processMessage H t s now parsed).2.nl) ∧ C (processMessage H t s now parsed).2.sa := by
  unfold processMessage
  cases parsed with
  | none => exact ⟨hT, hC⟩
  | some m =>
    simp only
    have hTd : T t (c.set i (touchDpd s now)) K := hc.shellT _ _ _ _ _ _ hT ⟨rfl, rfl, rfl, rfl, rfl⟩
    have hCd : C (touchDpd s now) := hc.shellC _ _ hC ⟨rfl, rfl, rfl, rfl, rfl⟩ (Or.inl rfl)
    split
    · exact ⟨hT, hC⟩
    · exact ⟨hT, hC⟩
    · split
      · exact processResponse_T hc t c K i _ now m hi hTd hA hCd
      · exact processRequest_T hc t c K i _ now m hi hTd hA hCd (hm m rfl)

/-- an IKE_SA_INIT request never changes what the IKE_SA it reaches tracks -/
theorem processMessage_children34 (hc : Contract H T A C MsgOK) (t : τ) (s : Sa) (now : Nat) (parsed : Option Msg)
    (hm : ∀ m, parsed = some m → m.hdr.exch = 34 ∧ m.hdr.isResp = false) :
    (processMessage H t s now parsed).2.sa.core.children = s.core.children := by
  unfold processMessage
  cases parsed with
  | none => rfl
  | some m =>
    simp only
    split
    · rfl
    · rfl
    · rw [if_neg (by simp [(hm m rfl).2])]
      unfold processRequest
      split
      · rfl
      · split
        · rfl
        · cases hq : H.req t (touchDpd s now) now m with
          | mk t' oo =>
            cases oo with
            | none => rfl
            | some o =>
              have h := hc.req34 _ _ _ _ _ _ hq (hm m rfl).1
              simp only
              cases o.res <;> exact h

theorem checkDpd_T (hc : Contract H T A C MsgOK) (t : τ) (c : List Sa) (K : List Key) (i : Nat) (s : Sa) (now : Nat)
    (hi : i < c.length) (hT : T t (c.set i s) K) (hC : C s) :
    T (checkDpd H t s now).1 (c.set i (checkDpd H t s now).2.sa) (applyNls K (checkDpd H t s now).2.nl) ∧ C (checkDpd H t s now).2.sa := by
  unfold checkDpd
  split
  · cases hq : H.genDpd t s now with
    | mk t' o =>
      have h := hc.genDpd t c K i s now t' o hi hT hC hq
      exact genStep hc c K i now t' o h.1 h.2 _ rfl
  · exact ⟨hT, hC⟩

/-- the lifetime timer: consistency is kept; the per-object condition only when the rekey generator did not run -/
theorem checkRekey_T (hc : Contract H T A C MsgOK) (t : τ) (c : List Sa) (K : List Key) (i : Nat) (s : Sa) (now : Nat)
    (hi : i < c.length) (hT : T t (c.set i s) K) (hC : C s) :
    T (checkRekey H t s now).1 (c.set i (checkRekey H t s now).2.sa) (applyNls K (checkRekey H t s now).2.nl) := by
  unfold checkRekey
  split
  · split
    · cases hq : H.genDeleteIke t s now with
      | mk t' o =>
        have h := hc.genDeleteIke t c K i s now t' o hi hT hC hq
        exact (genStep hc c K i now t' o h.1 h.2 _ rfl).1
    · split
      · cases hq : H.genRekeyIke t s now with
        | mk t' o =>
          have h := hc.genRekeyIke t c K i s now t' o hi hT hC hq
          simp only
          cases o.res with
          | request r => exact hc.shellT _ _ _ _ _ _ h ⟨rfl, rfl, rfl, rfl, rfl⟩
          | reply r => exact h
          | nothing => exact h
          | ikeError n => exact h
          | otherError n => exact h
      · exact hT
  · exact hT

/-! ### controller level -/

def AllC (C : Sa → Prop) (c : List Sa) : Prop := ∀ x ∈ c, C x

theorem AllC.set {C : Sa → Prop} {c : List Sa} (h : AllC C c) (i : Nat) {s : Sa} (hs : C s) : AllC C (c.set i s) := by
  intro x hx
  rcases List.mem_or_eq_of_mem_set hx with h1 | h1
  · exact h x h1
  · exact h1 ▸ hs

theorem AllC.eraseIdx {C : Sa → Prop} {c : List Sa} (h : AllC C c) (i : Nat) : AllC C (c.eraseIdx i) :=
  fun x hx => h x (List.mem_of_mem_eraseIdx hx)

theorem AllC.append {C : Sa → Prop} {c : List Sa} (h : AllC C c) {s : Sa} (hs : C s) : AllC C (c ++ [s]) := by
  intro x hx
  rcases List.mem_append.mp hx with h1 | h1
  · exact h x h1
  · simp at h1; exact h1 ▸ hs

theorem set_of_getElem? {c : List Sa} {i : Nat} {s : Sa} (h : c[i]? = some s) : i < c.length ∧ c.set i s = c := by
  have hi : i < c.length := by
    rcases Nat.lt_or_ge i c.length with h1 | h1
    · exact h1
    · rw [List.getElem?_eq_none h1] at h; cases h
  refine ⟨hi, ?_⟩
  have : c[i] = s := by rw [List.getElem?_eq_getElem hi] at h; exact Option.some.inj h
  rw [← this]; exact List.set_getElem_self hi

theorem afterMessage_T (hc : Contract H T A C MsgOK) (t : τ) (c : List Sa) (K : List Key) (i : Nat) (s : Sa)
    (hi : i < c.length) (hT : T t (c.set i s) K) (hC : C s) (hall : AllC C c) :
    T t (afterMessage c i s).1 (applyNls K (afterMessage c i s).2) ∧ AllC C (afterMessage c i s).1 := by
  unfold afterMessage
  have hs := hc.calmSucc s hC
  simp only [hs]
  have hsame : (if s.core.st = stREKEYED ∨ s.core.st = stDEL_AFTER_REKEY_IKE_SA_REQ_SENT then c.set i s else c.set i s) = c.set i s := by
    split <;> rfl
  rw [hsame]
  split
  · simp only [List.set_set, List.eraseIdx_set_eq]
    exact ⟨hc.remove t c K i s hi hT, hall.eraseIdx i⟩
  · exact ⟨hT, hall.set i hC⟩

/-- header-only parse and full parse are of the same datagram -/
def Coherent (hdr : Option Header) (parsed : Option Msg) : Prop :=
  ∀ h m, hdr = some h → parsed = some m → m.hdr.exch = h.exch ∧ m.hdr.isResp = h.isResp

theorem dispatch_T (hc : Contract H T A C MsgOK) (t : τ) (c : Ctl) (K : List Key) (now : Nat) (hdr : Option Header)
    (parsed : Option Msg) (myAddr peerAddr : Bytes) (hT : T t c.sas K) (hA : A t K) (hall : AllC C c.sas)
    (hm : ∀ m, parsed = some m → MsgOK m) (hcoh : Coherent hdr parsed) :
    T (dispatch H t c now hdr parsed myAddr peerAddr).1 (dispatch H t c now hdr parsed myAddr peerAddr).2.ctl.sas
      (applyNls K (dispatch H t c now hdr parsed myAddr peerAddr).2.nl) ∧
    AllC C (dispatch H t c now hdr parsed myAddr peerAddr).2.ctl.sas := by
  unfold dispatch
  cases hdr with
  | none => exact ⟨hT, hall⟩
  | some h =>
    simp only
    split
    · rename_i h34
      cases hq : H.newSa t now false h.spiI myAddr peerAddr with
      | mk t' on =>
        cases on with
        | none => exact ⟨hc.newSaNone _ _ _ _ _ _ _ _ _ hT hq, hall⟩
        | some n =>
          obtain ⟨hT1, hC1, hch, hA1⟩ := hc.newSa _ _ _ _ _ _ _ _ _ _ hT hq
          simp only
          generalize hn' : (if halfOpen (c.sas ++ [({ core := n, succ := none } : Sa)]) > c.threshold then ({ n with cookie := true } : SaCore) else n) = n'
          have hsq : ShellEq ({ core := n, succ := none } : Sa) ({ core := n', succ := none } : Sa) := by
            rw [← hn']; split <;> exact ⟨rfl, rfl, rfl, rfl, rfl⟩
          have hst : n'.st = n.st := by rw [← hn']; split <;> rfl
          have hchn : n'.children = [] := by rw [← hn']; split <;> simpa using hch
          have hlen : (c.sas ++ [({ core := n, succ := none } : Sa)]).length - 1 = c.sas.length := by simp
          rw [hlen]
          have hi : c.sas.length < (c.sas ++ [({ core := n, succ := none } : Sa)]).length := by simp
          have hset : ∀ x : Sa, (c.sas ++ [({ core := n, succ := none } : Sa)]).set c.sas.length x = c.sas ++ [x] := by
            intro x; rw [List.set_append_right _ _ (Nat.le_refl _)]; simp
          have hT2 : T t' ((c.sas ++ [({ core := n, succ := none } : Sa)]).set c.sas.length { core := n', succ := none }) K := by
            apply hc.shellT _ _ _ _ _ _ _ hsq
            rw [hset]; exact hT1
          have hC2 : C { core := n', succ := none } := hc.shellC _ _ hC1 hsq (Or.inl hst)
          have hpm := processMessage_T hc t' _ K _ { core := n', succ := none } now parsed hi hT2 (hA1 hA) hC2 hm
          have hch2 := processMessage_children34 hc t' { core := n', succ := none } now parsed (by
            intro m hp
            have := hcoh h m rfl hp
            refine ⟨this.1 ▸ h34.1, ?_⟩
            have h2 := h34.2
            rw [this.2]; simpa using h2)
          cases hpq : processMessage H t' { core := n', succ := none } now parsed with
          | mk t2 o =>
            rw [hpq] at hpm hch2
            simp only at hpm hch2 ⊢
            split
            · refine ⟨hc.forget _ _ _ o.sa ?_ (by rw [hch2]; exact hchn), hall⟩
              rw [← hset]; exact hpm.1
            · have ham := afterMessage_T hc t2 _ (applyNls K o.nl) _ o.sa hi hpm.1 hpm.2 (hall.append hC1)
              cases haq : afterMessage (c.sas ++ [{ core := n, succ := none }]) c.sas.length o.sa with
              | mk sas ops =>
                rw [haq] at ham
                simp only at ham ⊢
                rw [applyNls_append]
                exact ham
    · split
      · exact ⟨hT, hall⟩
      · rename_i i _
        split
        · exact ⟨hT, hall⟩
        · rename_i s hs
          obtain ⟨hi, hset⟩ := set_of_getElem? hs
          have hCs : C s := hall s (List.mem_of_getElem? hs)
          have hpm := processMessage_T hc t c.sas K i s now parsed hi (by rw [hset]; exact hT) hA hCs hm
          cases hpq : processMessage H t s now parsed with
          | mk t2 o =>
            rw [hpq] at hpm
            simp only at hpm ⊢
            have ham := afterMessage_T hc t2 c.sas (applyNls K o.nl) i o.sa hi hpm.1 hpm.2 hall
            cases haq : afterMessage c.sas i o.sa with
            | mk sas ops =>
              rw [haq] at ham
              simp only at ham ⊢
              rw [applyNls_append]
              exact ham

theorem ctlAcquire_T (hc : Contract H T A C MsgOK) (t : τ) (c : Ctl) (K : List Key) (now : Nat) (myAddr peerAddr : Bytes)
    (tsi tsr : TS) (idx : Nat) (hT : T t c.sas K) (hall : AllC C c.sas) :
    T (ctlAcquire H t c now myAddr peerAddr tsi tsr idx).1 (ctlAcquire H t c now myAddr peerAddr tsi tsr idx).2.ctl.sas
      (applyNls K (ctlAcquire H t c now myAddr peerAddr tsi tsr idx).2.nl) ∧
    AllC C (ctlAcquire H t c now myAddr peerAddr tsi tsr idx).2.ctl.sas := by
  unfold ctlAcquire
  split
  · rename_i i _
    split
    · exact ⟨hT, hall⟩
    · rename_i s hs
      obtain ⟨hi, hset⟩ := set_of_getElem? hs
      have hCs : C s := hall s (List.mem_of_getElem? hs)
      have hp := processAcquire_T hc t c.sas K i s now tsi tsr idx hi (by rw [hset]; exact hT) hCs
      cases hpq : processAcquire H t s now tsi tsr idx with
      | mk t2 o =>
        rw [hpq] at hp
        exact ⟨hp.1, hall.set i hp.2⟩
  · cases hq : H.newSa t now true (List.replicate 8 0) myAddr peerAddr with
    | mk t' on =>
      cases on with
      | none => exact ⟨hc.newSaNone _ _ _ _ _ _ _ _ _ hT hq, hall⟩
      | some n =>
        obtain ⟨hT1, hC1, _, _⟩ := hc.newSa _ _ _ _ _ _ _ _ _ _ hT hq
        simp only
        have hi : c.sas.length < (c.sas ++ [({ core := n, succ := none } : Sa)]).length := by simp
        have hset : ∀ x : Sa, (c.sas ++ [({ core := n, succ := none } : Sa)]).set c.sas.length x = c.sas ++ [x] := by
          intro x; rw [List.set_append_right _ _ (Nat.le_refl _)]; simp
        have hp := processAcquire_T hc t' _ K _ { core := n, succ := none } now tsi tsr idx hi (by rw [hset]; exact hT1) hC1
        cases hpq : processAcquire H t' { core := n, succ := none } now tsi tsr idx with
        | mk t2 o =>
          rw [hpq] at hp
          simp only at hp ⊢
          rw [hset] at hp
          exact ⟨hp.1, hall.append hp.2⟩

theorem ctlExpire_T (hc : Contract H T A C MsgOK) (t : τ) (c : Ctl) (K : List Key) (now : Nat) (spi : Bytes) (hard : Bool)
    (hT : T t c.sas K) (hall : AllC C c.sas) :
    T (ctlExpire H t c now spi hard).1 (ctlExpire H t c now spi hard).2.ctl.sas (applyNls K (ctlExpire H t c now spi hard).2.nl) ∧
    AllC C (ctlExpire H t c now spi hard).2.ctl.sas := by
  unfold ctlExpire
  split
  · exact ⟨hT, hall⟩
  · rename_i i _
    split
    · exact ⟨hT, hall⟩
    · rename_i s hs
      obtain ⟨hi, hset⟩ := set_of_getElem? hs
      have hCs : C s := hall s (List.mem_of_getElem? hs)
      have hp := processExpire_T hc t c.sas K i s now spi hard hi (by rw [hset]; exact hT) hCs
      cases hpq : processExpire H t s now spi hard with
      | mk t2 o =>
        rw [hpq] at hp
        exact ⟨hp.1, hall.set i hp.2⟩

theorem checkRetransmission_shell (s : Sa) (now : Nat) :
    ShellEq s (checkRetransmission s now).sa ∧
    ((checkRetransmission s now).sa.core.st = s.core.st ∨ (checkRetransmission s now).sa.core.st = stDELETED) := by
  unfold checkRetransmission
  split
  · split
    · split
      · exact ⟨⟨rfl, rfl, rfl, rfl, rfl⟩, Or.inr rfl⟩
      · exact ⟨⟨rfl, rfl, rfl, rfl, rfl⟩, Or.inl rfl⟩
    · exact ⟨ShellEq.refl _, Or.inl rfl⟩
  · exact ⟨ShellEq.refl _, Or.inl rfl⟩

theorem sweepRtx_T (hc : Contract H T A C MsgOK) (t : τ) (K : List Key) (now : Nat) (fuel : Nat) :
    ∀ (i : Nat) (sas : List Sa) (sent : List (Bytes × Bytes × Msg)) (nl : List NlOp), T t sas (applyNls K nl) → AllC C sas →
      T t (sweepRtx now fuel i sas sent nl).1 (applyNls K (sweepRtx now fuel i sas sent nl).2.2.1) ∧
      AllC C (sweepRtx now fuel i sas sent nl).1 := by
  induction fuel with
  | zero => intro i sas sent nl hT hall; exact ⟨hT, hall⟩
  | succ fuel ih =>
    intro i sas sent nl hT hall
    unfold sweepRtx
    split
    · exact ⟨hT, hall⟩
    · rename_i s hs
      obtain ⟨hi, hset⟩ := set_of_getElem? hs
      have hCs : C s := hall s (List.mem_of_getElem? hs)
      obtain ⟨hse, hst⟩ := checkRetransmission_shell s now
      have hT1 : T t (sas.set i (checkRetransmission s now).sa) (applyNls K nl) :=
        hc.shellT _ _ _ _ _ _ (by rw [hset]; exact hT) hse
      have hC1 : C (checkRetransmission s now).sa := hc.shellC _ _ hCs hse hst
      simp only
      split
      · exact ⟨hT1, hall.set i hC1⟩
      · split
        · simp only [List.eraseIdx_set_eq]
          apply ih
          · rw [applyNls_append]; exact hc.remove t sas (applyNls K nl) i _ hi hT1
          · exact hall.eraseIdx i
        · exact ih _ _ _ _ hT1 (hall.set i hC1)

/-- a timer sweep: the timer's own lifting lemma, applied to every table entry in turn; `D` is what is known of the entries
    afterwards (those the sweep did not reach, because an exception ended it, still satisfy `C`) -/
theorem sweepTimer_T (K : List Key) (now : Nat) (f : τ → Sa → Nat → τ × StepOut) (D : Sa → Prop) (hCD : ∀ s, C s → D s)
    (hf : ∀ (t : τ) (c : List Sa) (K : List Key) (i : Nat) (s : Sa), i < c.length → T t (c.set i s) K → C s →
      T (f t s now).1 (c.set i (f t s now).2.sa) (applyNls K (f t s now).2.nl) ∧ D (f t s now).2.sa) :
    ∀ (rest : List Sa) (t : τ) (done : List Sa) (sent : List (Bytes × Bytes × Msg)) (nl : List NlOp) (ran : Nat),
      T t (done ++ rest) (applyNls K nl) → AllC C rest → AllC D done →
      T (sweepTimer f now rest t done sent nl ran).1 (sweepTimer f now rest t done sent nl ran).2.1
        (applyNls K (sweepTimer f now rest t done sent nl ran).2.2.2.1) ∧
      AllC D (sweepTimer f now rest t done sent nl ran).2.1 := by
  intro rest
  induction rest with
  | nil => intro t done sent nl ran hT _ hd; simpa [sweepTimer] using And.intro hT hd
  | cons s rest ih =>
    intro t done sent nl ran hT hall hd
    unfold sweepTimer
    have hi : done.length < (done ++ s :: rest).length := by simp
    have hset : ∀ x : Sa, (done ++ s :: rest).set done.length x = done ++ x :: rest := by
      intro x; rw [List.set_append_right _ _ (Nat.le_refl _)]; simp
    have h1 := hf t (done ++ s :: rest) (applyNls K nl) done.length s hi (by rw [hset]; exact hT) (hall s (List.mem_cons_self ..))
    rw [hset, ← applyNls_append] at h1
    have hrest : AllC C rest := fun x hx => hall x (List.mem_cons_of_mem _ hx)
    cases hq : f t s now with
    | mk t' o =>
      rw [hq] at h1
      simp only at h1 ⊢
      split
      · refine ⟨by simpa using h1.1, ?_⟩
        intro x hx
        rcases List.mem_append.mp hx with h2 | h2
        · exact hd.append h1.2 x h2
        · exact hCD x (hrest x h2)
      · apply ih
        · simpa using h1.1
        · exact hrest
        · exact hd.append h1.2

/-- **one whole loop iteration**, for any handler instance that meets the contract: table, handler world and kernel are
    consistent again when the kernel has executed the netlink requests the iteration reports -/
theorem loopIter_T (hc : Contract H T A C MsgOK) (t : τ) (c : Ctl) (K : List Key) (now : Nat) (ev : LoopEv)
    (hT : T t c.sas K) (hA : A t K) (hall : AllC C c.sas)
    (hm : ∀ h p a b m, ev.datagram = some (h, p, a, b) → p = some m → MsgOK m)
    (hcoh : ∀ h p a b, ev.datagram = some (h, p, a, b) → Coherent h p) :
    T (loopIter H t c now ev).1 (loopIter H t c now ev).2.ctl.sas (applyNls K (loopIter H t c now ev).2.nl) := by
  unfold loopIter
  split
  rename_i t1 o1 heq1
  have h1 : T t1 o1.ctl.sas (applyNls K o1.nl) ∧ AllC C o1.ctl.sas := by
    rcases hd : ev.datagram with _ | ⟨h, p, a, b⟩
    · rw [hd] at heq1; cases heq1; exact ⟨hT, hall⟩
    · rw [hd] at heq1
      have := dispatch_T hc t c K now h p a b hT hA hall (fun m hp => hm h p a b m hd hp) (hcoh h p a b hd)
      simp only at heq1
      rw [heq1] at this
      exact this
  split
  · exact h1.1
  · split
    rename_i t2 o2 heq2
    have h2 : T t2 o2.ctl.sas (applyNls K (o1.nl ++ o2.nl)) ∧ AllC C o2.ctl.sas := by
      rw [applyNls_append]
      rcases ha : ev.acquire with _ | ⟨me, peer, tsi, tsr, idx⟩
      · rcases he : ev.expire with _ | ⟨spi, hard⟩
        · rw [ha, he] at heq2; cases heq2; exact h1
        · rw [ha, he] at heq2
          have := ctlExpire_T hc t1 o1.ctl (applyNls K o1.nl) now spi hard h1.1 h1.2
          simp only at heq2
          rw [heq2] at this
          exact this
      · rw [ha] at heq2
        have := ctlAcquire_T hc t1 o1.ctl (applyNls K o1.nl) now me peer tsi tsr idx h1.1 h1.2
        simp only at heq2
        rw [heq2] at this
        exact this
    simp only
    split
    · exact h2.1
    · have h3 := sweepRtx_T hc t2 K now (o2.ctl.sas.length + 1) 0 o2.ctl.sas (o1.sent ++ o2.sent) (o1.nl ++ o2.nl) h2.1 h2.2
      generalize sweepRtx now (o2.ctl.sas.length + 1) 0 o2.ctl.sas (o1.sent ++ o2.sent) (o1.nl ++ o2.nl) = r3 at h3 ⊢
      split
      · exact h3.1
      · have h4 := sweepTimer_T K now (checkDpd H) C (fun _ h => h) (fun t c K i s hi hT hC => checkDpd_T hc t c K i s now hi hT hC)
          r3.1 t2 [] r3.2.1 r3.2.2.1 (o1.ran + o2.ran) (by simpa using h3.1) h3.2 (by intro x hx; cases hx)
        generalize sweepTimer (checkDpd H) now r3.1 t2 [] r3.2.1 r3.2.2.1 (o1.ran + o2.ran) = r4 at h4 ⊢
        split
        · exact h4.1
        · have h5 := sweepTimer_T K now (checkRekey H) (fun _ => True) (fun _ _ => trivial)
            (fun t c K i s hi hT hC => ⟨checkRekey_T hc t c K i s now hi hT hC, trivial⟩)
            r4.2.1 r4.1 [] r4.2.2.1 r4.2.2.2.1 r4.2.2.2.2.2 (by simpa using h4.1) h4.2 (by intro x hx; cases hx)
          exact h5.1

end lift
end PyIkev2.Impl
