/-
  Helper lemmas for C11 about `selLoop` / `intersection`.
-/
import PyIkev2.Model.Negotiate

namespace PyIkev2.Impl
open PyIkev2

theorem selLoop_mem (peer mine acc : List Transform) :
    ∀ t ∈ selLoop peer mine acc, t ∈ acc ∨ (t ∈ mine ∧ t ∈ peer) := by
  induction mine generalizing acc with
  | nil => intro t ht; exact Or.inl ht
  | cons m rest ih =>
    intro t ht
    unfold selLoop at ht
    split at ht
    · rename_i hc
      rcases ih _ t ht with h | h
      · rcases List.mem_append.mp h with h | h
        · exact Or.inl h
        · simp at h; subst h
          exact Or.inr ⟨by simp, by simpa using hc.1⟩
      · exact Or.inr ⟨by simp [h.1], h.2⟩
    · rcases ih _ t ht with h | h
      · exact Or.inl h
      · exact Or.inr ⟨by simp [h.1], h.2⟩

theorem selLoop_acc_sub (peer mine acc : List Transform) : ∀ t ∈ acc, t ∈ selLoop peer mine acc := by
  induction mine generalizing acc with
  | nil => intro t ht; exact ht
  | cons m rest ih =>
    intro t ht
    unfold selLoop
    split
    · exact ih _ t (List.mem_append.mpr (Or.inl ht))
    · exact ih _ t ht

/-- one transform per type: the types of the selection are pairwise distinct -/
theorem selLoop_nodup (peer mine acc : List Transform) (h : (acc.map (·.ttype)).Nodup) :
    ((selLoop peer mine acc).map (·.ttype)).Nodup := by
  induction mine generalizing acc with
  | nil => exact h
  | cons m rest ih =>
    unfold selLoop
    split
    · rename_i hc
      apply ih
      rw [List.map_append, List.nodup_append]
      refine ⟨h, by simp, ?_⟩
      intro a ha b hb
      simp at hb; subst hb
      intro hab
      have hn := hc.2
      simp only [List.any_eq_true, decide_eq_true_eq, not_exists, not_and] at hn
      obtain ⟨s, hs, hst⟩ := List.mem_map.mp ha
      exact hn s hs (hst.trans hab)
    · exact ih _ h

/-- every type of mine that the peer can match ends up selected -/
theorem selLoop_covers (peer mine acc : List Transform) :
    ∀ t ∈ mine, t ∈ peer → ∃ s ∈ selLoop peer mine acc, s.ttype = t.ttype := by
  induction mine generalizing acc with
  | nil => intro t ht; cases ht
  | cons m rest ih =>
    intro t ht hp
    unfold selLoop
    rcases List.mem_cons.mp ht with rfl | ht'
    · split
      · exact ⟨t, selLoop_acc_sub _ _ _ t (by simp), rfl⟩
      · rename_i hc
        have : (acc.any fun s => s.ttype = t.ttype) = true := by
          apply Classical.byContradiction; intro hn
          exact hc ⟨by simpa using hp, by simpa using hn⟩
        obtain ⟨s, hs, hst⟩ := List.any_eq_true.mp this
        exact ⟨s, selLoop_acc_sub _ _ _ s hs, by simpa using hst⟩
    · split
      · exact ih _ t ht' hp
      · exact ih _ t ht' hp

theorem find_append_of_some {α} (p : α → Bool) (a b : List α) (x : α) (h : a.find? p = some x) :
    (a ++ b).find? p = some x := by
  simp [List.find?_append, h]

theorem find_append_of_none {α} (p : α → Bool) (a b : List α) (h : a.find? p = none) :
    (a ++ b).find? p = b.find? p := by
  simp [List.find?_append, h]

/-- once a type has been selected the selection for that type never changes -/
theorem selLoop_find_taken (peer mine acc : List Transform) (ty : Nat) (x : Transform)
    (h : acc.find? (fun s => s.ttype = ty) = some x) :
    (selLoop peer mine acc).find? (fun s => s.ttype = ty) = some x := by
  induction mine generalizing acc with
  | nil => exact h
  | cons m rest ih =>
    unfold selLoop
    split
    · exact ih _ (find_append_of_some _ _ _ _ h)
    · exact ih _ h

/-- local preference: for every transform type, the selected transform is the first one of
    that type, in my order, that the peer proposal contains (`find?`) -/
theorem selLoop_find (peer mine acc : List Transform) (ty : Nat)
    (h : acc.find? (fun s => s.ttype = ty) = none) :
    (selLoop peer mine acc).find? (fun s => s.ttype = ty) =
      mine.find? (fun t => decide (t.ttype = ty) && peer.contains t) := by
  induction mine generalizing acc with
  | nil => simpa [selLoop] using h
  | cons m rest ih =>
    unfold selLoop
    split
    · rename_i hc
      by_cases hty : m.ttype = ty
      · have : (acc ++ [m]).find? (fun s => s.ttype = ty) = some m := by
          rw [find_append_of_none _ _ _ h]; simp [hty]
        rw [selLoop_find_taken _ _ _ _ _ this]
        have hm : m ∈ peer := by simpa using hc.1
        simp [List.find?_cons, hty, hm]
      · have : (acc ++ [m]).find? (fun s => s.ttype = ty) = none := by
          rw [find_append_of_none _ _ _ h]; simp [hty]
        rw [ih _ this]
        simp [List.find?_cons, hty]
    · rename_i hc
      rw [ih _ h]
      by_cases hty : m.ttype = ty
      · have hnot : peer.contains m = false := by
          cases hp : peer.contains m with
          | false => rfl
          | true =>
            exfalso
            apply hc
            refine ⟨hp, ?_⟩
            simp only [List.any_eq_true, decide_eq_true_eq, not_exists, not_and]
            intro s hs hst
            have := List.find?_eq_none.mp h s hs
            simp [hst, hty] at this
        have hm : ¬ m ∈ peer := by simpa using hnot
        simp [List.find?_cons, hty, hm]
      · simp [List.find?_cons, hty]

end PyIkev2.Impl
