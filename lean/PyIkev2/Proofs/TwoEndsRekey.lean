/-
  Two ends, continued: the IKE_SA rekey conversation (CREATE_CHILD_SA with an IKE proposal, then the deletion of the replaced
  IKE_SA).  Here the handlers work on three objects — `self`, `self.new_ike_sa` and a local successor — so the frame predicate
  names all three.
-/
import PyIkev2.Proofs.TwoEndsCreate

namespace PyIkev2.Impl
open PyIkev2

variable {α β : Type}

/-- the three objects a handler can touch -/
def Objs (x : XSa) (su tm : Option XSa) (s : HSt) : Prop := s.me = x ∧ s.succ = su ∧ s.tmp = tm

/-- a computation that touches none of them (it may consult the oracle tape, issue netlink requests, raise) -/
structure TapeOnly (m : HM α) : Prop where
  keep : ∀ s, (m s).2.me = s.me ∧ (m s).2.succ = s.succ ∧ (m s).2.tmp = s.tmp

theorem TapeOnly.keeps {m : HM α} (h : TapeOnly m) (x : XSa) (su tm : Option XSa) : Keeps (Objs x su tm) m :=
  ⟨fun s ⟨h1, h2, h3⟩ => ⟨(h.keep s).1.trans h1, (h.keep s).2.1.trans h2, (h.keep s).2.2.trans h3⟩⟩

theorem TapeOnly.pure (a : α) : TapeOnly (Pure.pure a : HM α) := ⟨fun _ => ⟨rfl, rfl, rfl⟩⟩
theorem TapeOnly.raise (e : Exc) : TapeOnly (HM.raise e : HM α) := ⟨fun _ => ⟨rfl, rfl, rfl⟩⟩
theorem TapeOnly.liftE (x : Except Exc α) : TapeOnly (Impl.liftE x) := ⟨fun _ => ⟨rfl, rfl, rfl⟩⟩
theorem TapeOnly.bind {m : HM α} {f : α → HM β} (hm : TapeOnly m) (hf : ∀ a, TapeOnly (f a)) : TapeOnly (m >>= f) := by
  constructor
  intro s
  rw [HM.bind_def]
  have h1 := hm.keep s
  cases hr : m s with
  | mk r s' =>
    rw [hr] at h1
    cases r with
    | ok a => have h2 := (hf a).keep s'; exact ⟨h2.1.trans h1.1, h2.2.1.trans h1.2.1, h2.2.2.trans h1.2.2⟩
    | error e => exact h1

theorem popVal_to : TapeOnly popVal := by constructor; intro s; unfold popVal; split <;> exact ⟨rfl, rfl, rfl⟩
theorem markBad_to : TapeOnly markBad := ⟨fun _ => ⟨rfl, rfl, rfl⟩⟩
theorem getMe_to : TapeOnly getMe := ⟨fun _ => ⟨rfl, rfl, rfl⟩⟩

macro "tape_only" : tactic => `(tactic| repeat' (first
  | exact TapeOnly.pure _ | exact TapeOnly.raise _ | exact TapeOnly.liftE _ | exact popVal_to | exact markBad_to | exact getMe_to
  | apply TapeOnly.bind | intro _ | split | dsimp only))

theorem popBytes_to : TapeOnly popBytes := by unfold popBytes; tape_only
theorem popBytesOrFail_to : TapeOnly popBytesOrFail := by unfold popBytesOrFail; tape_only
theorem popOk_to : TapeOnly popOk := by unfold popOk; tape_only
theorem popNum_to : TapeOnly popNum := by unfold popNum; tape_only
theorem getSlot_to (sl : Slot) : TapeOnly (getSlot sl) := by
  cases sl
  · exact getMe_to
  · constructor; intro s; simp only [getSlot]; split <;> exact ⟨rfl, rfl, rfl⟩
  · constructor; intro s; simp only [getSlot]; split <;> exact ⟨rfl, rfl, rfl⟩
theorem newXSa_to (conf : Conf) (now : Nat) (i : Bool) (p a b : Bytes) : TapeOnly (newXSa conf now i p a b) := by
  unfold newXSa
  exact TapeOnly.bind popBytes_to (fun _ => TapeOnly.bind popNum_to (fun _ => TapeOnly.pure _))
theorem cookieGate_to (x : XSa) (m : Msg) : TapeOnly (cookieGate x m) := by
  unfold cookieGate
  split
  · apply TapeOnly.bind popBytes_to; intro _
    split
    · exact TapeOnly.raise _
    · split
      · exact TapeOnly.raise _
      · exact TapeOnly.pure _
  · exact TapeOnly.pure _
theorem checkInStates_to (l : List Nat) : TapeOnly (checkInStates l) := by
  unfold checkInStates
  exact TapeOnly.bind getMe_to (fun _ => by split; exact TapeOnly.pure _; exact TapeOnly.raise _)
theorem assertState_to (l : List Nat) : TapeOnly (assertState l) := by
  unfold assertState
  exact TapeOnly.bind getMe_to (fun _ => by split; exact TapeOnly.pure _; exact TapeOnly.raise _)
theorem abortOnErrorNotifies_to (m : Msg) (e : Bool) (l : List Nat) : TapeOnly (abortOnErrorNotifies m e l) := by
  unfold abortOnErrorNotifies; split
  · exact TapeOnly.raise _
  · exact TapeOnly.pure _

/-- a step that keeps an invariant and whose result has a shape -/
theorem Tri.bind_inv {I : HSt → Prop} {m : HM α} {f : α → HM β} {R : β → HSt → Prop} {E : Exc → HSt → Prop} (φ : α → Prop)
    (hk : Keeps I m) (hr : Ret φ m) (hf : ∀ a, φ a → Tri I (f a) R E) (hE : ∀ e s, I s → E e s) :
    Tri I (m >>= f) R E := by
  constructor
  · intro s y t hs hb
    rw [HM.bind_def] at hb
    cases hr' : m s with
    | mk r s' =>
      rw [hr'] at hb
      have h1 := hk.keep s hs; rw [hr'] at h1
      cases r with
      | ok a => exact (hf a (hr s a s' hr')).ok s' y t h1 hb
      | error e => cases hb
  · intro s e t hs hb
    rw [HM.bind_def] at hb
    cases hr' : m s with
    | mk r s' =>
      rw [hr'] at hb
      have h1 := hk.keep s hs; rw [hr'] at h1
      cases r with
      | ok a => exact (hf a (hr s a s' hr')).err s' e t h1 hb
      | error e' => cases hb; exact hE _ _ h1

theorem Tri.pure_bind {P : HSt → Prop} {a : α} {f : α → HM β} {R : β → HSt → Prop} {E : Exc → HSt → Prop}
    (h : Tri P (f a) R E) : Tri P ((Pure.pure a : HM α) >>= f) R E := h

theorem ret_true (m : HM α) : Ret (fun _ => True) m := fun _ _ _ _ => trivial

/-- reading `self` under `Objs` -/
theorem Tri.bind_getMe3 {x : XSa} {su tm : Option XSa} {f : XSa → HM β} {R : β → HSt → Prop} {E : Exc → HSt → Prop}
    (hf : Tri (Objs x su tm) (f x) R E) : Tri (Objs x su tm) (Impl.getMe >>= f) R E := by
  constructor
  · intro s y t hs hb; rw [HM.bind_def] at hb; simp only [Impl.getMe] at hb; rw [hs.1] at hb; exact hf.ok s y t hs hb
  · intro s e t hs hb; rw [HM.bind_def] at hb; simp only [Impl.getMe] at hb; rw [hs.1] at hb; exact hf.err s e t hs hb

/-! ### the responder's side -/

/-- the successor as `negotiateIkeRequest` leaves it: the chosen proposal recorded, keys computed -/
def keyedWith (n : XSa) (chosen : Proposal) : XSa :=
  { core := { n.core with keyed := true }, ext := { n.ext with chosen := some chosen } }

/-- the reply payloads of a granted IKE_SA negotiation -/
def IkeReply (payloads : List Payload) (chosen : Proposal) : Prop :=
  ∃ n g pub, payloads = [mkP ptSA (.sa [chosen]), mkP ptNONCE (.nonce n), mkP ptKE (.ke g pub)]

theorem Tri.bind_getTmp {x : XSa} {su : Option XSa} {new : XSa} {f : XSa → HM β} {R : β → HSt → Prop} {E : Exc → HSt → Prop}
    (hf : Tri (Objs x su (some new)) (f new) R E) : Tri (Objs x su (some new)) (getSlot .tmp >>= f) R E := by
  constructor
  · intro s y t hs hb; rw [HM.bind_def] at hb; simp only [getSlot, hs.2.2] at hb; exact hf.ok s y t hs hb
  · intro s e t hs hb; rw [HM.bind_def] at hb; simp only [getSlot, hs.2.2] at hb; exact hf.err s e t hs hb

theorem modSlot_tmp_tri (x : XSa) (su : Option XSa) (new : XSa) (f : XSa → XSa) (E : Exc → HSt → Prop) :
    Tri (Objs x su (some new)) (modSlot .tmp f) (fun _ => Objs x su (some (f new))) E := by
  unfold modSlot
  apply Tri.modify
  intro s ⟨h1, h2, h3⟩
  exact ⟨h1, h2, by simp [h3]⟩

theorem negotiateIkeRequest_tmp_tri (request : Msg) (x : XSa) (su : Option XSa) (new : XSa) (hcookie : new.core.cookie = false) :
    Tri (Objs x su (some new)) (negotiateIkeRequest .tmp request true)
      (fun payloads s => ∃ chosen, Objs x su (some (keyedWith new chosen)) s ∧ IkeReply payloads chosen ∧
        ∃ sa p, paySA request true = .ok sa ∧ p ∈ sa ∧ chosen.proto = p.proto ∧ (p.spi ≠ [] → chosen.spi = new.core.mySpi))
      (fun _ s => s.me = x ∧ s.succ = su) := by
  have hE : ∀ (n : XSa) (s : HSt), Objs x su (some n) s → s.me = x ∧ s.succ = su := fun _ _ h => ⟨h.1, h.2.1⟩
  unfold negotiateIkeRequest
  refine Tri.bind_liftE ?_ (fun _ s _ h => hE _ s h); intro sa hsa
  refine Tri.bind_liftE ?_ (fun _ s _ h => hE _ s h); intro _ _
  refine Tri.bind_liftE ?_ (fun _ s _ h => hE _ s h); intro kg hkg
  apply Tri.bind_getTmp
  dsimp only
  unfold cookieGate
  rw [if_neg (by rw [hcookie]; decide)]
  apply Tri.pure_bind
  split
  · exact Tri.raise _ (fun s h => hE _ s h)
  · rename_i chosen0 hsel
    obtain ⟨p, hp, hspi, hproto⟩ := selectBest_link _ sa chosen0 hsel
    generalize hch : (if chosen0.spi ≠ [] then ({ chosen0 with spi := new.core.mySpi } : Proposal) else chosen0) = chosen
    have hlink : chosen.proto = p.proto ∧ (p.spi ≠ [] → chosen.spi = new.core.mySpi) := by
      rw [← hch]; split
      · exact ⟨hproto, fun _ => rfl⟩
      · rename_i h; exact ⟨hproto, fun h2 => absurd (hspi ▸ h2) h⟩
    apply Tri.bind (modSlot_tmp_tri x su new _ _); intro _
    refine Tri.bind_inv (fun _ => True) (popBytes_to.keeps _ _ _) (ret_true _) ?_ (fun _ s h => hE _ s h); intro nonce _
    split
    · exact Tri.raise _ (fun s h => hE _ s h)
    · rename_i g _
      have tail : Tri (Objs x su (some ({ new with ext := { new.ext with chosen := some chosen } } : XSa)))
          (do let pub ← popBytesOrFail
              popOk
              modSlot Slot.tmp fun x => { x with core := { x.core with keyed := true } }
              pure [mkP ptSA (.sa [chosen]), mkP ptNONCE (.nonce nonce), mkP ptKE (.ke g pub)])
          (fun payloads s => ∃ chosen, Objs x su (some (keyedWith new chosen)) s ∧ IkeReply payloads chosen ∧
            ∃ sa p, paySA request true = .ok sa ∧ p ∈ sa ∧ chosen.proto = p.proto ∧ (p.spi ≠ [] → chosen.spi = new.core.mySpi))
          (fun _ s => s.me = x ∧ s.succ = su) := by
        refine Tri.bind_inv (fun _ => True) (popBytesOrFail_to.keeps _ _ _) (ret_true _) ?_ (fun _ s h => hE _ s h); intro pub _
        refine Tri.bind_inv (fun _ => True) (popOk_to.keeps _ _ _) (ret_true _) ?_ (fun _ s h => hE _ s h); intro _ _
        apply Tri.bind (modSlot_tmp_tri x su _ _ _); intro _
        exact Tri.pure _ (fun s h => ⟨chosen, h, ⟨nonce, g, pub, rfl⟩, sa, p, hsa, hp, hlink.1, hlink.2⟩)
      split
      · exact Tri.raise_bind _ (fun s h => hE _ s h)
      · exact tail

/-- what `IkeSa(...)` returns, as far as the tape has no say -/
def FreshSa (conf : Conf) (isInit : Bool) (peerSpi myAddr peerAddr : Bytes) (n : XSa) : Prop :=
  n.core.isInit = isInit ∧ n.core.peerSpi = peerSpi ∧ n.core.myAddr = myAddr ∧ n.core.peerAddr = peerAddr ∧
  n.ext.kids = [] ∧ n.ext.conf = conf ∧ n.core.cookie = false ∧ n.core.request = none ∧ n.ext.chosen = none ∧
  n.core.st = stINITIAL

theorem newXSa_ret (conf : Conf) (now : Nat) (i : Bool) (p a b : Bytes) : Ret (FreshSa conf i p a b) (newXSa conf now i p a b) := by
  unfold newXSa
  exact Ret.bind (fun _ => Ret.bind (fun _ => Ret.pure _ ⟨rfl, rfl, rfl, rfl, rfl, rfl, rfl, rfl, rfl, rfl⟩))

/-- the object a rekeyed IKE_SA leaves behind, and its successor with the CHILD_SAs -/
def rekeyedOf (x : XSa) : XSa := { (x.setKids []) with core := { (x.setKids []).core with st := stREKEYED } }
def handedTo (n : XSa) (kids : List Child) : XSa := { (n.setKids kids) with core := { (n.setKids kids).core with st := stESTABLISHED } }

/-- the successor the responder of an IKE_SA rekey ends up with -/
def NbOk (request : Msg) (x : XSa) (p0 : Proposal) (nb : XSa) (chosen : Proposal) : Prop :=
  nb.ext.kids = x.ext.kids ∧ nb.core.st = stESTABLISHED ∧ nb.core.peerSpi = p0.spi ∧ nb.core.isInit = false ∧
  nb.core.myAddr = x.core.myAddr ∧ nb.core.peerAddr = x.core.peerAddr ∧ nb.ext.conf = x.ext.conf ∧
  ∃ sa p, paySA request true = .ok sa ∧ p ∈ sa ∧ chosen.proto = p.proto ∧ (p.spi ≠ [] → chosen.spi = nb.core.mySpi)

def RekeyGranted (request : Msg) (x : XSa) (p0 : Proposal) (payloads : List Payload) (s : HSt) : Prop :=
  ∃ nb chosen, Objs (rekeyedOf x) (some nb) none s ∧ IkeReply payloads chosen ∧ NbOk request x p0 nb chosen

theorem handOver_true_tri (x : XSa) (su : Option XSa) (n : XSa) (E : Exc → HSt → Prop) :
    Tri (Objs x su (some n)) (handOver true) (fun _ => Objs (rekeyedOf x) (some (handedTo n x.ext.kids)) none) E := by
  unfold handOver
  apply Tri.modify
  intro s ⟨h1, h2, h3⟩
  simp only [Objs, if_true, h1, h3, Option.map_some, rekeyedOf, handedTo, and_self]

theorem ikeRekeyRequest_tri (now : Nat) (request : Msg) (p0 : Proposal) (x : XSa) (su tm : Option XSa) :
    Tri (Objs x su tm) (ikeRekeyRequest now request p0)
      (fun payloads s => RekeyGranted request x p0 payloads s ∨ ((s.me = x ∧ s.succ = su) ∧ ErrReply payloads))
      (fun _ _ => True) := by
  unfold ikeRekeyRequest
  apply Tri.bind_getMe3
  split
  · exact Tri.pure _ (fun s h => Or.inr ⟨⟨h.1, h.2.1⟩, errReply_mkNotify ..⟩)
  · refine Tri.bind_inv _ ((newXSa_to _ _ _ _ _ _).keeps _ _ _) (newXSa_ret _ _ _ _ _ _) ?_ (fun _ _ _ => trivial)
    intro new hnew
    apply Tri.bind (Q := fun _ => Objs x su (some new))
    · apply Tri.modify; intro s ⟨h1, h2, _⟩; exact ⟨h1, h2, rfl⟩
    · intro _
      refine Tri.tryCatch (E1 := fun _ s => s.me = x ∧ s.succ = su) ?_ ?_ (fun _ _ _ _ => trivial)
      · apply Tri.bind (negotiateIkeRequest_tmp_tri request x su new hnew.2.2.2.2.2.2.1); intro payloads
        constructor
        · intro s r t ⟨chosen, hs, hrep, sa, p, hsa, hp, hproto, hspi⟩ hm
          rw [HM.bind_def] at hm
          have h1 := (handOver_true_tri x su (keyedWith new chosen) (fun _ _ => True)).ok s () _ hs rfl
          simp only [handOver, HM.modify] at hm h1
          simp only [HM.pure_def] at hm
          cases hm
          refine Or.inl ⟨handedTo (keyedWith new chosen) x.ext.kids, chosen, h1, hrep, ?_⟩
          obtain ⟨f1, f2, f3, f4, f5, f6, _⟩ := hnew
          exact ⟨rfl, rfl, f2, f1, f3, f4, f6, sa, p, hsa, hp, hproto, hspi⟩
        · intro s e t _ hm
          rw [HM.bind_def] at hm
          simp only [handOver, HM.modify, HM.pure_def] at hm
          cases hm
      · intro e k hk
        cases e with
        | ike n =>
          dsimp only at hk
          split at hk
          · rename_i a t b c hb
            split at hk
            · cases hk
              apply Tri.bind (Q := fun _ => Objs x su none)
              · apply Tri.modify; intro s ⟨h1, h2⟩; exact ⟨h1, h2, rfl⟩
              · intro _; exact Tri.pure _ (fun s h => Or.inr ⟨⟨h.1, h.2.1⟩, n, a, t, b, c, rfl, hb⟩)
            · cases hk
          · cases hk
        | netlink => cases hk
        | other n => cases hk

theorem processCreateChildSaRequest_ike_tri (now : Nat) (request : Msg) (x : XSa) (su tm : Option XSa) (p0 : Proposal) (rest : List Proposal)
    (hsa : paySA request true = .ok (p0 :: rest)) (hp0 : p0.proto = 1) :
    Tri (Objs x su tm) (processCreateChildSaRequest now request)
      (fun res s => ∃ payloads, res = .reply (mkResponse s.me.core 36 payloads) ∧
        (RekeyGranted request x p0 payloads s ∨ ((s.me = x ∧ s.succ = su) ∧ ErrReply payloads)))
      (fun _ _ => True) := by
  unfold processCreateChildSaRequest
  refine Tri.bind_inv (fun _ => True) ((checkInStates_to _).keeps _ _ _) (ret_true _) ?_ (fun _ _ _ => trivial); intro _ _
  refine Tri.bind_liftE ?_ (fun _ _ _ _ => trivial); intro sa hsa'
  rw [hsa] at hsa'; cases hsa'
  dsimp only
  rw [if_pos hp0]
  apply Tri.bind (ikeRekeyRequest_tri now request p0 x su tm); intro payloads
  constructor
  · intro s y t hs hb
    rw [HM.bind_def] at hb; simp only [getMe, HM.pure_def] at hb; cases hb
    exact ⟨payloads, rfl, hs⟩
  · intro s e t hs hb
    rw [HM.bind_def] at hb; simp only [getMe, HM.pure_def] at hb; cases hb

/-! ### the initiator's side -/

/-- the successor after the initiator accepted the reply: the responder's SPI, the chosen proposal, keys -/
def respondedWith (n : XSa) (p0 : Proposal) : XSa :=
  { core := { n.core with peerSpi := p0.spi, keyed := true }, ext := { n.ext with chosen := some p0 } }

theorem Tri.bind_getSucc {x : XSa} {tm : Option XSa} {n : XSa} {f : XSa → HM β} {R : β → HSt → Prop} {E : Exc → HSt → Prop}
    (hf : Tri (Objs x (some n) tm) (f n) R E) : Tri (Objs x (some n) tm) (getSlot .succ >>= f) R E := by
  constructor
  · intro s y t hs hb; rw [HM.bind_def] at hb; simp only [getSlot, hs.2.1] at hb; exact hf.ok s y t hs hb
  · intro s e t hs hb; rw [HM.bind_def] at hb; simp only [getSlot, hs.2.1] at hb; exact hf.err s e t hs hb

theorem modSlot_succ_tri (x : XSa) (tm : Option XSa) (n : XSa) (f : XSa → XSa) (E : Exc → HSt → Prop) :
    Tri (Objs x (some n) tm) (modSlot .succ f) (fun _ => Objs x (some (f n)) tm) E := by
  unfold modSlot
  apply Tri.modify
  intro s ⟨h1, h2, h3⟩
  exact ⟨h1, by simp [h2], h3⟩

theorem negotiateIkeResponse_succ_tri (response : Msg) (y : XSa) (tm : Option XSa) (na0 : XSa) :
    Tri (Objs y (some na0) tm) (negotiateIkeResponse .succ response true true)
      (fun _ s => ∃ p0 rest, paySA response true = .ok (p0 :: rest) ∧ Objs y (some (respondedWith na0 p0)) tm s)
      (fun _ _ => True) := by
  unfold negotiateIkeResponse
  refine Tri.bind_liftE ?_ (fun _ _ _ _ => trivial); intro sa hsa
  refine Tri.bind_liftE ?_ (fun _ _ _ _ => trivial); intro _ _
  refine Tri.bind_liftE ?_ (fun _ _ _ _ => trivial); intro _ _
  apply Tri.bind_getSucc
  repeat' (first
    | (exfalso; exact (‹¬ true = true›) rfl)
    | exact Tri.raise _ (fun _ _ => trivial)
    | exact Tri.raise_bind _ (fun _ _ => trivial)
    | (refine Tri.bind_inv (fun _ => True) (popOk_to.keeps _ _ _) (ret_true _) ?_ (fun _ _ _ => trivial); intro _ _)
    | (refine (modSlot_succ_tri y tm _ _ _).conseq (fun _ h => h) ?_ (fun _ _ h => h); intro _ s hs; exact ⟨_, _, hsa, hs⟩)
    | (apply Tri.bind (modSlot_succ_tri y tm _ _ _); intro _)
    | extract_lets
    | split
    | simp -zeta +zetaDelta only [])

/-- the object after `generate_delete_ike_sa_request()` -/
def delIkeReq (z : XSa) : Msg := mkRequest z.core 37 [mkP ptDELETE (.delete 1 [])]
def afterGenDelIke (z : XSa) : XSa :=
  { z with core := { z.core with request := some (delIkeReq z),
                                 st := if z.core.st = stESTABLISHED then stDEL_IKE_SA_REQ_SENT else stDEL_AFTER_REKEY_IKE_SA_REQ_SENT } }

theorem generateDeleteIkeSaRequest_tri (z : XSa) (su tm : Option XSa) (hst : z.core.st = stESTABLISHED ∨ z.core.st = stREKEYED) :
    Tri (Objs z su tm) generateDeleteIkeSaRequest (fun r s => r = delIkeReq z ∧ Objs (afterGenDelIke z) su tm s) (fun _ _ => False) := by
  have hc : [stESTABLISHED, stREKEYED].contains z.core.st = true := by rcases hst with h | h <;> rw [h] <;> decide
  constructor
  · intro s r t ⟨h1, h2, h3⟩ hm
    simp only [generateDeleteIkeSaRequest, assertState, HM.bind_def, getMe, h1, hc, if_true, HM.pure_def, modCore, HM.modify] at hm
    cases hm
    exact ⟨rfl, by simp only [afterGenDelIke, delIkeReq, h1], h2, h3⟩
  · intro s e t ⟨h1, h2, h3⟩ hm
    simp only [generateDeleteIkeSaRequest, assertState, HM.bind_def, getMe, h1, hc, if_true, HM.pure_def, modCore, HM.modify] at hm
    cases hm

theorem handOver_false_tri (y : XSa) (tm : Option XSa) (n : XSa) (E : Exc → HSt → Prop) :
    Tri (Objs y (some n) tm) (handOver false) (fun _ => Objs (rekeyedOf y) (some (handedTo n y.ext.kids)) tm) E := by
  unfold handOver
  apply Tri.modify
  intro s ⟨h1, h2, h3⟩
  simp only [Objs, h1, h2, h3, Option.map_some, rekeyedOf, handedTo, and_self, Bool.false_eq_true, if_false]

theorem handleInvalidKe_to (data : Bytes) : TapeOnly (handleInvalidKe data) := by
  unfold handleInvalidKe
  repeat' (first
    | exact TapeOnly.pure _ | exact TapeOnly.raise _ | exact TapeOnly.liftE _ | exact popBytesOrFail_to | exact getMe_to
    | (unfold getPayload; exact TapeOnly.liftE _)
    | apply TapeOnly.bind | intro _ | split | dsimp only)

/-- everything the initiator's handler can come to on the answer to its IKE_SA rekey request -/
def AOutR (now : Nat) (y na0 : XSa) (tm : Option XSa) (response : Msg) (res : HRes) (s : HSt) : Prop :=
  (∃ r2, getNotifies response nINVALID_KE_PAYLOAD true ≠ [] ∧ res = .request r2 ∧
      Objs { y with core := { y.core with request := some r2 } } (some na0) tm s ∧ Retry y r2) ∨
  (∃ j, (getNotifies response nTEMPORARY_FAILURE true).isEmpty = false ∧ res = .nothing ∧
      Objs { y with core := { y.core with st := stESTABLISHED, rekeyAt := now + j } } (some na0) tm s) ∨
  ((getNotifies response nNO_ADDITIONAL_SAS true).isEmpty = false ∧ res = .request (delIkeReq (setSt y stESTABLISHED)) ∧
      Objs (afterGenDelIke (setSt y stESTABLISHED)) (some na0) tm s) ∨
  (∃ p0 rest, getNotifies response nINVALID_KE_PAYLOAD true = [] ∧ paySA response true = .ok (p0 :: rest) ∧
      res = .request (delIkeReq (rekeyedOf y)) ∧
      Objs (afterGenDelIke (rekeyedOf y)) (some (handedTo (respondedWith na0 p0) y.ext.kids)) tm s)

theorem ikeRekeyResponse_tri (now : Nat) (response : Msg) (y na0 : XSa) (tm : Option XSa) :
    Tri (Objs y (some na0) tm) (ikeRekeyResponse now response y) (AOutR now y na0 tm response) (fun _ _ => True) := by
  unfold ikeRekeyResponse
  split
  · rename_i data _ hke
    have hM := handleInvalidKe_tri y data
    apply Tri.bind (Q := fun r2 s => Objs y (some na0) tm s ∧ Retry y r2)
    · constructor
      · intro s r t hs hm
        have h1 := ((handleInvalidKe_to data).keeps y (some na0) tm).keep s hs
        rw [hm] at h1
        exact ⟨h1, (hM.ok s r t hs.1 hm).2⟩
      · intro _ _ _ _ _; trivial
    · intro r2
      apply Tri.bind (Q := fun _ s => Objs { y with core := { y.core with request := some r2 } } (some na0) tm s ∧ Retry y r2)
      · unfold modCore; apply Tri.modify; intro s ⟨⟨h1, h2, h3⟩, h4⟩; exact ⟨⟨by rw [h1], h2, h3⟩, h4⟩
      · intro _; exact Tri.pure _ (fun s h => Or.inl ⟨r2, by rw [hke]; simp, rfl, h.1, h.2⟩)
  · rename_i hke
    split
    · rename_i htf
      constructor
      · intro s r t hs hm
        rw [HM.bind_def] at hm
        cases hp : popNum s with
        | mk rj s1 =>
          have hk := (popNum_to.keeps y (some na0) tm).keep s hs; rw [hp] at hk
          rw [hp] at hm
          cases rj with
          | error e => cases hm
          | ok j =>
            simp only [HM.bind_def, modCore, HM.modify, HM.pure_def] at hm
            cases hm
            refine Or.inr (Or.inl ⟨j, by simpa using htf, rfl, ?_, hk.2.1, hk.2.2⟩)
            have := hk.1; simp only at this; rw [this]
      · intro _ _ _ _ _; trivial
    · split
      · rename_i hna
        apply Tri.bind (Q := fun _ => Objs (setSt y stESTABLISHED) (some na0) tm)
        · unfold setState modCore; apply Tri.modify; intro s ⟨h1, h2, h3⟩; exact ⟨by simp only [setSt, h1], h2, h3⟩
        · intro _
          apply Tri.bind ((generateDeleteIkeSaRequest_tri _ _ _ (Or.inl rfl)).conseq (fun _ h => h) (fun _ _ h => h) (fun _ _ h => h.elim))
          intro r
          exact Tri.pure _ (fun s ⟨h1, h2⟩ => Or.inr (Or.inr (Or.inl ⟨by simpa using hna, by rw [h1], h2⟩)))
      · have rest : Tri (Objs y (some na0) tm)
            (do negotiateIkeResponse Slot.succ response true true
                handOver false
                let r ← generateDeleteIkeSaRequest
                pure (HRes.request r))
            (AOutR now y na0 tm response) (fun _ _ => True) := by
          apply Tri.bind (negotiateIkeResponse_succ_tri response y tm na0); intro _
          constructor
          · intro s r t ⟨p0, rest, hsa, hs⟩ hm
            have h1 := (handOver_false_tri y tm (respondedWith na0 p0) (fun _ _ => True)).ok s () _ hs rfl
            rw [HM.bind_def] at hm
            simp only [handOver, HM.modify] at hm h1
            have h2 := generateDeleteIkeSaRequest_tri (rekeyedOf y) (some (handedTo (respondedWith na0 p0) y.ext.kids)) tm (Or.inr rfl)
            rw [HM.bind_def] at hm
            cases hg : generateDeleteIkeSaRequest _ with
            | mk rr s2 =>
              rw [hg] at hm
              cases rr with
              | error e => exact (h2.err _ e s2 h1 hg).elim
              | ok rq =>
                obtain ⟨h3, h4⟩ := h2.ok _ rq s2 h1 hg
                simp only [HM.pure_def] at hm; cases hm
                exact Or.inr (Or.inr (Or.inr ⟨p0, rest, hke, hsa, by rw [h3], h4⟩))
          · intro _ _ _ _ _; trivial
        split
        · exact Tri.raise_bind _ (fun _ _ => trivial)
        · refine Tri.bind_liftE ?_ (fun _ _ _ _ => trivial); intro _ _
          exact rest

theorem processCreateChildSaResponse_ike_tri (now : Nat) (response : Msg) (y na0 : XSa) (tm : Option XSa)
    (hst : y.core.st = stREK_IKE_SA_REQ_SENT) :
    Tri (Objs y (some na0) tm) (processCreateChildSaResponse now response) (AOutR now y na0 tm response) (fun _ _ => True) := by
  unfold processCreateChildSaResponse
  refine Tri.bind_inv (fun _ => True) ((checkInStates_to _).keeps _ _ _) (ret_true _) ?_ (fun _ _ _ => trivial); intro _ _
  refine Tri.bind_inv (fun _ => True) ((abortOnErrorNotifies_to _ _ _).keeps _ _ _) (ret_true _) ?_ (fun _ _ _ => trivial); intro _ _
  apply Tri.bind_getMe3
  rw [if_pos hst]
  exact ikeRekeyResponse_tri now response y na0 tm

/-! ### the deletion of the replaced IKE_SA -/

theorem processInformationalRequest_delIke (core : SaCore) (s : HSt) (hst : liveStatesAndRekeyed.contains s.me.core.st = true) :
    processInformationalRequest (mkRequest core 37 [mkP ptDELETE (.delete 1 [])]) s =
      (.ok (.reply (mkResponse (setSt s.me stDELETED).core 37 [])), { s with me := setSt s.me stDELETED }) := by
  have hst' : s.me.core.st ∈ liveStatesAndRekeyed := by simpa using hst
  simp [processInformationalRequest, checkInStates, HM.bind_def, getMe, hst', HM.pure_def, mkRequest, mkP, deleteLoop,
    setState, modCore, HM.modify, setSt]

theorem processInformationalResponse_delIke (core : SaCore) (s : HSt)
    (hst : s.me.core.st = stDEL_IKE_SA_REQ_SENT ∨ s.me.core.st = stDEL_AFTER_REKEY_IKE_SA_REQ_SENT) :
    processInformationalResponse (mkResponse core 37 []) s = (.ok .nothing, { s with me := setSt s.me stDELETED }) := by
  rcases hst with h | h
  · have h15 : s.me.core.st = 15 := h
    simp [processInformationalResponse, checkInStates, HM.bind_def, getMe, HM.pure_def, abortOnErrorNotifies, payloadsOf,
      mkResponse, h15, stDEL_CHILD_REQ_SENT, stDEL_IKE_SA_REQ_SENT, stDPD_REQ_SENT, stDEL_AFTER_REKEY_IKE_SA_REQ_SENT,
      setState, modCore, HM.modify, setSt]
  · have h16 : s.me.core.st = 16 := h
    simp [processInformationalResponse, checkInStates, HM.bind_def, getMe, HM.pure_def, abortOnErrorNotifies, payloadsOf,
      mkResponse, h16, stDEL_CHILD_REQ_SENT, stDEL_IKE_SA_REQ_SENT, stDPD_REQ_SENT, stDEL_AFTER_REKEY_IKE_SA_REQ_SENT,
      setState, modCore, HM.modify, setSt]

/-- the delete-IKE_SA round: whatever live state the responder is in, both objects end DELETED; the successors are not touched -/
theorem delIkeStep (now fuel : Nat) (a b : HSt)
    (sta : a.me.core.st = stDEL_IKE_SA_REQ_SENT ∨ a.me.core.st = stDEL_AFTER_REKEY_IKE_SA_REQ_SENT)
    (stb : liveStatesAndRekeyed.contains b.me.core.st = true) (core : SaCore) :
    converse now (fuel + 1) (mkRequest core 37 [mkP ptDELETE (.delete 1 [])]) a b =
      some ({ a with me := setSt a.me stDELETED }, { b with me := setSt b.me stDELETED }) := by
  unfold converse
  rw [requestHandler_37]; dsimp only
  rw [processInformationalRequest_delIke core b stb]; dsimp only
  rw [responseHandler_37]; dsimp only
  rw [processInformationalResponse_delIke _ a sta]

/-! ### the rekey conversation -/

theorem ikeReply_paySA (core : SaCore) (payloads : List Payload) (chosen : Proposal) (h : IkeReply payloads chosen) :
    paySA (mkResponse core 36 payloads) true = .ok [chosen] := by
  obtain ⟨n, g, pub, rfl⟩ := h
  rfl

theorem ikeReply_notifies (core : SaCore) (payloads : List Payload) (chosen : Proposal) (h : IkeReply payloads chosen) (t : Nat) :
    getNotifies (mkResponse core 36 payloads) t true = [] := by
  obtain ⟨n, g, pub, rfl⟩ := h
  rfl

/-- how an IKE_SA rekey conversation can end -/
def RekeyOutcome (a b a' b' : HSt) (na0 : XSa) : Prop :=
  (∃ na nb, a'.me.core.st = stDELETED ∧ b'.me.core.st = stDELETED ∧ a'.me.ext.kids = [] ∧ b'.me.ext.kids = [] ∧
      a'.succ = some na ∧ b'.succ = some nb ∧ na.core.st = stESTABLISHED ∧ nb.core.st = stESTABLISHED ∧
      na.ext.kids = a.me.ext.kids ∧ nb.ext.kids = b.me.ext.kids ∧
      na.core.mySpi = na0.core.mySpi ∧ na.core.mySpi = nb.core.peerSpi ∧ na.core.peerSpi = nb.core.mySpi ∧
      na.core.isInit = na0.core.isInit ∧ nb.core.isInit = false ∧
      nb.core.myAddr = b.me.core.myAddr ∧ nb.core.peerAddr = b.me.core.peerAddr ∧ nb.ext.conf = b.me.ext.conf) ∨
  (a'.me.core.st = stESTABLISHED ∧ a'.me.ext.kids = a.me.ext.kids ∧ b'.me = b.me ∧ b'.succ = b.succ) ∨
  (a'.me.core.st = stDELETED ∧ b'.me.core.st = stDELETED ∧ a'.me.ext.kids = a.me.ext.kids ∧ b'.me.ext.kids = b.me.ext.kids ∧
      b'.succ = b.succ ∧ a'.succ = some na0)

theorem rConverse (now : Nat) : ∀ (fuel : Nat) (a b : HSt) (r : Msg) (na0 : XSa) (pa : Proposal)
    (_sta : a.me.core.st = stREK_IKE_SA_REQ_SENT) (_su : a.succ = some na0) (_hreq : a.me.core.request = some r)
    (_hx : r.hdr.exch = 36) (_hsa : paySA r true = .ok [pa]) (_hp1 : pa.proto = 1) (_hspi : pa.spi = na0.core.mySpi)
    (_hne : na0.core.mySpi ≠ []) (_stb : b.me.core.st = stESTABLISHED)
    (a' b' : HSt) (_hconv : converse now fuel r a b = some (a', b')), RekeyOutcome a b a' b' na0
  | 0, _, _, _, _, _, _, _, _, _, _, _, _, _, _, _, _, hconv => by cases hconv
  | fuel + 1, a, b, r, na0, pa, sta, su, hreq, hx, hsa, hp1, hspi, hne, stb, a', b', hconv => by
    unfold converse at hconv
    rw [requestHandler_36 now r hx] at hconv; dsimp only at hconv
    have hB := processCreateChildSaRequest_ike_tri now r b.me b.succ b.tmp pa [] hsa hp1
    cases hb : processCreateChildSaRequest now r b with
    | mk resB b1 =>
      rw [hb] at hconv
      cases resB with
      | error e => cases hconv
      | ok resB =>
        obtain ⟨payloads, hres, hgr⟩ := hB.ok b resB b1 ⟨rfl, rfl, rfl⟩ hb
        subst hres
        dsimp only at hconv
        rw [responseHandler_36] at hconv; dsimp only at hconv
        have hA := processCreateChildSaResponse_ike_tri now (mkResponse b1.me.core 36 payloads) a.me na0 a.tmp sta
        cases ha : processCreateChildSaResponse now (mkResponse b1.me.core 36 payloads) a with
        | mk resA a2 =>
          rw [ha] at hconv
          cases resA with
          | error e => cases hconv
          | ok resA =>
            have hout := hA.ok a resA a2 ⟨rfl, su, rfl⟩ ha
            rcases hgr with ⟨nb, chosen, hb1, hrep, hnb1, hnb2, hnb3, hnb4, hnb5, hnb6, hnb7, sa, p, hsa', hp, hcproto, hcspi⟩ | ⟨hb1, herr⟩
            · -- granted
              rw [hsa] at hsa'; cases hsa'
              simp only [List.mem_singleton] at hp; subst hp
              have hpsa := ikeReply_paySA b1.me.core payloads chosen hrep
              have hnot := ikeReply_notifies b1.me.core payloads chosen hrep
              rcases hout with ⟨r2, hke, _⟩ | ⟨j, htf, _⟩ | ⟨hna, _⟩ | ⟨p0, rest, _, hp0, h1, h2⟩
              · exact absurd (hnot _) hke
              · rw [hnot] at htf; cases htf
              · rw [hnot] at hna; cases hna
              · rw [hpsa] at hp0; cases hp0
                subst h1; dsimp only at hconv
                cases fuel with
                | zero => cases hconv
                | succ fuel =>
                  have hst2 : a2.me.core.st = stDEL_IKE_SA_REQ_SENT ∨ a2.me.core.st = stDEL_AFTER_REKEY_IKE_SA_REQ_SENT := by
                    right; rw [h2.1]; rfl
                  have hlive : liveStatesAndRekeyed.contains b1.me.core.st = true := by
                    rw [hb1.1]; show liveStatesAndRekeyed.contains stREKEYED = true; decide
                  rw [show delIkeReq (rekeyedOf a.me) = mkRequest (rekeyedOf a.me).core 37 [mkP ptDELETE (.delete 1 [])] from rfl,
                    delIkeStep now fuel a2 b1 hst2 hlive] at hconv
                  cases hconv
                  refine Or.inl ⟨_, nb, rfl, rfl, ?_, ?_, h2.2.1, hb1.2.1, rfl, hnb2, rfl, hnb1, rfl, ?_, ?_, rfl, hnb4, hnb5, hnb6, hnb7⟩
                  · simp only [setSt]; rw [h2.1]; rfl
                  · simp only [setSt]; rw [hb1.1]; rfl
                  · show na0.core.mySpi = nb.core.peerSpi
                    rw [hnb3, hspi]
                  · exact hcspi (by rw [hspi]; exact hne)
            · -- refused: the responder's objects are as they were
              rcases hout with ⟨r2, _, h1, h2, req, g, pub, hreq', hr2⟩ | ⟨j, _, h1, h2⟩ | ⟨_, h1, h2⟩ | ⟨p0, rest, _, hp0, _⟩
              · -- INVALID_KE_PAYLOAD: again, with the other group
                subst h1; dsimp only at hconv
                rw [hreq] at hreq'; cases hreq'
                have hx2 : r2.hdr.exch = 36 := by rw [hr2]; simp [mkRequest, hx]
                have hsa2 : paySA r2 true = .ok [pa] := by rw [hr2, paySA_retry _ _ _ _ hx]; exact hsa
                have ih := rConverse now fuel a2 b1 r2 na0 pa (by rw [h2.1]; exact sta) h2.2.1 (by rw [h2.1]) hx2 hsa2 hp1 hspi hne
                  (by rw [hb1.1]; exact stb) a' b' hconv
                have ka : a2.me.ext.kids = a.me.ext.kids := by rw [h2.1]
                unfold RekeyOutcome at ih ⊢
                rw [ka, hb1.1, hb1.2] at ih
                exact ih
              · subst h1; dsimp only at hconv; cases hconv
                exact Or.inr (Or.inl ⟨by rw [h2.1], by rw [h2.1], hb1.1, hb1.2⟩)
              · subst h1; dsimp only at hconv
                cases fuel with
                | zero => cases hconv
                | succ fuel =>
                  have hst2 : a2.me.core.st = stDEL_IKE_SA_REQ_SENT ∨ a2.me.core.st = stDEL_AFTER_REKEY_IKE_SA_REQ_SENT := by
                    left; rw [h2.1]; rfl
                  have hlive : liveStatesAndRekeyed.contains b1.me.core.st = true := by rw [hb1.1, stb]; decide
                  rw [show delIkeReq (setSt a.me stESTABLISHED) = mkRequest (setSt a.me stESTABLISHED).core 37 [mkP ptDELETE (.delete 1 [])] from rfl,
                    delIkeStep now fuel a2 b1 hst2 hlive] at hconv
                  cases hconv
                  refine Or.inr (Or.inr ⟨rfl, rfl, ?_, ?_, hb1.2, h2.2.1⟩)
                  · simp only [setSt]; rw [h2.1]; rfl
                  · simp only [setSt]; rw [hb1.1]
              · exact absurd hp0 (errReply_paySA _ _ herr _)

/-! ### starting the rekey, and what it means for the successors -/

theorem generateRekeyIkeSaRequest_tri (now : Nat) (x : XSa) (su tm : Option XSa) :
    Tri (Objs x su tm) (generateRekeyIkeSaRequest now)
      (fun r s => ∃ na0 pa, Objs { x with core := { x.core with request := some r, st := stREK_IKE_SA_REQ_SENT } } (some na0) tm s ∧
        na0.core.isInit = true ∧ na0.core.st = stINITIAL ∧ r.hdr.exch = 36 ∧ paySA r true = .ok [pa] ∧ pa.spi = na0.core.mySpi ∧
        pa.proto = x.ext.conf.proposal.proto)
      (fun _ _ => True) := by
  unfold generateRekeyIkeSaRequest
  refine Tri.bind_inv (fun _ => True) ((assertState_to _).keeps _ _ _) (ret_true _) ?_ (fun _ _ _ => trivial); intro _ _
  apply Tri.bind_getMe3
  refine Tri.bind_inv _ ((newXSa_to _ _ _ _ _ _).keeps _ _ _) (newXSa_ret _ _ _ _ _ _) ?_ (fun _ _ _ => trivial)
  intro new hnew
  apply Tri.bind (Q := fun _ => Objs x (some new) tm)
  · apply Tri.modify; intro s ⟨h1, _, h3⟩; exact ⟨h1, rfl, h3⟩
  · intro _
    -- generateIkeNegotiation on the successor
    apply Tri.bind (Q := fun payloads s => ∃ na0 pa, Objs x (some na0) tm s ∧ na0.core.isInit = true ∧ na0.core.st = stINITIAL ∧ pa.spi = na0.core.mySpi ∧
        pa.proto = x.ext.conf.proposal.proto ∧ ∃ n g pub, payloads = [mkP ptSA (.sa [pa]), mkP ptNONCE (.nonce n), mkP ptKE (.ke g pub)])
    · unfold generateIkeNegotiation
      apply Tri.bind_getSucc
      dsimp only
      apply Tri.bind (modSlot_succ_tri x tm new _ _); intro _
      refine Tri.bind_inv (fun _ => True) (popBytes_to.keeps _ _ _) (ret_true _) ?_ (fun _ _ _ => trivial); intro nonce _
      split
      · exact Tri.raise _ (fun _ _ => trivial)
      · rename_i g _
        refine Tri.bind_inv (fun _ => True) (popBytesOrFail_to.keeps _ _ _) (ret_true _) ?_ (fun _ _ _ => trivial); intro pub _
        refine Tri.pure _ (fun s hs => ⟨_, _, hs, hnew.1, hnew.2.2.2.2.2.2.2.2.2, rfl, ?_, nonce, g, pub, rfl⟩)
        rw [hnew.2.2.2.2.2.1]
    · intro payloads
      constructor
      · intro s r t ⟨na0, pa, hs, hi, hst0, hspi, hproto, n, g, pub, hpl⟩ hm
        simp only [HM.bind_def, modCore, HM.modify, HM.pure_def] at hm
        cases hm
        refine ⟨na0, pa, ⟨by rw [hs.1], hs.2.1, hs.2.2⟩, hi, hst0, rfl, ?_, hspi, hproto⟩
        rw [hpl]; rfl
      · intro _ _ _ _ _; trivial

/-- an IKE_SA rekey conversation, from the generator to the last answer -/
def rekeyExchange (now fuel : Nat) (a b : HSt) : Option (HSt × HSt) :=
  match generateRekeyIkeSaRequest now a with
  | (.ok r, a1) => converse now fuel r a1 b
  | _ => none

/-- the successor becomes the IKE_SA -/
def promote (s : HSt) : Option HSt := s.succ.map fun n => { s with me := n, succ := none, tmp := none }

/-- how an IKE_SA rekey conversation between two ends that agreed can end -/
def RekeyEnd (a b a' b' : HSt) : Prop :=
  (∃ na nb, promote a' = some na ∧ promote b' = some nb ∧ Agree na nb ∧
      na.me.core.mySpi = nb.me.core.peerSpi ∧ na.me.core.peerSpi = nb.me.core.mySpi ∧ nb.me.core.isInit = false ∧
      nb.me.core.myAddr = b.me.core.myAddr ∧ nb.me.core.peerAddr = b.me.core.peerAddr ∧ nb.me.ext.conf = b.me.ext.conf ∧
      a'.me.core.st = stDELETED ∧ b'.me.core.st = stDELETED ∧ a'.me.ext.kids = [] ∧ b'.me.ext.kids = []) ∨
  (Agree a' b' ∧ a'.me.ext.kids = a.me.ext.kids ∧ b'.me = b.me) ∨
  (a'.me.core.st = stDELETED ∧ b'.me.core.st = stDELETED ∧ a'.me.ext.kids = a.me.ext.kids ∧
      ∃ n, a'.succ = some n ∧ n.core.st = stINITIAL)

/-- **an IKE_SA rekey between two ends that agree**: if no handler raises and the conversation ends, then either both old objects are
    DELETED without CHILD_SAs and the two successors are ESTABLISHED, hold the CHILD_SAs of their predecessors — so they agree as
    those did — and know each other's SPI; or the rekey was refused and the ends agree as before; or the initiator gave up and both
    IKE_SAs are gone.  `hspi`: the SPI drawn for the successor is not empty (it is eight random octets). -/
theorem rekeyExchange_outcome (now fuel : Nat) (a b a' b' : HSt) (h : Agree a b)
    (hconf : a.me.ext.conf.proposal.proto = 1)
    (hspi0 : ∀ na0, (generateRekeyIkeSaRequest now a).2.succ = some na0 → na0.core.mySpi ≠ [])
    (hx : rekeyExchange now fuel a b = some (a', b')) : RekeyEnd a b a' b' := by
  unfold rekeyExchange at hx
  cases hg : generateRekeyIkeSaRequest now a with
  | mk res a1 =>
    rw [hg] at hx hspi0
    cases res with
    | error e => cases hx
    | ok r =>
      dsimp only at hx hspi0
      obtain ⟨na0, pa, hs, hi, hst0, hex, hsa, hspi, hproto⟩ := (generateRekeyIkeSaRequest_tri now a.me a.succ a.tmp).ok a r a1 ⟨rfl, rfl, rfl⟩ hg
      have hne := hspi0 na0 hs.2.1
      have hout := rConverse now fuel a1 b r na0 pa (by rw [hs.1]) hs.2.1 (by rw [hs.1]) hex hsa (by rw [hproto, hconf]) hspi hne
          h.stb a' b' hx
      have ka1 : a1.me.ext.kids = a.me.ext.kids := by rw [hs.1]
      rcases hout with ⟨na, nb, h1, h2, h3, h4, h5, h6, h7, h8, h9, h10, _, h12, h13, _, h15, h16, h17, h18⟩ | ⟨h1, h2, h3, _⟩ | ⟨h1, h2, h3, _, _, h6⟩
      · refine Or.inl ⟨{ a' with me := na, succ := none, tmp := none }, { b' with me := nb, succ := none, tmp := none },
          by simp [promote, h5], by simp [promote, h6], ?_, h12, h13, h15, h16, h17, h18, h1, h2, h3, h4⟩
        rw [ka1] at h9
        exact ⟨h7, h8, by rw [h9, h10]; exact h.mirror, by rw [h9]; exact h.nda, by rw [h10]; exact h.ndb,
          by rw [h9]; exact h.protoa, by rw [h10]; exact h.protob, by rw [h9, h10]; exact h.paired⟩
      · refine Or.inr (Or.inl ⟨?_, by rw [h2, ka1], h3⟩)
        rw [ka1] at h2
        exact ⟨h1, by rw [h3]; exact h.stb, by rw [h2, h3]; exact h.mirror, by rw [h2]; exact h.nda, by rw [h3]; exact h.ndb,
          by rw [h2]; exact h.protoa, by rw [h3]; exact h.protob, by rw [h2, h3]; exact h.paired⟩
      · exact Or.inr (Or.inr ⟨h1, h2, by rw [h3, ka1], na0, h6, hst0⟩)

/-! ### a whole session: CHILD_SA exchanges and IKE_SA rekeys in any order, started by either end -/

inductive SessOp where
  | child (op : ChildOp)
  | rekeyIke (byA : Bool)
  deriving Repr

/-- an IKE_SA rekey with `a` as its initiator, and what the pair of ends is afterwards: the promoted successors when the replaced
    IKE_SA is gone and its successor is ESTABLISHED; the ends as they are when the rekey was refused; nothing (the session is over)
    when the initiator gave up -/
def rekeyStepA (now fuel : Nat) (a b : HSt) : Option (HSt × HSt) :=
  if a.me.ext.conf.proposal.proto ≠ 1 then none
  else match (generateRekeyIkeSaRequest now a).2.succ with
    | none => none
    | some na0 =>
      if na0.core.mySpi = [] then none        -- (the SPI is eight random octets)
      else match rekeyExchange now fuel a b with
        | none => none
        | some (a', b') =>
          if a'.me.core.st = stDELETED then
            match promote a', promote b' with
            | some na, some nb => if na.me.core.st = stESTABLISHED then some (na, nb) else none
            | _, _ => none
          else some (a', b')

def sessStep (now fuel : Nat) (ab : HSt × HSt) : SessOp → Option (HSt × HSt)
  | .child op => opStep now fuel ab op
  | .rekeyIke true => rekeyStepA now fuel ab.1 ab.2
  | .rekeyIke false => (rekeyStepA now fuel ab.2 ab.1).map fun x => (x.2, x.1)

def sessRun (now fuel : Nat) (ab : HSt × HSt) : List SessOp → Option (HSt × HSt)
  | [] => some ab
  | op :: rest => match sessStep now fuel ab op with
    | some ab' => sessRun now fuel ab' rest
    | none => none

theorem Agree.rekeyStepA {a b a' b' : HSt} (h : Agree a b) (now fuel : Nat) (hx : rekeyStepA now fuel a b = some (a', b')) :
    Agree a' b' := by
  unfold PyIkev2.Impl.rekeyStepA at hx
  split at hx
  · cases hx
  · rename_i hconf
    have hconf : a.me.ext.conf.proposal.proto = 1 := Decidable.not_not.mp hconf
    cases hs : (generateRekeyIkeSaRequest now a).2.succ with
    | none => rw [hs] at hx; cases hx
    | some na0 =>
      rw [hs] at hx; dsimp only at hx
      split at hx
      · cases hx
      · rename_i hne
        cases he : rekeyExchange now fuel a b with
        | none => rw [he] at hx; cases hx
        | some x =>
          obtain ⟨a2, b2⟩ := x
          rw [he] at hx; dsimp only at hx
          have hend := rekeyExchange_outcome now fuel a b a2 b2 h hconf (by intro n hn; rw [hs] at hn; cases hn; exact hne) he
          split at hx
          · rename_i hdel
            rcases hend with ⟨na, nb, e1, e2, hag, _⟩ | ⟨hag, _, _⟩ | ⟨_, _, _, n, hn, hst⟩
            · rw [e1, e2] at hx; dsimp only at hx
              split at hx
              · cases hx; exact hag
              · cases hx
            · rw [hag.sta] at hdel; cases hdel
            · have : promote a2 = some { a2 with me := n, succ := none, tmp := none } := by simp [promote, hn]
              rw [this] at hx
              cases hp : promote b2 with
              | none => rw [hp] at hx; cases hx
              | some nb =>
                rw [hp] at hx; dsimp only at hx
                rw [if_neg (by rw [hst]; decide)] at hx; cases hx
          · rename_i hnd
            cases hx
            rcases hend with ⟨_, _, _, _, _, _, _, _, _, _, _, hd, _⟩ | ⟨hag, _, _⟩ | ⟨hd, _⟩
            · exact absurd hd hnd
            · exact hag
            · exact absurd hd hnd

/-- **a whole session**: any sequence of CHILD_SA creations, rekeys and deletions and of IKE_SA rekeys, started by either end, one
    conversation at a time: if it runs to the end, the two ends — after an IKE_SA rekey: the two successors — agree as the ends did
    at the start -/
theorem Agree.sessRun (now fuel : Nat) : ∀ (ops : List SessOp) (a b a' b' : HSt), Agree a b →
    sessRun now fuel (a, b) ops = some (a', b') → Agree a' b'
  | [], a, b, a', b', h, hx => by simp only [PyIkev2.Impl.sessRun] at hx; cases hx; exact h
  | op :: rest, a, b, a', b', h, hx => by
    simp only [PyIkev2.Impl.sessRun] at hx
    cases hs : sessStep now fuel (a, b) op with
    | none => rw [hs] at hx; cases hx
    | some ab1 =>
      rw [hs] at hx; dsimp only at hx
      obtain ⟨a1, b1⟩ := ab1
      have h1 : Agree a1 b1 := by
        cases op with
        | child op =>
          simp only [sessStep] at hs
          exact Agree.opRun now fuel [op] a b a1 b1 h (by simp only [PyIkev2.Impl.opRun, hs])
        | rekeyIke byA =>
          cases byA with
          | true => simp only [sessStep] at hs; exact h.rekeyStepA now fuel hs
          | false =>
            simp only [sessStep] at hs
            cases hr : PyIkev2.Impl.rekeyStepA now fuel b a with
            | none => simp only [hr, Option.map_none] at hs; cases hs
            | some x =>
              simp only [hr, Option.map_some] at hs; cases hs
              exact (h.symm.rekeyStepA now fuel (a' := x.1) (b' := x.2) hr).symm
      exact Agree.sessRun now fuel rest a1 b1 a' b' h1 hx

end PyIkev2.Impl
