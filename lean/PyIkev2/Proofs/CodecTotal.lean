/-
  Helper lemmas for C06: every parser of the codec model returns, or fails with a
  protocol error, and never runs out of fuel.  The guard facts of the current source
  are hypotheses (named `G…`), discharged in `Props/C06.lean` by evaluating `Gen.Codec`.
-/
import PyIkev2.Model.Codec

namespace PyIkev2.Impl
open PyIkev2 PyIkev2.Res

theorem need_cases (g : Bool) (h n : Nat) :
    (need g h n = .ok () ∧ n ≤ h) ∨ (need g h n = (if g then .invalidSyntax else .py .structError) ∧ h < n) := by
  unfold need; by_cases hn : n ≤ h
  · simp [hn]
  · simp [hn]; omega

theorem need_protocolOnly (g : Bool) (hg : g = true) (h n : Nat) : protocolOnly (need g h n) := by
  subst hg; unfold need; split <;> simp

theorem need_ne_hang (g : Bool) (h n : Nat) : need g h n ≠ .hang := by
  unfold need; split; · simp
  split <;> simp

theorem need_ok_le {g : Bool} {h n : Nat} (hk : need g h n = .ok ()) : n ≤ h := by
  unfold need at hk; split at hk; · assumption
  split at hk <;> simp at hk

end PyIkev2.Impl

namespace PyIkev2.Impl
open PyIkev2 PyIkev2.Res

/-- every `unpack_from` site of the parsers maps `struct.error` to `InvalidSyntax` -/
def AllGuards : Prop :=
  Gen.Codec.guard_ke = true ∧ Gen.Codec.guard_transform_hdr = true ∧ Gen.Codec.guard_transform_attr = true ∧
  Gen.Codec.guard_proposal_hdr = true ∧ Gen.Codec.guard_proposal_thdr = true ∧ Gen.Codec.guard_sa_phdr = true ∧
  Gen.Codec.guard_notify = true ∧ Gen.Codec.guard_id = true ∧ Gen.Codec.guard_auth = true ∧
  Gen.Codec.guard_ts_sel = true ∧ Gen.Codec.guard_ts_hdr = true ∧ Gen.Codec.guard_ts_lenhdr = true ∧
  Gen.Codec.guard_delete = true ∧ Gen.Codec.guard_chain_hdr = true ∧ Gen.Codec.guard_msg_hdr = true

instance : Decidable AllGuards := by unfold AllGuards; exact inferInstance

theorem po_parseKE (G : AllGuards) (d : Bytes) : protocolOnly (parseKE d) := by
  unfold parseKE
  apply protocolOnly_bind
  · exact need_protocolOnly _ G.1 _ _
  · intro _ _; simp

end PyIkev2.Impl

namespace PyIkev2.Impl
open PyIkev2 PyIkev2.Res

theorem po_parseAttrs (G : AllGuards) (rest : Bytes) : protocolOnly (parseAttrs rest) := by
  have hg := G.2.2.1
  fun_induction parseAttrs rest <;> simp_all

theorem po_parseTransform (G : AllGuards) (d : Bytes) : protocolOnly (parseTransform d) := by
  unfold parseTransform
  apply protocolOnly_bind
  · exact need_protocolOnly _ G.2.1 _ _
  · intro _ _
    apply protocolOnly_bind
    · exact po_parseAttrs G _
    · intro _ _; simp

theorem parseTransform_ok_len {d : Bytes} {t : Transform} (h : parseTransform d = .ok t) : 4 ≤ d.length := by
  unfold parseTransform at h
  rcases need_cases Gen.Codec.guard_transform_hdr d.length 4 with ⟨_, hl⟩ | ⟨hn, _⟩
  · exact hl
  · rw [hn] at h; split at h <;> simp at h

theorem po_parseTransforms (G : AllGuards) (fuel : Nat) (rest : Bytes) (acc : List Transform)
    (hf : rest.length < fuel) : protocolOnly (parseTransforms fuel rest acc) := by
  induction fuel generalizing rest acc with
  | zero => omega
  | succ fuel ih =>
    unfold parseTransforms
    split
    · simp
    · rename_i hne
      apply protocolOnly_bind
      · exact need_protocolOnly _ G.2.2.2.2.1 _ _
      · intro _ hn
        have h4 := need_ok_le hn
        apply protocolOnly_bind
        · exact po_parseTransform G _
        · intro t ht
          have hl := parseTransform_ok_len ht
          apply ih
          simp only [slice, List.length_drop, List.length_take] at hl
          simp only [List.length_drop]
          omega

end PyIkev2.Impl

namespace PyIkev2.Impl
open PyIkev2 PyIkev2.Res

theorem po_parseProposal (G : AllGuards) (d : Bytes) : protocolOnly (parseProposal d) := by
  unfold parseProposal
  apply protocolOnly_bind
  · exact need_protocolOnly _ G.2.2.2.1 _ _
  · intro _ _
    apply protocolOnly_bind
    · apply po_parseTransforms G; simp only [List.length_drop]; omega
    · intro ts _

      split; · simp
      split <;> simp

theorem parseProposal_ok_len {d : Bytes} {p : Proposal} (h : parseProposal d = .ok p) : 4 ≤ d.length := by
  unfold parseProposal at h
  rcases need_cases Gen.Codec.guard_proposal_hdr d.length 4 with ⟨_, hl⟩ | ⟨hn, _⟩
  · exact hl
  · rw [hn] at h; split at h <;> simp at h

theorem po_parseProposals (G : AllGuards) (fuel : Nat) (rest : Bytes) (acc : List Proposal)
    (hf : rest.length < fuel) : protocolOnly (parseProposals fuel rest acc) := by
  induction fuel generalizing rest acc with
  | zero => omega
  | succ fuel ih =>
    unfold parseProposals
    split
    · simp
    · apply protocolOnly_bind
      · exact need_protocolOnly _ G.2.2.2.2.2.1 _ _
      · intro _ hn
        have h4 := need_ok_le hn
        apply protocolOnly_bind
        · exact po_parseProposal G _
        · intro t ht
          have hl := parseProposal_ok_len ht
          apply ih
          simp only [slice, List.length_drop, List.length_take] at hl
          simp only [List.length_drop]
          omega

theorem po_parseSA (G : AllGuards) (d : Bytes) : protocolOnly (parseSA d) := by
  unfold parseSA
  apply protocolOnly_bind
  · apply po_parseProposals G; omega
  · intro ps _; split <;> simp

theorem po_parseVendor (d : Bytes) : protocolOnly (parseVendor d) := by
  unfold parseVendor; split <;> simp

theorem po_parseNonce (d : Bytes) : protocolOnly (parseNonce d) := by
  unfold parseNonce; split <;> simp

theorem po_parseNotify (G : AllGuards) (d : Bytes) : protocolOnly (parseNotify d) := by
  unfold parseNotify
  apply protocolOnly_bind
  · exact need_protocolOnly _ G.2.2.2.2.2.2.1 _ _
  · intro _ _; simp

theorem po_parseID (G : AllGuards) (d : Bytes) : protocolOnly (parseID d) := by
  unfold parseID
  apply protocolOnly_bind
  · exact need_protocolOnly _ G.2.2.2.2.2.2.2.1 _ _
  · intro _ _; simp

theorem po_parseAuth (G : AllGuards) (d : Bytes) : protocolOnly (parseAuth d) := by
  unfold parseAuth
  apply protocolOnly_bind
  · exact need_protocolOnly _ G.2.2.2.2.2.2.2.2.1 _ _
  · intro _ _; simp

theorem po_parseSel (G : AllGuards) (d : Bytes) : protocolOnly (parseSel d) := by
  unfold parseSel
  apply protocolOnly_bind
  · exact need_protocolOnly _ G.2.2.2.2.2.2.2.2.2.1 _ _
  · intro _ _
    apply protocolOnly_bind
    · exact need_protocolOnly _ G.2.2.2.2.2.2.2.2.2.1 _ _
    · intro _ _; simp

theorem parseSel_ok_len {d : Bytes} {s : TS} (h : parseSel d = .ok s) : 8 ≤ d.length := by
  unfold parseSel at h
  rcases need_cases Gen.Codec.guard_ts_sel d.length 8 with ⟨_, hl⟩ | ⟨hn, _⟩
  · exact hl
  · rw [hn] at h; split at h <;> simp at h

theorem po_parseSels (G : AllGuards) (fuel : Nat) (rest : Bytes) (acc : List TS)
    (hf : rest.length < fuel) : protocolOnly (parseSels fuel rest acc) := by
  induction fuel generalizing rest acc with
  | zero => omega
  | succ fuel ih =>
    unfold parseSels
    split
    · simp
    · apply protocolOnly_bind
      · exact need_protocolOnly _ G.2.2.2.2.2.2.2.2.2.2.2.1 _ _
      · intro _ hn
        have h4 := need_ok_le hn
        apply protocolOnly_bind
        · exact po_parseSel G _
        · intro t ht
          have hl := parseSel_ok_len ht
          apply ih
          simp only [List.length_take] at hl
          simp only [List.length_drop]
          omega

theorem po_parseTS (G : AllGuards) (d : Bytes) : protocolOnly (parseTS d) := by
  unfold parseTS
  apply protocolOnly_bind
  · exact need_protocolOnly _ G.2.2.2.2.2.2.2.2.2.2.1 _ _
  · intro _ _
    apply protocolOnly_bind
    · apply po_parseSels G; simp only [List.length_drop]; omega
    · intro _ _; split <;> simp

theorem po_parseDelete (G : AllGuards) (d : Bytes) : protocolOnly (parseDelete d) := by
  unfold parseDelete
  apply protocolOnly_bind
  · exact need_protocolOnly _ G.2.2.2.2.2.2.2.2.2.2.2.2.1 _ _
  · intro _ _; simp

theorem po_parseBody (G : AllGuards) (pt : Nat) (d : Bytes) (r : Res Body)
    (h : parseBody pt d = some r) : protocolOnly r := by
  unfold parseBody at h
  repeat' split at h
  all_goals first
    | (cases h; first
        | exact po_parseSA G _ | exact po_parseKE G _ | exact po_parseID G _ | exact po_parseAuth G _
        | exact po_parseNonce _ | exact po_parseNotify G _ | exact po_parseDelete G _
        | exact po_parseVendor _ | exact po_parseTS G _ | simp)
    | cases h

end PyIkev2.Impl

namespace PyIkev2.Impl
open PyIkev2 PyIkev2.Res

/-- what is assumed of the cipher: CBC decryption fails (library `ValueError`) exactly on a
    wrong IV size or a ciphertext that is not a whole number of blocks, and otherwise
    returns as many octets as it was given. -/
structure CryptoCtx.Lawful (c : CryptoCtx) : Prop where
  block_pos : 0 < c.block
  dec_fail : ∀ iv ct, (iv.length ≠ c.block ∨ ct.length % c.block ≠ 0) → c.dec iv ct = .py .valueError
  dec_ok : ∀ iv ct, iv.length = c.block → ct.length % c.block = 0 →
    ∃ pt, c.dec iv ct = .ok pt ∧ pt.length = ct.length

theorem po_overrun {α : Type} (G : AllGuards) (next : Nat) : protocolOnly (overrun next : Res α) := by
  unfold overrun
  have hg := G.2.2.2.2.2.2.2.2.2.2.2.2.2.1
  split; · simp
  simp [hg]

theorem po_parseChain (G : AllGuards) (hmin : Gen.Codec.chain_minlen_check = true)
    (fuel : Nat) (rest : Bytes) (pt : Nat) (acc : List Payload)
    (hf : rest.length < fuel) : protocolOnly (parseChain fuel rest pt acc) := by
  induction fuel generalizing rest pt acc with
  | zero => omega
  | succ fuel ih =>
    unfold parseChain
    split
    · split <;> simp
    · apply protocolOnly_bind
      · exact need_protocolOnly _ G.2.2.2.2.2.2.2.2.2.2.2.2.2.1 _ _
      · intro _ hn
        have h4 := need_ok_le hn
        simp only [hmin, true_and]
        split
        · simp
        · rename_i hlen
          split
          · rename_i r hr
            apply protocolOnly_bind
            · exact po_parseBody G _ _ _ hr
            · intro b _
              split
              · exact po_overrun G _
              · apply ih; simp only [List.length_drop]; omega
          · split
            · simp
            · split
              · exact po_overrun G _
              · apply ih; simp only [List.length_drop]; omega

theorem po_parseHeader (G : AllGuards) (d : Bytes) : protocolOnly (parseHeader d) := by
  unfold parseHeader
  apply protocolOnly_bind
  · exact need_protocolOnly _ G.2.2.2.2.2.2.2.2.2.2.2.2.2.2 _ _
  · intro _ _; simp

theorem po_decryptSK (hsk : Gen.Codec.sk_len_check = true) (c : CryptoCtx) (L : c.Lawful) (ct : Bytes) :
    protocolOnly (decryptSK c ct) := by
  unfold decryptSK
  simp only [hsk, true_and]
  split
  · simp
  · rename_i hcond
    have hiv : (List.take c.block ct).length = c.block := by
      apply Classical.byContradiction; intro h; exact hcond (Or.inl h)
    have hb0 : (dropLast (List.drop c.block ct) c.icvLen).length ≠ 0 := by
      intro h; exact hcond (Or.inr (Or.inl h))
    have hbm : (dropLast (List.drop c.block ct) c.icvLen).length % c.block = 0 := by
      apply Classical.byContradiction; intro h; exact hcond (Or.inr (Or.inr h))
    obtain ⟨pt, hdec, hlen⟩ := L.dec_ok _ _ hiv hbm
    rw [hdec]
    simp only [bind_ok]
    split
    · omega
    · simp

theorem po_parseMsg (G : AllGuards) (hmin : Gen.Codec.chain_minlen_check = true)
    (hsk : Gen.Codec.sk_len_check = true) (d : Bytes) (ho : Bool) (crypto : Option CryptoCtx)
    (L : ∀ c, crypto = some c → c.Lawful) : protocolOnly (parseMsg d ho crypto) := by
  unfold parseMsg
  apply protocolOnly_bind
  · exact po_parseHeader G d
  · intro h _
    split
    · simp
    · apply protocolOnly_bind
      · apply po_parseChain G hmin; omega
      · intro ps _
        split
        · rename_i c _ ct inner hl
          unfold finishSK
          split
          · simp
          · apply protocolOnly_bind
            · exact po_decryptSK hsk c (L c rfl) ct
            · intro p _
              apply protocolOnly_bind
              · apply po_parseChain G hmin; omega
              · intro _ _; simp
        · split <;> simp
        · simp

end PyIkev2.Impl
